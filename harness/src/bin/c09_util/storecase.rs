//! C09 stream "store": `StoreWriter` / `StoreReader` driven directly (store, store_bytes, stack),
//! with arbitrary alive bitsets for `iter`.
use std::path::Path;

use serde_json::json;
use tantivy::directory::{Directory, OwnedBytes, RamDirectory};
use tantivy::fastfield::{write_alive_bitset, AliveBitSet};
use tantivy::store::{Compressor, StoreReader, StoreWriter};
use tantivy::TantivyDocument;
use tantivy_common::BitSet;
use tvmon::report::Report;
use tvmon::rng::Rng;

use crate::c09_util::gen::*;
use crate::verify::*;
use crate::c09_util::*;

pub struct StoreInfo {
    pub path: String,
    pub comp: Compressor,
    pub bs: usize,
    pub thread: bool,
    /// pool index of each doc id
    pub doc_ix: Vec<usize>,
    pub lens: Vec<usize>,
    pub layout: Layout,
    pub origin: String,
}

pub fn open_reader(dir: &RamDirectory, path: &str, cache: usize) -> Result<StoreReader, String> {
    let f = dir.open_read(Path::new(path)).map_err(|e| format!("open_read: {e}"))?;
    StoreReader::open(f, cache).map_err(|e| format!("StoreReader::open: {e}"))
}

pub fn make_bitset(alive: &[bool]) -> AliveBitSet {
    let mut bs = BitSet::with_max_value_and_full(alive.len() as u32);
    for (d, a) in alive.iter().enumerate() {
        if !*a {
            bs.remove(d as u32);
        }
    }
    let mut out = vec![];
    write_alive_bitset(&bs, &mut out).expect("write to vec");
    AliveBitSet::open(OwnedBytes::new(out))
}

const BLOCK_COUNTS: &[usize] = &[
    1, 2, 3, 5, 6, 7, 8, 9, 10, 15, 16, 17, 63, 64, 65, 66, 71, 72, 73, 511, 512, 513, 520,
];
const BLOCK_COUNTS_DEEP: &[usize] = &[4095, 4096, 4097, 4104];

/// returns (block size, profiles, mode name, add a unique value to small docs)
pub fn plan_store(rng: &mut Rng, deep: bool) -> (usize, Vec<Profile>, &'static str) {
    match rng.weighted(&[30, 15, 25, 22, 8]) {
        0 => {
            let bs = *rng.pick(&[0usize, 1, 8]);
            let n = if deep && rng.chance(1, 12) {
                *rng.pick(BLOCK_COUNTS_DEEP)
            } else {
                *rng.pick(BLOCK_COUNTS)
            };
            let p = (0..n)
                .map(|_| match rng.weighted(&[1, 1, 8, if n <= 100 { 2 } else { 0 }]) {
                    0 => Profile::Empty,
                    1 => Profile::OnlyNonStored,
                    2 => Profile::Tiny,
                    _ => Profile::Mixed,
                })
                .collect();
            (bs, p, "one-doc-per-block")
        }
        1 => {
            let bs = *rng.pick(&[16usize, 64, 100, 256, 1024]);
            let n = rng.urange(100, if deep { 4000 } else { 1500 });
            let p = (0..n)
                .map(|_| if rng.chance(1, 10) { Profile::Empty } else { Profile::Tiny })
                .collect();
            (bs, p, "many-tiny-docs")
        }
        2 => {
            let bs = *rng.pick(&[64usize, 256, 1024, 4096, 16384]);
            let n = rng.urange(3, 60).min((1_500_000 / bs).max(3));
            let p = (0..n)
                .map(|_| {
                    let b = bs as i64;
                    let t = match rng.below(7) {
                        0 | 1 => b - 8 + rng.irange(-3, 3),
                        2 => b + rng.irange(-3, 3),
                        3 => (b - 16) / 2 + rng.irange(-2, 2),
                        4 => b / 3,
                        5 => 2 * b + rng.irange(-9, 3),
                        _ => return Profile::Tiny,
                    };
                    Profile::Size(t.max(1) as usize)
                })
                .collect();
            (bs, p, "docs-around-block-size")
        }
        3 => {
            let bs = *rng.pick(BLOCK_SIZES);
            let n = if rng.chance(1, 20) { 0 } else { rng.urange(1, 300) };
            let p = (0..n)
                .map(|_| match rng.weighted(&[2, 1, 8, 10, 4, 1, 3]) {
                    0 => Profile::Empty,
                    1 => Profile::OnlyNonStored,
                    2 => Profile::Tiny,
                    3 => Profile::Mixed,
                    4 => Profile::Multi,
                    5 => Profile::DeepJson(rng.urange(10, 120)),
                    _ => Profile::Size(rng.urange(1, 3000)),
                })
                .collect();
            (bs, p, "mixed")
        }
        _ => {
            let bs = *rng.pick(&[16384usize, 16384, 4096, 65536, 1 << 20, 0]);
            let n = rng.urange(1, 6);
            let p = (0..n)
                .map(|_| {
                    if rng.chance(1, 3) {
                        Profile::Tiny
                    } else if deep && rng.chance(1, 10) {
                        Profile::Size(rng.urange(300_000, 3_000_000))
                    } else {
                        Profile::Size(rng.urange(17_000, 300_000))
                    }
                })
                .collect();
            (bs, p, "huge-docs")
        }
    }
}

pub fn gen_pool_docs(rng: &mut Rng, sch: &Sch, pool: &mut Vec<MDoc>, profiles: &[Profile], rep: &mut Report) -> Vec<usize> {
    let mut ix = vec![];
    for p in profiles {
        let id = pool.len() as u64 + 1;
        let mut d = gen_doc(rng, sch, id, *p);
        // make small documents distinguishable from their neighbours
        if matches!(p, Profile::Tiny) && rng.chance(3, 4) {
            let at = rng.usize_below(d.vals.len() + 1);
            d.vals.insert(at, (sch.slot("u_so"), MV::U64(id)));
        }
        observe_kinds(rep, &d);
        ix.push(pool.len());
        pool.push(d);
    }
    ix
}

fn write_fresh(
    dir: &RamDirectory,
    path: &str,
    comp: Compressor,
    bs: usize,
    thread: bool,
    sch: &Sch,
    pool: &[MDoc],
    ixs: &[usize],
) -> Result<(), String> {
    let w = dir.open_write(Path::new(path)).map_err(|e| format!("open_write: {e}"))?;
    let mut sw = StoreWriter::new(w, comp, bs, thread).map_err(|e| format!("StoreWriter::new: {e}"))?;
    for &i in ixs {
        sw.store(&pool[i].to_tdoc(sch), &sch.schema).map_err(|e| format!("store: {e}"))?;
    }
    sw.close().map_err(|e| format!("close: {e}"))
}

fn read_lens(dir: &RamDirectory, path: &str, n: usize) -> Result<Vec<usize>, String> {
    let r = open_reader(dir, path, 4)?;
    (0..n as u32)
        .map(|d| r.get_document_bytes(d).map(|b| b.len()).map_err(|e| format!("get_document_bytes({d}): {e}")))
        .collect()
}

/// adversarial alive sets for `iter`
fn alive_sets(rng: &mut Rng, lay: &Layout) -> Vec<(&'static str, Vec<bool>)> {
    let n = lay.ndocs as usize;
    let mut out: Vec<(&'static str, Vec<bool>)> = vec![];
    if n == 0 {
        return out;
    }
    let mut cands: Vec<(&'static str, Vec<bool>)> = vec![];
    let p = *rng.pick(&[1u64, 10, 50, 90]);
    cands.push(("random", (0..n).map(|_| !rng.chance(p, 100)).collect()));
    let mut v = vec![true; n];
    for b in 0..lay.nblocks() {
        v[lay.doc_range(b).0 as usize] = false;
    }
    cands.push(("first-doc-of-each-block-deleted", v));
    let mut v = vec![true; n];
    for b in 0..lay.nblocks() {
        v[lay.doc_range(b).1 as usize - 1] = false;
    }
    cands.push(("last-doc-of-each-block-deleted", v));
    let mut v = vec![true; n];
    for b in 0..lay.nblocks() {
        if b == 0 || b + 1 == lay.nblocks() || rng.chance(1, 3) {
            let (s, e) = lay.doc_range(b);
            for d in s..e {
                v[d as usize] = false;
            }
        }
    }
    cands.push(("whole-blocks-deleted", v));
    cands.push(("all-deleted", vec![false; n]));
    let mut v = vec![false; n];
    v[n - 1] = true;
    cands.push(("only-last-alive", v));
    let mut v = vec![false; n];
    v[0] = true;
    cands.push(("only-first-alive", v));
    for _ in 0..2 {
        let i = rng.usize_below(cands.len());
        out.push(cands.swap_remove(i));
    }
    out
}

/// Reads the store back with every cache size; returns false after the first violation.
pub fn verify_store(
    rep: &mut Report,
    rng: &mut Rng,
    sch: &Sch,
    dir: &RamDirectory,
    info: &StoreInfo,
    pool: &[MDoc],
    mode: &str,
) -> bool {
    let docs: Vec<&MDoc> = info.doc_ix.iter().map(|&i| &pool[i]).collect();
    let cfg = json!({"compressor": comp_name(&info.comp), "blocksize": info.bs, "dedicated_thread": info.thread,
        "mode": mode, "ndocs": docs.len()});
    let t = VTarget { docs, layout: &info.layout, origin: &info.origin, cfg };
    let n = info.layout.ndocs as usize;
    let all_alive = vec![true; n];
    let mut caches = vec![0usize, 1, 100];
    caches.push(*rng.pick(&[2usize, 3, 7, 8, 50]));
    let full_reader = rng.usize_below(caches.len());
    let sets = alive_sets(rng, &info.layout);
    let mut st = CmpStats::default();
    let mut ok = true;
    let mut first_bytes: Option<Vec<(u32, Vec<u8>)>> = None;
    for (ci, &cache) in caches.iter().enumerate() {
        rep.observe("cache_num_blocks", cache.to_string());
        let reader = match open_reader(dir, &info.path, cache) {
            Ok(r) => r,
            Err(e) => {
                rep.violation("api-error:StoreReader::open", json!({"cfg": t.cfg, "origin": t.origin, "error": e}));
                ok = false;
                break;
            }
        };
        // iter before or after the random gets (both orders warm the cache differently)
        let iter_first = rng.bool();
        if iter_first {
            ok &= verify_iter(rep, sch, &reader, cache, &t, None, &all_alive, "none", &mut st);
        }
        if ok {
            ok &= verify_gets(rep, rng, sch, &reader, cache, &t, &all_alive, ci == full_reader, &mut st);
        }
        if ok && !iter_first {
            ok &= verify_iter(rep, sch, &reader, cache, &t, None, &all_alive, "none", &mut st);
        }
        if ok && ci < 2 {
            for (name, alive) in &sets {
                rep.observe("iter_alive_set", *name);
                let bitset = make_bitset(alive);
                ok &= verify_iter(rep, sch, &reader, cache, &t, Some(&bitset), alive, name, &mut st);
                if !ok {
                    break;
                }
            }
        }
        // raw bytes of a few documents are the same through every cache size
        if ok && n > 0 {
            match &first_bytes {
                None => {
                    let mut v = vec![];
                    for _ in 0..6 {
                        let d = rng.below(n as u64) as u32;
                        match reader.get_document_bytes(d) {
                            Ok(b) => v.push((d, b.as_slice().to_vec())),
                            Err(e) => {
                                rep.violation("store.get_document_bytes:error", json!({"cfg": t.cfg, "doc": d, "error": e.to_string()}));
                                ok = false;
                            }
                        }
                    }
                    first_bytes = Some(v);
                }
                Some(v) => {
                    for (d, b) in v {
                        match reader.get_document_bytes(*d) {
                            Ok(b2) if b2.as_slice() == &b[..] => {}
                            Ok(_) => {
                                rep.violation("store.get_document_bytes:differs-between-readers", json!({"cfg": t.cfg, "doc": d, "cache": cache}));
                                ok = false;
                            }
                            Err(e) => {
                                rep.violation("store.get_document_bytes:error", json!({"cfg": t.cfg, "doc": d, "error": e.to_string()}));
                                ok = false;
                            }
                        }
                    }
                }
            }
        }
        if !ok {
            break;
        }
    }
    flush_stats(rep, &st);
    observe_store(rep, &info.comp, info.bs, info.thread, &info.layout, &info.origin, ok, false);
    ok
}

fn build_fresh_store(
    rep: &mut Report,
    rng: &mut Rng,
    sch: &Sch,
    dir: &RamDirectory,
    pool: &mut Vec<MDoc>,
    path: &str,
    comp: Compressor,
    deep: bool,
) -> Option<(StoreInfo, &'static str)> {
    let (bs, profiles, mode) = plan_store(rng, deep);
    rep.observe("store_mode", mode);
    let thread = rng.bool();
    let ixs = gen_pool_docs(rng, sch, pool, &profiles, rep);
    if let Err(e) = write_fresh(dir, path, comp, bs, thread, sch, pool, &ixs) {
        rep.violation("api-error:store-write", json!({"error": e, "compressor": comp_name(&comp), "blocksize": bs, "mode": mode}));
        return None;
    }
    let lens = match read_lens(dir, path, ixs.len()) {
        Ok(l) => l,
        Err(e) => {
            rep.violation("store.get_document_bytes:error", json!({"error": e, "compressor": comp_name(&comp), "blocksize": bs, "mode": mode, "ndocs": ixs.len()}));
            return None;
        }
    };
    let layout = layout_from(&[LOp::Docs(ixs.len())], &lens, bs);
    Some((
        StoreInfo { path: path.to_string(), comp, bs, thread, doc_ix: ixs, lens, layout, origin: "fresh".into() },
        mode,
    ))
}

pub fn store_case(case: u64, rng: &mut Rng, rep: &mut Report, deep: bool) {
    let sch = sch();
    let dir = RamDirectory::create();
    let mut pool: Vec<MDoc> = vec![];
    let comp = gen_compressor(rng);
    rep.eval();
    let (s1, mode) = match build_fresh_store(rep, rng, sch, &dir, &mut pool, "s0", comp, deep) {
        Some(x) => x,
        None => return,
    };
    if case < 2 {
        rep.sample(json!({"stream": "store", "compressor": comp_name(&comp), "blocksize": s1.bs, "mode": mode,
            "ndocs": s1.doc_ix.len(), "model_blocks": s1.layout.nblocks(), "skip_layers": s1.layout.layers(),
            "first_doc": s1.doc_ix.first().map(|&i| pool[i].vals.iter().take(4).map(|(s, v)| json!({"field": sch.fields[*s].name, "value": v.brief()})).collect::<Vec<_>>())}));
    }
    let t0 = std::time::Instant::now();
    let ok1 = verify_store(rep, rng, sch, &dir, &s1, &pool, mode);
    if std::env::var("C09_DEBUG").is_ok() && t0.elapsed().as_secs_f64() > 1.5 {
        eprintln!("slow verify {:.1}s: case {case} mode {mode} ndocs {} bs {} blocks {} maxblock {} comp {}", t0.elapsed().as_secs_f64(),
            s1.doc_ix.len(), s1.bs, s1.layout.nblocks(), s1.layout.max_block_bytes(), comp_name(&s1.comp));
    }
    if !ok1 {
        return;
    }
    let total: usize = s1.lens.iter().sum();
    if total > (3 << 20) || !rng.chance(3, 5) {
        return;
    }
    // ---- a second-generation store built the way a merge builds one: stack / copy raw bytes /
    // re-serialise / fresh documents, in any mix
    let mut stores = vec![s1];
    for k in 1..rng.urange(1, 3) {
        let c = same_family(rng, comp);
        match build_fresh_store(rep, rng, sch, &dir, &mut pool, &format!("s{k}"), c, false) {
            Some((s, m)) => {
                if s.lens.iter().sum::<usize>() > (3 << 20) {
                    continue;
                }
                if !verify_store(rep, rng, sch, &dir, &s, &pool, m) {
                    return;
                }
                stores.push(s);
            }
            None => return,
        }
    }
    let comp2 = same_family(rng, comp);
    let bs2 = *rng.pick(BLOCK_SIZES);
    let thread2 = rng.bool();
    let path = "combined";
    let cfg = json!({"compressor": comp_name(&comp2), "blocksize": bs2, "dedicated_thread": thread2});
    let res: Result<(Vec<usize>, Vec<(u8, usize, usize)>, Vec<&'static str>), String> = (|| {
        let w = dir.open_write(Path::new(path)).map_err(|e| format!("open_write: {e}"))?;
        let mut sw = StoreWriter::new(w, comp2, bs2, thread2).map_err(|e| format!("StoreWriter::new: {e}"))?;
        let mut doc_ix: Vec<usize> = vec![];
        // (0 = docs | 1 = stack, count, source store)
        let mut lops: Vec<(u8, usize, usize)> = vec![];
        let mut names: Vec<&'static str> = vec![];
        for _ in 0..rng.urange(1, 5) {
            let si = rng.usize_below(stores.len());
            let src = &stores[si];
            let n = src.doc_ix.len();
            match rng.weighted(&[4, 3, 2, 2]) {
                0 => {
                    let r = open_reader(&dir, &src.path, *rng.pick(&[0usize, 1, 50]))?;
                    sw.stack(r).map_err(|e| format!("stack: {e}"))?;
                    doc_ix.extend(src.doc_ix.iter().copied());
                    lops.push((1, n, si));
                    names.push("stack");
                }
                1 => {
                    // what the merger does for segments with deletes / few blocks
                    let p = *rng.pick(&[0u64, 0, 20, 60]);
                    let r = open_reader(&dir, &src.path, 50)?;
                    let mut c = 0;
                    for d in 0..n {
                        if rng.chance(p, 100) {
                            continue;
                        }
                        let b = r.get_document_bytes(d as u32).map_err(|e| format!("get_document_bytes: {e}"))?;
                        sw.store_bytes(b.as_slice()).map_err(|e| format!("store_bytes: {e}"))?;
                        doc_ix.push(src.doc_ix[d]);
                        c += 1;
                    }
                    lops.push((0, c, si));
                    names.push("copy-bytes");
                }
                2 => {
                    let p = *rng.pick(&[0u64, 30]);
                    let alive: Vec<bool> = (0..n).map(|_| !rng.chance(p, 100)).collect();
                    let bitset = make_bitset(&alive);
                    let r = open_reader(&dir, &src.path, 1)?;
                    let mut c = 0;
                    let live: Vec<usize> = (0..n).filter(|d| alive[*d]).collect();
                    for doc in r.iter::<TantivyDocument>(if p == 0 && c == 0 && n % 2 == 0 { None } else { Some(&bitset) }) {
                        let doc = doc.map_err(|e| format!("iter: {e}"))?;
                        sw.store(&doc, &sch.schema).map_err(|e| format!("store: {e}"))?;
                        if c < live.len() {
                            doc_ix.push(src.doc_ix[live[c]]);
                        }
                        c += 1;
                    }
                    lops.push((0, c, si));
                    names.push("reserialize");
                }
                _ => {
                    let profiles: Vec<Profile> = (0..rng.urange(1, 12))
                        .map(|_| if rng.bool() { Profile::Tiny } else { Profile::Mixed })
                        .collect();
                    let ixs = gen_pool_docs(rng, sch, &mut pool, &profiles, rep);
                    for &i in &ixs {
                        sw.store(&pool[i].to_tdoc(sch), &sch.schema).map_err(|e| format!("store: {e}"))?;
                    }
                    lops.push((0, ixs.len(), usize::MAX));
                    doc_ix.extend(ixs);
                    names.push("fresh-docs");
                }
            }
        }
        sw.close().map_err(|e| format!("close: {e}"))?;
        Ok((doc_ix, lops, names))
    })();
    let (doc_ix, lops, names) = match res {
        Ok(x) => x,
        Err(e) => {
            rep.violation("api-error:store-combine", json!({"cfg": cfg, "error": e}));
            return;
        }
    };
    let lens = match read_lens(&dir, path, doc_ix.len()) {
        Ok(l) => l,
        Err(e) => {
            rep.violation("store.get_document_bytes:error", json!({"cfg": cfg, "origin": names, "error": e, "ndocs": doc_ix.len()}));
            return;
        }
    };
    let ops: Vec<LOp> = lops
        .iter()
        .map(|(k, n, si)| if *k == 1 { LOp::Stack(&stores[*si].layout) } else { LOp::Docs(*n) })
        .collect();
    let layout = layout_from(&ops, &lens, bs2);
    for n in &names {
        rep.observe("merge_path", format!("store-level:{n}"));
        if *n == "stack" {
            rep.count("stacked_readers", 1);
        }
    }
    let mut uniq = names.clone();
    uniq.sort();
    uniq.dedup();
    let info = StoreInfo {
        path: path.to_string(),
        comp: comp2,
        bs: bs2,
        thread: thread2,
        doc_ix,
        lens,
        layout,
        origin: format!("combined[{}]", uniq.join("+")),
    };
    verify_store(rep, rng, sch, &dir, &info, &pool, "combined");
}
