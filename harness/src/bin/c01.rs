//! C01 — commit is atomic and durable across a crash at any instant (fault enumeration).
//!
//! A generated history runs on MonDir; afterwards every boundary of the recorded storage-op log
//! is a crash point and every persistence outcome of crash.rs an image. Each image is recovered
//! with `Index::open` and compared with the set of allowed model states.
use std::collections::BTreeMap;
use std::sync::Arc;

use serde_json::{json, Value};
use tantivy::directory::ManagedDirectory;
use tantivy::{Index, IndexWriter};
use tvmon::crash::*;
use tvmon::hist::*;
use tvmon::mondir::{meta_referenced_files, Event, MonCfg, MonDir, OpKind};
use tvmon::report::*;
use tvmon::rng::Rng;

/// per boundary: which model commits are allowed
struct Allowed {
    /// index into model.commits of the last commit whose return precedes the boundary
    last_acked: usize,
    /// commit in flight (call precedes, return does not)
    in_flight: bool,
}

fn recover_and_check(
    img: &Image,
    hs: &HSchema,
    commits: &[DocSetState],
    allowed: &Allowed,
    future_commit: Option<&DocSetState>,
    deep: bool,
    check_writable: bool,
    replay: Option<&[Op]>,
) -> Result<usize, (String, Value)> {
    let dir = MonDir::from_image(img, MonCfg::default());
    let index = match guarded(|| Index::open(dir.clone())) {
        Ok(Ok(i)) => i,
        Ok(Err(e)) => return Err(("recover:open-failed".into(), json!(e.to_string()))),
        Err(p) => return Err((format!("recover:open-panicked:{}", p.sig()), json!(p.message))),
    };
    // every referenced file complete and checksum-clean
    let meta_bytes = img.get("meta.json").cloned().unwrap_or_default();
    let refs = meta_referenced_files(&meta_bytes).map_err(|e| ("recover:meta".to_string(), json!(e)))?;
    let managed = ManagedDirectory::wrap(Box::new(dir.clone()))
        .map_err(|e| ("recover:managed-wrap".to_string(), json!(e.to_string())))?;
    for (f, _) in &refs {
        if !img.contains_key(f) {
            return Err((
                format!("recover:referenced-file-missing:{}", tvmon::mondir::file_kind(f)),
                json!({"file": f}),
            ));
        }
        match managed.validate_checksum(std::path::Path::new(f)) {
            Ok(true) => {}
            Ok(false) => {
                return Err((
                    format!("recover:checksum-mismatch:{}", tvmon::mondir::file_kind(f)),
                    json!({"file": f}),
                ))
            }
            Err(e) => {
                return Err((
                    format!("recover:checksum-error:{}", tvmon::mondir::file_kind(f)),
                    json!({"file": f, "err": e.to_string()}),
                ))
            }
        }
    }
    match index.validate_checksum() {
        Ok(bad) if bad.is_empty() => {}
        Ok(bad) => return Err(("recover:validate_checksum-reports".into(), json!(format!("{bad:?}")))),
        Err(e) => return Err(("recover:validate_checksum-error".into(), json!(e.to_string()))),
    }
    let reader = match guarded(|| index.reader()) {
        Ok(Ok(r)) => r,
        Ok(Err(e)) => return Err(("recover:reader-failed".into(), json!(e.to_string()))),
        Err(p) => return Err((format!("recover:reader-panicked:{}", p.sig()), json!(p.message))),
    };
    let searcher = reader.searcher();
    // which allowed state is it?
    let mut candidates: Vec<(usize, &DocSetState)> = vec![(allowed.last_acked, &commits[allowed.last_acked])];
    if allowed.in_flight {
        if let Some(f) = future_commit {
            candidates.push((allowed.last_acked + 1, f));
        }
    }
    let ids = live_ids(&searcher).map_err(|e| ("recover:dump".to_string(), json!(e)))?;
    let mut matched = None;
    for (ci, st) in &candidates {
        if st.len() == ids.len() && st.keys().all(|k| ids.contains(k)) {
            matched = Some((*ci, *st));
            break;
        }
    }
    let Some((ci, st)) = matched else {
        // classify: an older commit, or a mixture
        let older = commits[..allowed.last_acked]
            .iter()
            .rposition(|c| c.len() == ids.len() && c.keys().all(|k| ids.contains(k)));
        let sig = match older {
            Some(_) => "recover:state-is-an-older-commit-than-the-last-acknowledged",
            None => "recover:state-matches-no-commit",
        };
        return Err((
            sig.into(),
            json!({"ids": ids.iter().take(30).collect::<Vec<_>>(), "last_acked_commit": allowed.last_acked,
                   "older_commit_index": older, "in_flight": allowed.in_flight}),
        ));
    };
    let errs = compare_searcher(&searcher, hs, st, deep);
    if let Some((sig, d)) = errs.into_iter().next() {
        return Err((format!("recover:{sig}"), d));
    }
    if check_writable && ci == allowed.last_acked && allowed.in_flight && replay.is_some() && future_commit.is_some() {
        // The interrupted transaction did not land: do what an application replaying its own log
        // does - the same operations again on a new writer (same opstamps as before the crash,
        // files of the interrupted commit may still lie around), commit, GC.
        let wdir = MonDir::from_image(img, MonCfg::default());
        let widx = Index::open(wdir.clone()).map_err(|e| ("recover:reopen".to_string(), json!(e.to_string())))?;
        let want = future_commit.unwrap();
        let ops = replay.unwrap();
        let hs2 = hs.clone();
        let res = guarded(|| -> Result<(), String> {
            let mut model = Model::new();
            model.committed = st.clone();
            model.commits = vec![st.clone()];
            model.payload = widx.load_metas().map_err(|e| format!("load_metas: {e}"))?.payload;
            let cfg = ExecCfg { threads: 1, merge_policy: false, sort: None, budget_per_thread: 15_000_000 };
            let mut ex = Exec::attach(widx.clone(), hs2, cfg, None, model).map_err(|e| format!("writer: {e}"))?;
            for op in ops {
                let o = ex.step(op);
                if !o.ok {
                    return Err(format!("replayed {} failed: {:?}", op.kind(), o.err));
                }
            }
            let o = ex.step(&Op::Commit);
            if !o.ok {
                return Err(format!("commit of the replayed transaction failed: {:?}", o.err));
            }
            ex.writer
                .as_ref()
                .unwrap()
                .garbage_collect_files()
                .wait()
                .map_err(|e| format!("gc: {e}"))?;
            if let Some((s, d)) = ex.problems.iter().find(|(s, _)| !is_known("C02", s)) {
                return Err(format!("replayed transaction: {s} {d}"));
            }
            let r = widx.reader().map_err(|e| format!("reader: {e}"))?;
            let errs = compare_searcher(&r.searcher(), hs, want, false);
            if let Some((s, d)) = errs.into_iter().next() {
                return Err(format!("state after recovery + replayed transaction: {s} {d}"));
            }
            Ok(())
        });
        match res {
            Ok(Ok(())) => {}
            Ok(Err(e)) => return Err(("recover:cannot-replay-the-interrupted-transaction".into(), json!(e))),
            Err(p) => return Err((format!("recover:replay-panicked:{}", p.sig()), json!(p.message))),
        }
    } else if check_writable {
        // the recovered index accepts a writer, a commit and GC
        let wdir = MonDir::from_image(img, MonCfg::default());
        let widx = Index::open(wdir.clone()).map_err(|e| ("recover:reopen".to_string(), json!(e.to_string())))?;
        let res = guarded(|| -> Result<(), String> {
            let mut w: IndexWriter = widx.writer_with_num_threads(1, 15_000_000).map_err(|e| format!("writer: {e}"))?;
            let extra = MDoc { id: 1_000_000, grp: 0, val: Some(1), body: vec![1], tag: 1, pad: 0 };
            w.add_document(extra.to_doc(hs)).map_err(|e| format!("add: {e}"))?;
            w.commit().map_err(|e| format!("commit: {e}"))?;
            w.garbage_collect_files().wait().map_err(|e| format!("gc: {e}"))?;
            let r = widx.reader().map_err(|e| format!("reader: {e}"))?;
            let mut want = st.clone();
            want.insert(extra.id, extra);
            let errs = compare_searcher(&r.searcher(), hs, &want, false);
            if let Some((s, d)) = errs.into_iter().next() {
                return Err(format!("state after recovery+commit: {s} {d}"));
            }
            drop(w);
            Ok(())
        });
        match res {
            Ok(Ok(())) => {}
            Ok(Err(e)) => return Err(("recover:cannot-continue-indexing".into(), json!(e))),
            Err(p) => return Err((format!("recover:continue-panicked:{}", p.sig()), json!(p.message))),
        }
    }
    Ok(ci)
}

fn case(case: u64, rng: &mut Rng, rep: &mut Report, thorough: bool) {
    let mut cfg = ExecCfg::random(rng, true);
    cfg.threads = *rng.pick(&[1usize, 2, 3, 4]);
    let len = rng.urange(10, 40);
    let gcfg = GenCfg::standard(len).no_cutters().no_delete_all();
    let mut g = HistGen::new();
    let ops = g.history(rng, &gcfg);
    let mon = MonDir::new(MonCfg {
        monitors: true,
        keep_payloads: true,
        short_writes: rng.bool(),
        noise_permille: if rng.bool() { 20 } else { 0 },
        noise_seed: rng.next_u64(),
        ..Default::default()
    });
    let mut ex = match Exec::create(Box::new(mon.clone()), cfg.clone(), Some(mon.clone())) {
        Ok(e) => e,
        Err(e) => {
            rep.violation("api-error:create", json!(e));
            return;
        }
    };
    let created_seq = mon.seq();
    // operations of each committed transaction, in commit order (what a client would replay)
    let mut txn_ops: Vec<Vec<Op>> = vec![];
    let mut cur_txn: Vec<Op> = vec![];
    for op in &ops {
        let out = ex.step(op);
        match op {
            Op::Add(_) | Op::DeleteTerm(_) | Op::DeleteQuery(_) | Op::Batch(_) | Op::DeleteAll => cur_txn.push(op.clone()),
            Op::Commit | Op::PrepCommit { abort: false, .. } => {
                if out.ok {
                    txn_ops.push(std::mem::take(&mut cur_txn));
                }
            }
            Op::Rollback | Op::Reopen { .. } | Op::PrepCommit { abort: true, .. } => cur_txn.clear(),
            _ => {}
        }
        rep.count(&format!("op:{}", op.kind()), 1);
        if ex.problems.iter().any(|(s, _)| !is_known("C02", s)) {
            break;
        }
    }
    ex.drain_merges();
    // quiesce: close the writer so that no thread writes while we read the log
    if let Some(w) = ex.writer.take() {
        let _ = w.wait_merging_threads();
    }
    // problems of the live run belong to C02; here only storage-level monitors matter
    for v in mon.take_violations() {
        rep.violation(v.sig, json!({"case": case, "detail": v.detail}));
    }
    let (t1, t2, _t3, ..) = mon.counters();
    rep.count("T1_commit_point_checks", t1);
    rep.count("T2_write_once_checks", t2);
    let log: Vec<Event> = mon.log();
    let commits = ex.model.commits.clone();
    let hs = ex.hs.clone();

    // map boundaries to allowed commits using the client events
    // commit_calls[i] = (call_seq, ret_seq, ok)
    let mut commit_windows: Vec<(u64, u64, bool)> = vec![];
    let mut open_call: Option<u64> = None;
    for ev in &log {
        if ev.kind != OpKind::Client {
            continue;
        }
        match ev.path.as_str() {
            "call:commit" | "call:prepare_commit" => open_call = Some(ev.seq),
            "ret:commit" => {
                if let Some(c) = open_call.take() {
                    commit_windows.push((c, ev.seq, ev.note == "ok"));
                }
            }
            "ret:abort" | "ret:prepare_drop" => {
                open_call = None;
            }
            _ => {}
        }
    }
    let ok_windows: Vec<(u64, u64)> = commit_windows
        .iter()
        .filter(|w| w.2)
        .map(|w| (w.0, w.1))
        .collect();
    if ok_windows.len() + 1 != commits.len() {
        rep.harness_error(format!(
            "case {case}: {} ok commit windows vs {} model commits",
            ok_windows.len(),
            commits.len()
        ));
        return;
    }
    rep.eval();
    let mut st = CrashState::new();
    let mut boundaries = 0u64;
    let mut images = 0u64;
    let mut recovered_states: BTreeMap<usize, u64> = BTreeMap::new();
    let mut first_violation_sigs: std::collections::BTreeSet<String> = Default::default();
    // stride so that quick stays in budget: every boundary after a mutating op
    let n_mut = log.iter().filter(|e| e.kind.mutates() && e.ok).count();
    let stride = if thorough { 1 } else { (n_mut / 400).max(1) };
    let mut mut_idx = 0usize;
    let mut prng = Rng::new(rng.next_u64());
    let mut last_kind = OpKind::Client;
    let mut last_role = "";
    for ev in &log {
        st.apply(ev);
        if ev.seq <= created_seq || !ev.kind.mutates() || !ev.ok {
            continue;
        }
        last_kind = ev.kind;
        last_role = ev.role;
        mut_idx += 1;
        if mut_idx % stride != 0 && !(ev.kind == OpKind::AtomicWrite || ev.kind == OpKind::SyncDir || ev.kind == OpKind::Delete) {
            continue;
        }
        boundaries += 1;
        let k = ev.seq;
        let last_acked = ok_windows.iter().filter(|w| w.1 < k).count();
        let in_flight = ok_windows.iter().any(|w| w.0 < k && w.1 > k);
        let allowed = Allowed { last_acked, in_flight };
        let future = if in_flight { commits.get(last_acked + 1) } else { None };
        let outcomes = outcomes_for(st.pending.len(), st.unsynced_files(), thorough, &mut prng);
        for (oi, o) in outcomes.iter().enumerate() {
            let img = st.image(o, &mut prng);
            if !img.contains_key("meta.json") {
                // cannot happen after Index::create returned and its dir sync; if it does it is
                // a violation of "re-opening succeeds"
                rep.violation("recover:no-meta.json", json!({"case": case, "boundary": k, "outcome": o.label()}));
                continue;
            }
            images += 1;
            let deep = oi == 0 && boundaries % 16 == 0;
            let writable = oi < 2 && boundaries % 8 == 0;
            let replay = if in_flight { txn_ops.get(last_acked).map(|v| v.as_slice()) } else { None };
            match recover_and_check(&img, &hs, &commits, &allowed, future, deep, writable, replay) {
                Ok(ci) => {
                    *recovered_states.entry(ci).or_insert(0) += 1;
                    let nt = img.len() > 2;
                    if nt {
                        rep.nontrivial(format!(
                            "{}|{}|{}|{}",
                            last_kind.name(),
                            last_role,
                            tvmon::mondir::file_kind(&ev.path),
                            o.label()
                        ));
                    }
                }
                Err((sig, d)) => {
                    let model = if o.is_m1() { "M1" } else { "M2" };
                    let full = format!("{sig}[{model}]");
                    if first_violation_sigs.insert(full.clone()) {
                        rep.violation(
                            full,
                            json!({"case": case, "cfg": cfg.describe(), "boundary_seq": k,
                                   "after_op": ev.brief(), "outcome": o.label(), "pending_dirops": st.pending.len(),
                                   "detail": d, "allowed_last_acked_commit": last_acked, "commit_in_flight": in_flight,
                                   "history": ops.iter().map(|o| o.kind()).collect::<Vec<_>>()}),
                        );
                    }
                }
            }
        }
    }
    rep.evals(images);
    rep.count("histories", 1);
    rep.count("crash_boundaries", boundaries);
    rep.count("crash_images", images);
    rep.count("storage_ops_logged", log.len() as u64);
    for (ci, n) in recovered_states {
        rep.count("images_recovering_to_some_commit", n);
        let _ = ci;
    }
    if case < 2 {
        rep.sample(json!({"cfg": cfg.describe(), "history": ops.iter().map(|o| o.kind()).collect::<Vec<_>>(),
            "log_len": log.len(), "boundaries": boundaries, "images": images,
            "log_head": log.iter().skip(created_seq as usize).take(30).map(|e| e.brief()).collect::<Vec<_>>()}));
    }
    let _ = Arc::new(0);
}


// ---------------------------------------------------------------------------------------------
// E6: syscall-level twin on a real MmapDirectory

fn twin_history(seed: u64) -> (ExecCfg, Vec<Op>) {
    let mut rng = Rng::new(seed);
    let cfg = ExecCfg {
        threads: *rng.pick(&[1usize, 2]),
        merge_policy: rng.bool(),
        sort: None,
        budget_per_thread: 15_000_000,
    };
    let len = rng.urange(8, 22);
    let mut g = HistGen::new();
    let ops = g.history(&mut rng, &GenCfg::standard(len).no_cutters().no_delete_all());
    (cfg, ops)
}

fn twin_child(dir: &str, seed: u64) -> ! {
    use tvmon::systwin::*;
    let (cfg, ops) = twin_history(seed);
    let root = std::fs::canonicalize(dir).expect("dir");
    let inner = tantivy::directory::MmapDirectory::open(&root).expect("mmap dir");
    let tee = TeeDir { inner, root: root.clone(), log: Default::default() };
    let log = tee.log.clone();
    marker("begin", "create");
    let mut ex = Exec::create(Box::new(tee), cfg, None).expect("create");
    ex.marker = Some(std::sync::Arc::new(|w: &str, n: &str| marker(w, n)));
    marker("created", "x");
    for op in &ops {
        ex.step(op);
    }
    ex.drain_merges();
    if let Some(w) = ex.writer.take() {
        let _ = w.wait_merging_threads();
    }
    marker("end", "x");
    let commits: Vec<Vec<u64>> = ex.model.commits.iter().map(|c| c.keys().copied().collect()).collect();
    let side = sidecar_json(&log.lock().unwrap(), &commits);
    std::fs::write(format!("{dir}.sidecar.json"), serde_json::to_vec(&side).unwrap()).expect("sidecar");
    std::process::exit(0);
}

fn twin_case(case: u64, rng: &mut Rng, rep: &mut Report, thorough: bool) {
    use tvmon::systwin::*;
    let seed = rng.next_u64();
    let tmp = match tempfile::tempdir() {
        Ok(t) => t,
        Err(e) => {
            rep.harness_error(format!("tempdir: {e}"));
            return;
        }
    };
    let dir = tmp.path().join("idx");
    std::fs::create_dir_all(&dir).unwrap();
    let dir_s = dir.to_string_lossy().to_string();
    let trace_path = tmp.path().join("trace.txt");
    let exe = std::env::current_exe().expect("exe");
    let st = std::process::Command::new("strace")
        .args(["-f", "-y", "-s", "0", "-o"])
        .arg(&trace_path)
        .args(["-e", "trace=openat,open,creat,write,pwrite64,writev,fsync,fdatasync,rename,renameat,renameat2,unlink,unlinkat,statx,newfstatat,stat,lstat"])
        .arg(&exe)
        .args(["--mmap-child", &dir_s, "--cseed", &seed.to_string()])
        .stdout(std::process::Stdio::null())
        .stderr(std::process::Stdio::null())
        .status();
    match st {
        Ok(s) if s.success() => {}
        other => {
            rep.note(format!("strace twin not runnable: {other:?}"));
            rep.count("syscall_twin_unavailable", 1);
            return;
        }
    }
    let root = std::fs::canonicalize(&dir).unwrap().to_string_lossy().to_string();
    let text = std::fs::read_to_string(&trace_path).unwrap_or_default();
    let evs = parse_trace(&text, &root);
    let side: Value = match std::fs::read(format!("{dir_s}.sidecar.json")).ok().and_then(|b| serde_json::from_slice(&b).ok()) {
        Some(v) => v,
        None => {
            rep.harness_error("sidecar missing");
            return;
        }
    };
    // contents: final files on disk + graveyard; atomic payloads per target
    let mut files: BTreeMap<String, Arc<Vec<u8>>> = BTreeMap::new();
    if let Ok(rd) = std::fs::read_dir(&dir) {
        for e in rd.flatten() {
            if let Ok(b) = std::fs::read(e.path()) {
                files.insert(e.file_name().to_string_lossy().to_string(), Arc::new(b));
            }
        }
    }
    if let Some(g) = side["graveyard"].as_object() {
        for (k, v) in g {
            files.insert(k.clone(), Arc::new(unhex(v.as_str().unwrap_or(""))));
        }
    }
    let mut atomics: BTreeMap<String, Vec<Arc<Vec<u8>>>> = BTreeMap::new();
    if let Some(a) = side["atomics"].as_array() {
        for x in a {
            atomics
                .entry(x[0].as_str().unwrap_or("").to_string())
                .or_default()
                .push(Arc::new(unhex(x[1].as_str().unwrap_or(""))));
        }
    }
    let contents = Contents { files, atomics };
    let commits: Vec<std::collections::BTreeSet<u64>> = side["commits"]
        .as_array()
        .map(|a| a.iter().map(|c| c.as_array().map(|v| v.iter().filter_map(|x| x.as_u64()).collect()).unwrap_or_default()).collect())
        .unwrap_or_default();
    rep.eval();
    let n_fsync = evs.iter().filter(|e| matches!(e, Sys::SyncFile { .. })).count();
    let n_dsync = evs.iter().filter(|e| matches!(e, Sys::SyncDir)).count();
    let n_ren = evs.iter().filter(|e| matches!(e, Sys::Rename { .. })).count();
    let n_unl = evs.iter().filter(|e| matches!(e, Sys::Unlink { .. })).count();
    rep.count("syscall:file_fdatasync", n_fsync as u64);
    rep.count("syscall:dir_fdatasync", n_dsync as u64);
    rep.count("syscall:rename", n_ren as u64);
    rep.count("syscall:unlink", n_unl as u64);
    rep.count("syscall:events", evs.len() as u64);
    let mut st = SysState::new();
    let mut created = false;
    let mut acked = 0usize; // commits whose return marker was seen
    let mut in_flight = false;
    let mut prng = Rng::new(seed ^ 0x51);
    let mut images = 0u64;
    let mut seen_sigs = std::collections::BTreeSet::new();
    let n_mut = evs.iter().filter(|e| !matches!(e, Sys::Marker { .. })).count();
    let stride = if thorough { 1 } else { (n_mut / 250).max(1) };
    let mut idx = 0usize;
    for ev in &evs {
        if let Sys::Marker { what, note } = ev {
            match what.as_str() {
                "created" => created = true,
                "call:commit" | "call:prepare_commit" => in_flight = true,
                "ret:commit" => {
                    if note == "ok" {
                        acked += 1;
                    }
                    in_flight = false;
                }
                "ret:abort" | "ret:prepare_drop" => in_flight = false,
                _ => {}
            }
            continue;
        }
        if let Err(e) = st.apply(ev, &contents) {
            rep.harness_error(format!("twin case {case}: trace not interpretable: {e}"));
            return;
        }
        if !created {
            continue;
        }
        idx += 1;
        let important = matches!(ev, Sys::Rename { .. } | Sys::SyncDir | Sys::Unlink { .. } | Sys::SyncFile { .. });
        if idx % stride != 0 && !important {
            continue;
        }
        let p = st.pending_len();
        let mut masks: Vec<(Vec<bool>, &str)> = vec![(vec![false; p], "durable-only"), (vec![true; p], "all-applied")];
        for k in 1..p.min(6) {
            let mut m = vec![false; p];
            for x in m.iter_mut().take(k) {
                *x = true;
            }
            masks.push((m, "M1-prefix"));
        }
        if p > 1 {
            for _ in 0..2 {
                masks.push(((0..p).map(|_| prng.bool()).collect(), "M2-subset"));
            }
        }
        for (mask, label) in masks {
            for mode in [SContent::Synced, SContent::Full] {
                if mode == SContent::Full && st.unsynced_files() == 0 {
                    continue;
                }
                let img = st.image(&mask, mode, &mut prng);
                if !img.contains_key("meta.json") {
                    rep.violation(format!("syscall:recover:no-meta.json[{label}]"), json!({"case": case, "after": format!("{ev:?}")}));
                    continue;
                }
                images += 1;
                let idir = tmp.path().join(format!("img{images}"));
                std::fs::create_dir_all(&idir).unwrap();
                for (pth, b) in &img {
                    let _ = std::fs::write(idir.join(pth), b);
                }
                let res: Result<std::collections::BTreeSet<u64>, String> = (|| {
                    let idx = Index::open_in_dir(&idir).map_err(|e| format!("open: {e}"))?;
                    let bad = idx.validate_checksum().map_err(|e| format!("validate_checksum: {e}"))?;
                    if !bad.is_empty() {
                        return Err(format!("checksum mismatch: {bad:?}"));
                    }
                    let r = idx.reader().map_err(|e| format!("reader: {e}"))?;
                    live_ids(&r.searcher())
                })();
                let _ = std::fs::remove_dir_all(&idir);
                let model = if label == "M2-subset" { "M2" } else { "M1" };
                match res {
                    Err(e) => {
                        let kind = e.split(':').next().unwrap_or("?").to_string();
                        let sig = format!("syscall:recover:{kind}-failed[{model}]");
                        if seen_sigs.insert(sig.clone()) {
                            rep.violation(sig, json!({"case": case, "cseed": seed, "after": format!("{ev:?}"), "outcome": label, "content": format!("{mode:?}"), "err": e}));
                        }
                    }
                    Ok(ids) => {
                        let ok_last = commits.get(acked).map(|c| *c == ids).unwrap_or(false);
                        let ok_next = in_flight && commits.get(acked + 1).map(|c| *c == ids).unwrap_or(false);
                        if !(ok_last || ok_next) {
                            let older = commits[..acked.min(commits.len())].iter().any(|c| *c == ids);
                            let sig = format!(
                                "syscall:recover:{}[{model}]",
                                if older { "state-is-an-older-commit-than-the-last-acknowledged" } else { "state-matches-no-commit" }
                            );
                            if seen_sigs.insert(sig.clone()) {
                                rep.violation(sig, json!({"case": case, "cseed": seed, "after": format!("{ev:?}"), "outcome": label,
                                    "content": format!("{mode:?}"), "acked": acked, "in_flight": in_flight, "n_ids": ids.len()}));
                            }
                        } else {
                            let evk = format!("{ev:?}");
                            rep.nontrivial(format!("syscall|{}|{label}|{mode:?}", evk.split(' ').next().unwrap_or("")));
                        }
                    }
                }
            }
        }
    }
    rep.evals(images);
    rep.count("syscall_twin_histories", 1);
    rep.count("syscall_twin_images", images);
}

/// Forced schedule `tvmon::sched::stale_gc_window_schedule`: the old generation finishes its merge
/// while the successor's commit stands between the replacement of meta.json and the directory sync.
fn gc_window_case(case: u64, rng: &mut Rng, rep: &mut Report) {
    rep.eval();
    let out = tvmon::sched::stale_gc_window_schedule(rng);
    for c in &out.counters {
        rep.count(c, 1);
    }
    for (sig, d) in out.problems {
        rep.violation(format!("gc-window:{sig}"), json!({"case": case, "shape": out.shape, "detail": d}));
    }
    if out.forced {
        rep.nontrivial(format!("gc-window:{}", out.shape));
    }
}

fn main() {
    let argv: Vec<String> = std::env::args().collect();
    if let Some(i) = argv.iter().position(|a| a == "--mmap-child") {
        let dir = argv[i + 1].clone();
        let seed: u64 = argv.iter().position(|a| a == "--cseed").and_then(|j| argv.get(j + 1)).and_then(|s| s.parse().ok()).unwrap_or(1);
        twin_child(&dir, seed);
    }
    let ctx = Ctx::from_env("C01", "fault_enumeration");
    let thorough = !ctx.quick();
    let n = ctx.scale(24, 600) as u64;
    let mut rep = run_cases(&ctx, "crash", n, |c, rng, rep| case(c, rng, rep, thorough));
    let n_twin = ctx.scale(4, 48) as u64;
    rep.merge(run_cases(&ctx, "syscall", n_twin, |c, rng, rep| twin_case(c, rng, rep, thorough)));
    rep.merge(run_cases(&ctx, "gc-window", ctx.scale(40, 1500) as u64, gc_window_case));
    simple_finish(
        &ctx,
        rep,
        "case = one crash image = (boundary after a mutating storage op of a recorded history) x (persistence outcome: pending dir-ops none/all/M1 prefix/M2 subset; unsynced data lost/full/random prefix); evaluations counts images recovered with Index::open and compared with the allowed model commits (last acknowledged, or in flight), checksum-validated, and (every 8th boundary) continued with writer+commit+GC. Non-trivial = image holds at least one segment file; distinct = (op kind at boundary, thread role, file kind, outcome kind). Stream gc-window = forced schedule: writer dropped with its merge thread parked, the commit of the successor parked between the meta.json replacement and the directory sync, the old generation then finishes; the online monitor T3 (no unlink of a file the durable meta.json references) decides.",
        ctx.scale(40, 100),
        &[
            "durability model of DESIGN.md §3.1: data durable at terminate(), directory entries at the next sync_directory(); atomic_write content is synced before its rename",
            "boundaries are those of the executions produced (one linearisation per run)",
        ],
    );
}
