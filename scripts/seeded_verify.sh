#!/bin/bash
# Confirms a seeded change in a scratch worktree (never /repo): its demonstration fails WITH the
# change and passes WITHOUT it.  scripts/seeded_verify.sh <name-glob> [--suite]
# With --suite the pinned test suite is also run with the change applied.
glob=${1:-*}; suite=${2:-}
R=/tmp/mutv
mkdir -p $R
[ -d $R/repo ] || git -C /repo worktree add --detach $R/repo HEAD >/dev/null 2>&1
export CARGO_TARGET_DIR=$R/target CARGO_NET_OFFLINE=true
cd /verif
for d in seeded/$glob/; do
  name=$(basename $d); t=demo_$(echo $name | tr - _)
  ( cd $R/repo && git checkout -q --detach $(git -C /repo rev-parse HEAD) && git checkout -q -- . && git clean -fdq -e target )
  cp $d/demo.rs $R/repo/tests/$t.rs
  feat=""; grep -q "failpoints" $d/demo.rs && feat="--features failpoints"
  ( cd $R/repo && timeout 1800 cargo test --offline $feat --test $t >$R/without.log 2>&1 ); rc_without=$?
  ( cd $R/repo && git apply /verif/$d/patch.diff ) || { echo "$name: patch does not apply"; continue; }
  ( cd $R/repo && timeout 1800 cargo test --offline $feat --test $t >$R/with.log 2>&1 ); rc_with=$?
  res="demo without change: $([ $rc_without = 0 ] && echo passes || echo FAILS[$rc_without]); with change: $([ $rc_with != 0 ] && echo fails || echo PASSES)"
  if [ "$suite" = "--suite" ]; then
    ( cd $R/repo && rm tests/$t.rs && cargo nextest run --workspace --offline --no-fail-fast --test-threads 8 >$R/suite.log 2>&1 )
    res="$res; suite with change: $(grep -E 'Summary' $R/suite.log | sed -E 's/.*Summary \[[^]]*\] //')"
  fi
  echo "$name: $res"
  python3 - "$d/meta.json" "$res" <<'PY'
import json,sys
p=sys.argv[1]; m=json.load(open(p)); m['verified_by_verifier']=sys.argv[2]; json.dump(m,open(p,'w'),indent=1)
PY
done
