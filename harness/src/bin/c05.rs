//! C05 — searchers are immutable snapshots; readers only ever see whole commits.
use std::collections::BTreeSet;
use std::sync::atomic::{AtomicBool, AtomicU64, Ordering};
use std::sync::{Arc, Mutex, RwLock};
use std::time::Duration;

use serde_json::{json, Value};
use tantivy::directory::{MmapDirectory, RamDirectory};
use tantivy::{Directory, Index, IndexReader, ReloadPolicy, Searcher};
use tvmon::hist::*;
use tvmon::mondir::{MonCfg, MonDir, OpKind, OpPred};
use tvmon::report::*;
use tvmon::rng::Rng;

/// Warmer registered with every reader of the stress stream: a monitor of the searcher
/// generation mechanics (reader/warming.rs, core/searcher.rs SearcherGeneration).
#[derive(Default)]
struct WarmMon {
    /// generation ids `warm()` was called with
    warmed: Mutex<BTreeSet<u64>>,
    /// generation ids of the searchers the reader thread currently holds
    held: Mutex<BTreeSet<u64>>,
    problems: Mutex<Vec<(String, Value)>>,
    warm_calls: AtomicU64,
    gc_calls: AtomicU64,
}

impl tantivy::Warmer for WarmMon {
    fn warm(&self, searcher: &Searcher) -> tantivy::Result<()> {
        self.warm_calls.fetch_add(1, Ordering::Relaxed);
        let g = searcher.generation();
        // the generation describes exactly the segments of the searcher it belongs to
        let of_searcher: std::collections::BTreeMap<_, _> =
            searcher.segment_readers().iter().map(|sr| (sr.segment_id(), sr.delete_opstamp())).collect();
        if &of_searcher != g.segments() {
            self.problems.lock().unwrap().push((
                "warmer:generation-segments-differ-from-the-searcher".into(),
                json!({"generation": g.generation_id(), "searcher": format!("{of_searcher:?}"), "generation_segments": format!("{:?}", g.segments())}),
            ));
        }
        if !self.warmed.lock().unwrap().insert(g.generation_id()) {
            self.problems.lock().unwrap().push(("warmer:generation-warmed-twice".into(), json!({"generation": g.generation_id()})));
        }
        Ok(())
    }

    fn garbage_collect(&self, live_generations: &[&tantivy::SearcherGeneration]) {
        self.gc_calls.fetch_add(1, Ordering::Relaxed);
        let live: BTreeSet<u64> = live_generations.iter().map(|g| g.generation_id()).collect();
        // a searcher that is still held is a live generation: state kept for it must not be
        // discarded (the held set only ever names searchers obtained before this call started:
        // the call runs under the warming lock, a generation is tracked before it is warmed
        // under that lock and published after)
        let held = self.held.lock().unwrap().clone();
        let missing: Vec<&u64> = held.difference(&live).collect();
        if !missing.is_empty() {
            self.problems.lock().unwrap().push((
                "warmer:gc-does-not-list-the-generation-of-a-held-searcher".into(),
                json!({"held_not_live": missing, "live": live}),
            ));
        }
    }
}

#[derive(Clone)]
struct Obs {
    reader: usize,
    ids: BTreeSet<u64>,
    /// commits completed before reload() was called
    done_before: u64,
    /// commits started before searcher() returned
    started_after: u64,
}

struct Held {
    searcher: Searcher,
    ids: BTreeSet<u64>,
}

fn match_commits(commits: &[DocSetState], ids: &BTreeSet<u64>) -> Vec<usize> {
    commits
        .iter()
        .enumerate()
        .filter(|(_, c)| c.len() == ids.len() && c.keys().all(|k| ids.contains(k)))
        .map(|(i, _)| i)
        .collect()
}

fn marker(g: &mut HistGen) -> MDoc {
    let id = g.next_id;
    g.next_id += 1;
    // never hit by generated deletes: group outside the generated range, no words, no value
    MDoc { id, grp: 1_000, val: None, body: vec![], tag: 3, pad: 0 }
}

fn gen_ops(rng: &mut Rng, g: &mut HistGen, n_commits: usize) -> Vec<Op> {
    let mut ops = vec![];
    for _ in 0..n_commits {
        for _ in 0..rng.urange(0, 5) {
            match rng.below(10) {
                0..=5 => ops.push(Op::Add(g.doc(rng, 3))),
                6 => ops.push(Op::DeleteTerm(Pred::Grp(rng.below(3)))),
                7 => ops.push(Op::DeleteQuery(Pred::Word(rng.below(8) as u8))),
                8 => {
                    if rng.chance(1, 3) {
                        ops.push(Op::Rollback)
                    } else {
                        ops.push(Op::Gc)
                    }
                }
                _ => ops.push(Op::Merge { pick: rng.next_u64(), n: rng.urange(2, 4), wait: rng.bool() }),
            }
        }
        ops.push(Op::Add(marker(g)));
        ops.push(Op::Commit);
    }
    ops
}

#[derive(Clone, Copy, Debug, PartialEq)]
enum DirKind {
    Mon,
    Ram,
    Mmap,
}

fn stress_case(case: u64, rng: &mut Rng, rep: &mut Report) {
    let dk = *rng.pick(&[DirKind::Mon, DirKind::Mon, DirKind::Ram, DirKind::Mmap]);
    let cfg = ExecCfg {
        threads: *rng.pick(&[1usize, 2]),
        merge_policy: rng.bool(),
        sort: None,
        budget_per_thread: 15_000_000,
    };
    let tmp = if dk == DirKind::Mmap { tempfile::tempdir().ok() } else { None };
    let mon = MonDir::new(MonCfg {
        monitors: true,
        noise_permille: if rng.bool() { 40 } else { 0 },
        noise_seed: rng.next_u64(),
        ..Default::default()
    });
    let dir: Box<dyn Directory> = match dk {
        DirKind::Mon => Box::new(mon.clone()),
        DirKind::Ram => Box::new(RamDirectory::create()),
        DirKind::Mmap => match MmapDirectory::open(tmp.as_ref().unwrap().path()) {
            Ok(d) => Box::new(d),
            Err(e) => {
                rep.harness_error(format!("mmap dir: {e}"));
                return;
            }
        },
    };
    let dir2 = dir.box_clone();
    let mut ex = match Exec::create(dir, cfg.clone(), if dk == DirKind::Mon { Some(mon.clone()) } else { None }) {
        Ok(e) => e,
        Err(e) => {
            rep.violation("api-error:create", json!(e));
            return;
        }
    };
    rep.eval();
    let hs = ex.hs.clone();
    let mut g = HistGen::new();
    let n_commits = rng.urange(5, 25);
    let ops = gen_ops(rng, &mut g, n_commits);
    let started = Arc::new(AtomicU64::new(0));
    let done = Arc::new(AtomicU64::new(0));
    let stop = Arc::new(AtomicBool::new(false));
    let observations: Arc<Mutex<Vec<Obs>>> = Arc::new(Mutex::new(vec![]));
    let errors: Arc<Mutex<Vec<(String, Value)>>> = Arc::new(Mutex::new(vec![]));
    // committed states published by the writer for holders to compare against
    let states: Arc<RwLock<Vec<DocSetState>>> = Arc::new(RwLock::new(vec![DocSetState::new()]));
    let n_readers = rng.urange(1, 4);
    let recheck_count = Arc::new(AtomicU64::new(0));
    let warm_stats = Arc::new((AtomicU64::new(0), AtomicU64::new(0), AtomicU64::new(0)));
    let held_total = Arc::new(AtomicU64::new(0));
    let overlap = Arc::new(AtomicU64::new(0));
    let index_main = ex.index.clone();
    let seeds: Vec<u64> = (0..n_readers).map(|_| rng.next_u64()).collect();
    std::thread::scope(|s| {
        for r in 0..n_readers {
            let (started, done, stop) = (started.clone(), done.clone(), stop.clone());
            let observations = observations.clone();
            let errors = errors.clone();
            let states = states.clone();
            let hs = hs.clone();
            let recheck_count = recheck_count.clone();
            let warm_stats = warm_stats.clone();
            let held_total = held_total.clone();
            let overlap = overlap.clone();
            let index_main = index_main.clone();
            let dir2 = dir2.box_clone();
            let seed = seeds[r];
            std::thread::Builder::new()
                .name(format!("tvmon-reader-{r}"))
                .spawn_scoped(s, move || {
                    let mut rr = Rng::new(seed);
                    // reader flavours: same Index, second Index on the same directory, auto-reload
                    let flavour = r % 3;
                    let index = if flavour == 1 {
                        match Index::open(dir2) {
                            Ok(i) => i,
                            Err(e) => {
                                errors.lock().unwrap().push(("reader:second-index-open-failed".into(), json!(e.to_string())));
                                return;
                            }
                        }
                    } else {
                        index_main
                    };
                    let manual = flavour != 2;
                    let policy = if manual { ReloadPolicy::Manual } else { ReloadPolicy::OnCommitWithDelay };
                    let wm = Arc::new(WarmMon::default());
                    let wm_dyn: Arc<dyn tantivy::Warmer> = wm.clone();
                    let reader: IndexReader = match index
                        .reader_builder()
                        .reload_policy(policy)
                        .warmers(vec![Arc::downgrade(&wm_dyn)])
                        .num_warming_threads(1 + r % 2)
                        .try_into()
                    {
                        Ok(r) => r,
                        Err(e) => {
                            errors.lock().unwrap().push(("reader:create-failed".into(), json!(e.to_string())));
                            return;
                        }
                    };
                    let mut last_generation = 0u64;
                    let mut held: Vec<Held> = vec![];
                    let recheck = |h: &Held, when: &str| {
                        // the held searcher must still show exactly the state it showed at capture
                        let st = states.read().unwrap();
                        let m = match_commits(&st, &h.ids);
                        drop(st);
                        match live_ids(&h.searcher) {
                            Err(e) => errors.lock().unwrap().push(("held:dump-failed".into(), json!({"when": when, "err": e}))),
                            Ok(now) => {
                                if now != h.ids {
                                    errors.lock().unwrap().push((
                                        "held:searcher-content-changed".into(),
                                        json!({"when": when, "before": h.ids.len(), "now": now.len()}),
                                    ));
                                }
                            }
                        }
                        if let Some(&ci) = m.first() {
                            let st = states.read().unwrap();
                            let errs = compare_searcher(&h.searcher, &hs, &st[ci], true);
                            drop(st);
                            for (sig, d) in errs {
                                errors.lock().unwrap().push((format!("held:{sig}"), json!({"when": when, "detail": d})));
                            }
                        }
                        recheck_count.fetch_add(1, Ordering::Relaxed);
                    };
                    let mut iters = 0u64;
                    while !stop.load(Ordering::Acquire) || iters == 0 {
                        iters += 1;
                        let d0 = done.load(Ordering::SeqCst);
                        let s0 = started.load(Ordering::SeqCst);
                        if manual || rr.chance(1, 4) {
                            if let Err(e) = reader.reload() {
                                errors.lock().unwrap().push(("reader:reload-failed".into(), json!({"reader": r, "err": e.to_string()})));
                                continue;
                            }
                        }
                        let searcher = reader.searcher();
                        {
                            // generation mechanics: every published searcher was warmed first,
                            // and the generations a reader hands out never go backwards
                            let gen = searcher.generation().generation_id();
                            warm_stats.2.fetch_add(1, Ordering::Relaxed);
                            if !wm.warmed.lock().unwrap().contains(&gen) {
                                errors.lock().unwrap().push(("warmer:searcher-published-before-it-was-warmed".into(), json!({"reader": r, "generation": gen})));
                            }
                            if gen < last_generation {
                                errors.lock().unwrap().push(("warmer:generation-went-backwards".into(), json!({"reader": r, "generation": gen, "before": last_generation})));
                            }
                            last_generation = gen;
                        }
                        let s1 = started.load(Ordering::SeqCst);
                        if s1 > d0 || s0 > d0 {
                            overlap.fetch_add(1, Ordering::Relaxed);
                        }
                        match live_ids(&searcher) {
                            Err(e) => errors.lock().unwrap().push(("reader:dump-failed".into(), json!({"reader": r, "err": e}))),
                            Ok(ids) => {
                                observations.lock().unwrap().push(Obs {
                                    reader: r,
                                    ids: ids.clone(),
                                    done_before: if manual { d0 } else { 0 },
                                    started_after: s1,
                                });
                                if rr.chance(1, 3) && held.len() < 12 {
                                    wm.held.lock().unwrap().insert(searcher.generation().generation_id());
                                    held.push(Held { searcher, ids });
                                    held_total.fetch_add(1, Ordering::Relaxed);
                                }
                            }
                        }
                        if !held.is_empty() && rr.chance(1, 3) {
                            let i = rr.usize_below(held.len());
                            recheck(&held[i], "during-run");
                        }
                        if rr.chance(1, 2) {
                            std::thread::yield_now();
                        } else {
                            std::thread::sleep(Duration::from_micros(rr.range(10, 300)));
                        }
                    }
                    // the writer is gone by now (stop is set after the writer was dropped and
                    // a last GC ran): every held searcher must still be intact
                    for h in &held {
                        recheck(h, "after-writer-drop");
                    }
                    errors.lock().unwrap().extend(wm.problems.lock().unwrap().drain(..));
                    warm_stats.0.fetch_add(wm.warm_calls.load(Ordering::Relaxed), Ordering::Relaxed);
                    warm_stats.1.fetch_add(wm.gc_calls.load(Ordering::Relaxed), Ordering::Relaxed);
                    drop(wm_dyn);
                })
                .expect("spawn reader");
        }
        // writer (this thread)
        for op in &ops {
            let is_commit = matches!(op, Op::Commit);
            if is_commit {
                // the state this commit will publish must be known to holders before any reader
                // can see it
                let next = ex.model.would_commit();
                states.write().unwrap().push(next);
                started.fetch_add(1, Ordering::SeqCst);
            }
            let out = ex.step(op);
            if is_commit {
                if out.ok {
                    done.fetch_add(1, Ordering::SeqCst);
                } else {
                    errors.lock().unwrap().push(("writer:commit-failed".into(), json!(out.err)));
                    break;
                }
            }
        }
        ex.drain_merges();
        // final GC, then the writer shuts down while searchers are still held
        if let Some(w) = ex.writer.as_ref() {
            let _ = w.garbage_collect_files().wait();
        }
        if let Some(w) = ex.writer.take() {
            let _ = w.wait_merging_threads();
        }
        std::thread::sleep(Duration::from_millis(2));
        stop.store(true, Ordering::Release);
    });
    // offline check of the observation log
    let commits = ex.model.commits.clone();
    let obs = observations.lock().unwrap().clone();
    let mut last_idx = vec![0usize; n_readers];
    let mut distinct_seen: BTreeSet<usize> = BTreeSet::new();
    for o in &obs {
        let m = match_commits(&commits, &o.ids);
        if m.is_empty() {
            let st = states.read().unwrap();
            let pending_like = match_commits(&st, &o.ids);
            rep.violation(
                "reader:observed-state-matches-no-commit",
                json!({"case": case, "dir": format!("{dk:?}"), "reader": o.reader, "n_ids": o.ids.len(),
                       "ids": o.ids.iter().take(20).collect::<Vec<_>>(), "matches_started_commit": pending_like}),
            );
            continue;
        }
        // not newer than what had been started
        let lo = *m.first().unwrap();
        if lo as u64 > o.started_after {
            rep.violation(
                "reader:saw-a-commit-before-it-was-started",
                json!({"case": case, "reader": o.reader, "commit_index": lo, "commits_started": o.started_after}),
            );
        }
        // not older than what had completed before the reload began
        let hi = *m.last().unwrap();
        if (hi as u64) < o.done_before {
            rep.violation(
                "reader:reload-after-commit-returned-shows-older-commit",
                json!({"case": case, "dir": format!("{dk:?}"), "reader": o.reader, "commit_index": hi, "commits_done_before_reload": o.done_before}),
            );
        }
        // monotone per reader
        let prev = last_idx[o.reader];
        match m.iter().find(|&&i| i >= prev) {
            Some(&i) => {
                last_idx[o.reader] = i;
                distinct_seen.insert(i);
            }
            None => rep.violation(
                "reader:successive-reloads-moved-back",
                json!({"case": case, "reader": o.reader, "previous_commit": prev, "now": hi}),
            ),
        }
    }
    for (sig, d) in errors.lock().unwrap().drain(..) {
        rep.violation(sig, json!({"case": case, "dir": format!("{dk:?}"), "detail": d}));
    }
    for (sig, d) in ex.problems.drain(..) {
        if !is_known("C02", &sig) {
            rep.violation(format!("live:{sig}"), json!({"case": case, "detail": d}));
        }
    }
    if dk == DirKind::Mon {
        for v in mon.take_violations() {
            rep.violation(v.sig, json!({"case": case, "detail": v.detail}));
        }
        for r in mon.read_after_gc_events() {
            rep.count(&format!("open_of_deleted_path_by:{r}"), 1);
            if r.starts_with("reader:") {
                rep.violation(format!("read-after-gc:{r}"), json!({"case": case}));
            }
        }
        let (.., ml, _, _) = mon.counters();
        rep.count("meta_lock_acquisitions", ml);
    }
    rep.count("reader_observations", obs.len() as u64);
    rep.count("held_searchers", held_total.load(Ordering::Relaxed));
    rep.count("held_searcher_rechecks", recheck_count.load(Ordering::Relaxed));
    rep.count("warmer_warm_calls", warm_stats.0.load(Ordering::Relaxed));
    rep.count("warmer_gc_calls", warm_stats.1.load(Ordering::Relaxed));
    rep.count("warmer_searchers_checked_against_warmed_set", warm_stats.2.load(Ordering::Relaxed));
    rep.count("observations_overlapping_a_commit", overlap.load(Ordering::Relaxed));
    rep.count(&format!("dir:{dk:?}"), 1);
    if overlap.load(Ordering::Relaxed) > 0 && distinct_seen.len() >= 2 {
        rep.nontrivial(format!(
            "stress:{dk:?}:r{n_readers}:{}:seen{}",
            cfg.describe(),
            distinct_seen.len().min(6)
        ));
    }
    if case < 2 {
        rep.sample(json!({"dir": format!("{dk:?}"), "cfg": cfg.describe(), "commits": n_commits, "readers": n_readers,
            "observations": obs.len(), "distinct_commits_seen": distinct_seen.len(),
            "ops": ops.iter().take(30).map(|o| o.kind()).collect::<Vec<_>>()}));
    }
}

/// Forced schedule: a loading reader is parked between reading meta.json and opening its k-th
/// segment file while the writer commits, merges and collects garbage.
fn forced_case(case: u64, rng: &mut Rng, rep: &mut Report) {
    let cfg = ExecCfg { threads: 1, merge_policy: false, sort: None, budget_per_thread: 15_000_000 };
    let mon = MonDir::new(MonCfg { monitors: true, ..Default::default() });
    mon.set_lock_timeout(Duration::from_millis(150));
    let mut ex = match Exec::create(Box::new(mon.clone()), cfg, Some(mon.clone())) {
        Ok(e) => e,
        Err(e) => {
            rep.violation("api-error:create", json!(e));
            return;
        }
    };
    rep.eval();
    let hs = ex.hs.clone();
    let mut g = HistGen::new();
    let nseg = rng.urange(2, 4);
    for _ in 0..nseg {
        for _ in 0..rng.urange(1, 5) {
            ex.step(&Op::Add(g.doc(rng, 3)));
        }
        ex.step(&Op::Add(marker(&mut g)));
        ex.step(&Op::Commit);
    }
    let second_index = rng.bool();
    // the reader opens ~7 files per segment; park it at a random one
    // ... or right before it takes the meta lock, or right before it reads meta.json
    let gate_kind = rng.below(6);
    let nth = rng.below((nseg * 7) as u64);
    let gate = match gate_kind {
        4 => mon.add_gate(OpPred::kind(OpKind::LockAcquire).role("reader").path(".tantivy-meta.lock"), 0),
        5 => mon.add_gate(OpPred::kind(OpKind::AtomicRead).role("reader").path("meta.json"), 0),
        _ => mon.add_gate(OpPred::kind(OpKind::OpenRead).role("reader"), nth),
    };
    let index = ex.index.clone();
    let mon2 = mon.clone();
    let result: Arc<Mutex<Option<Result<BTreeSet<u64>, String>>>> = Arc::new(Mutex::new(None));
    let res2 = result.clone();
    let commits_before = ex.model.commits.len();
    let h = std::thread::Builder::new()
        .name("tvmon-reader-forced".into())
        .spawn(move || {
            let r: Result<BTreeSet<u64>, String> = (|| {
                let idx = if second_index {
                    Index::open(mon2).map_err(|e| format!("open: {e}"))?
                } else {
                    index
                };
                let reader: IndexReader = idx
                    .reader_builder()
                    .reload_policy(ReloadPolicy::Manual)
                    .try_into()
                    .map_err(|e| format!("reader: {e}"))?;
                reader.reload().map_err(|e| format!("reload: {e}"))?;
                live_ids(&reader.searcher())
            })();
            *res2.lock().unwrap() = Some(r);
        })
        .expect("spawn");
    let parked = mon.wait_parked(gate, Duration::from_secs(5));
    let mut gc_blocked = 0u64;
    if parked {
        let busy_before = mon.log().iter().filter(|e| e.kind == OpKind::LockAcquire && !e.ok).count();
        // the writer moves on: delete + commit, merge everything, explicit GC
        ex.step(&Op::DeleteTerm(Pred::Grp(rng.below(3))));
        ex.step(&Op::Add(marker(&mut g)));
        ex.step(&Op::Commit);
        ex.step(&Op::Merge { pick: rng.next_u64(), n: 4, wait: true });
        let _ = ex.writer.as_ref().unwrap().garbage_collect_files().wait();
        let busy_after = mon.log().iter().filter(|e| e.kind == OpKind::LockAcquire && !e.ok).count();
        gc_blocked = (busy_after - busy_before) as u64;
    }
    mon.release_gate(gate);
    let _ = h.join();
    mon.release_all_gates();
    rep.count(if parked { "forced_reader_parked" } else { "forced_reader_gate_not_reached" }, 1);
    rep.count("gc_attempts_excluded_by_meta_lock_while_reader_parked", gc_blocked);
    let commits = ex.model.commits.clone();
    match result.lock().unwrap().take() {
        None => rep.harness_error("forced reader produced no result"),
        Some(Err(e)) => rep.violation(
            "forced:reload-failed-while-writer-commits-merges-gcs",
            json!({"case": case, "parked_at": mon.gate_parked_at(gate).map(|p| p.2), "second_index": second_index, "err": e}),
        ),
        Some(Ok(ids)) => {
            let m = match_commits(&commits, &ids);
            if m.is_empty() {
                rep.violation(
                    "forced:loaded-state-matches-no-commit",
                    json!({"case": case, "ids": ids.iter().take(20).collect::<Vec<_>>()}),
                );
            } else if *m.last().unwrap() + 1 < commits_before {
                rep.violation(
                    "forced:loaded-commit-older-than-commits-completed-before-the-reload",
                    json!({"case": case, "commit": m, "completed_before": commits_before - 1}),
                );
            }
        }
    }
    // afterwards a fresh reload must give the last commit, and everything is consistent
    for (sig, d) in ex.check_committed(true) {
        rep.violation(format!("forced:{sig}"), json!({"case": case, "detail": d}));
    }
    for v in mon.take_violations() {
        rep.violation(format!("forced:{}", v.sig), json!({"case": case, "detail": v.detail}));
    }
    for r in mon.read_after_gc_events() {
        if r.starts_with("reader:") {
            rep.violation(format!("forced:read-after-gc:{r}"), json!({"case": case}));
        }
    }
    let _ = hs;
    if parked {
        rep.nontrivial(format!(
            "forced:{}:{}:{}",
            if second_index { "second-index" } else { "same-index" },
            match gate_kind { 4 => "before-meta-lock".to_string(), 5 => "before-reading-meta.json".to_string(), _ => format!("open#{}", nth.min(20)) },
            if gc_blocked > 0 { "gc-excluded" } else { "gc-ran" }
        ));
    }
}

/// The end of a merge started by a writer that was rolled back in the meantime is processed by
/// the old (killed) segment updater AFTER the replacement writer has committed: nothing the old
/// updater still does may replace the newer commit - successive reloads never move back.
fn stale_updater_case(case: u64, rng: &mut Rng, rep: &mut Report) {
    if rng.chance(1, 4) {
        // the shared schedule with the old updater parked INSIDE its save_metas (after the
        // is_alive check): a fresh reader must show the successor's commit afterwards
        rep.eval();
        let out = tvmon::sched::stale_merge_schedule_mode(rng, 2);
        for c in &out.counters {
            rep.count(c, 1);
        }
        for (sig, d) in out.problems {
            rep.violation(format!("stale-updater:{sig}"), json!({"case": case, "shape": out.shape, "detail": d}));
        }
        if out.forced {
            rep.nontrivial(format!("stale-updater:{}", out.shape));
        }
        return;
    }
    let cfg = ExecCfg { threads: 1, merge_policy: false, sort: None, budget_per_thread: 15_000_000 };
    let mon = MonDir::new(MonCfg { monitors: true, ..Default::default() });
    let mut ex = match Exec::create(Box::new(mon.clone()), cfg, Some(mon.clone())) {
        Ok(e) => e,
        Err(e) => {
            rep.violation("api-error:create", json!(e));
            return;
        }
    };
    rep.eval();
    let mut g = HistGen::new();
    let nseg = rng.urange(2, 4);
    for _ in 0..nseg {
        for _ in 0..rng.urange(2, 6) {
            ex.step(&Op::Add(g.doc(rng, 2)));
        }
        ex.step(&Op::Add(marker(&mut g)));
        ex.step(&Op::Commit);
    }
    let second_index = rng.bool();
    let idx = if second_index {
        match Index::open(mon.clone()) {
            Ok(i) => i,
            Err(e) => {
                rep.violation("stale-updater:open-failed", json!(e.to_string()));
                return;
            }
        }
    } else {
        ex.index.clone()
    };
    let reader: IndexReader = match idx.reader_builder().reload_policy(ReloadPolicy::Manual).try_into() {
        Ok(r) => r,
        Err(e) => {
            rep.violation("stale-updater:reader-failed", json!(e.to_string()));
            return;
        }
    };
    let ids = ex.index.searchable_segment_ids().unwrap_or_default();
    if ids.len() < 2 {
        return;
    }
    let gate1 = mon.add_gate(OpPred::kind(OpKind::OpenWrite).role("merge"), rng.below(4));
    let fut = ex.writer.as_mut().unwrap().merge(&ids);
    if !mon.wait_parked(gate1, Duration::from_secs(5)) {
        mon.release_all_gates();
        let _ = fut.wait();
        rep.count("stale_updater:merge_gate_not_reached", 1);
        return;
    }
    // variant "dropped": the writer is dropped (not rolled back) while the merge thread is still
    // parked; the merge only ends after the successor has committed
    let dropped = rng.chance(1, 3);
    // deletes committed while the merge runs: end_merge will have a .del file to write for the
    // merged segment, which is where the old updater is parked
    if !dropped || rng.bool() {
        ex.step(&Op::DeleteTerm(Pred::Grp(0)));
        if rng.bool() {
            ex.step(&Op::DeleteTerm(Pred::Grp(1)));
        }
        ex.step(&Op::Add(marker(&mut g)));
        ex.step(&Op::Commit);
    }
    let (gate2, parked2) = if dropped {
        (gate1, true)
    } else {
        let gate2 = mon.add_gate(OpPred::kind(OpKind::OpenWrite).role("updater").fkind("del"), 0);
        mon.release_gate(gate1);
        let parked2 = mon.wait_parked(gate2, Duration::from_secs(5));
        (gate2, parked2)
    };
    rep.count(
        if dropped {
            "stale_updater:merge_thread_parked_across_writer_drop"
        } else if parked2 {
            "stale_updater:old_updater_parked_in_end_merge"
        } else {
            "stale_updater:end_merge_wrote_no_del"
        },
        1,
    );
    // the writer is replaced and the replacement commits
    for _ in 0..rng.urange(0, 2) {
        ex.step(&Op::Add(g.doc(rng, 2)));
    }
    ex.step(&if dropped { Op::Reopen { wait_merges: false } } else { Op::Rollback });
    for _ in 0..rng.urange(0, 3) {
        ex.step(&Op::Add(g.doc(rng, 2)));
    }
    ex.step(&Op::Add(marker(&mut g)));
    ex.step(&Op::Commit);
    let commits = ex.model.commits.clone();
    let last = commits.len() - 1;
    let observe = |when: &str, rep: &mut Report| -> bool {
        if let Err(e) = reader.reload() {
            rep.violation(format!("stale-updater:reload-failed:{when}"), json!({"case": case, "err": e.to_string()}));
            return false;
        }
        match live_ids(&reader.searcher()) {
            Err(e) => {
                rep.violation(format!("stale-updater:search-failed:{when}"), json!({"case": case, "err": e}));
                false
            }
            Ok(ids) => {
                let m = match_commits(&commits, &ids);
                if m.is_empty() {
                    rep.violation(
                        format!("stale-updater:observed-state-matches-no-commit:{when}"),
                        json!({"case": case, "ids": ids.iter().take(20).collect::<Vec<_>>()}),
                    );
                    false
                } else if *m.last().unwrap() != last {
                    rep.violation(
                        format!("stale-updater:reload-moved-back-to-an-older-commit:{when}"),
                        json!({"case": case, "observed_commit": m, "last_commit": last, "second_index": second_index}),
                    );
                    false
                } else {
                    true
                }
            }
        }
    };
    let ok1 = observe("after-the-new-commit", rep);
    mon.release_gate(gate2);
    mon.release_all_gates();
    let outcome = match fut.wait() {
        Ok(_) => "published",
        Err(_) => "discarded",
    };
    rep.count(&format!("stale_updater:old_merge_{outcome}"), 1);
    let ok2 = ok1 && observe("after-the-old-updater-finished", rep);
    if ok2 {
        for (sig, d) in ex.check_committed(true) {
            rep.violation(format!("stale-updater:{sig}"), json!({"case": case, "detail": d}));
        }
    }
    for (sig, d) in ex.problems.drain(..) {
        if !is_known("C02", &sig) {
            rep.violation(format!("stale-updater:live:{sig}"), json!({"case": case, "detail": d}));
        }
    }
    for v in mon.take_violations() {
        rep.violation(format!("stale-updater:{}", v.sig), json!({"case": case, "detail": v.detail}));
    }
    if parked2 {
        rep.nontrivial(format!(
            "stale-updater:{}:nseg={nseg}:{}:{outcome}",
            if dropped { "writer-dropped" } else { "rolled-back" },
            if second_index { "second-index" } else { "same-index" }
        ));
    }
}

/// Two reloads of ONE reader overlap: the first has read meta.json at commit N and is parked at
/// one of its file opens, commit N+1 completes, a second reload starts (and, where reloads are
/// serialised, waits), the first resumes. Once both have returned the reader must show N+1 - the
/// slower reload must not put the older searcher back.
fn overlapping_reload_case(case: u64, rng: &mut Rng, rep: &mut Report) {
    let cfg = ExecCfg { threads: 1, merge_policy: false, sort: None, budget_per_thread: 15_000_000 };
    let mon = MonDir::new(MonCfg { monitors: true, ..Default::default() });
    let mut ex = match Exec::create(Box::new(mon.clone()), cfg, Some(mon.clone())) {
        Ok(e) => e,
        Err(e) => {
            rep.violation("api-error:create", json!(e));
            return;
        }
    };
    rep.eval();
    let mut g = HistGen::new();
    let nseg = rng.urange(1, 3);
    for _ in 0..nseg {
        for _ in 0..rng.urange(1, 5) {
            ex.step(&Op::Add(g.doc(rng, 3)));
        }
        ex.step(&Op::Add(marker(&mut g)));
        ex.step(&Op::Commit);
    }
    let reader: IndexReader = match ex.index.reader_builder().reload_policy(ReloadPolicy::Manual).try_into() {
        Ok(r) => r,
        Err(e) => {
            rep.violation("overlap:reader-failed", json!(e.to_string()));
            return;
        }
    };
    // one more commit so that the first reload has something new to load
    ex.step(&Op::Add(marker(&mut g)));
    ex.step(&Op::Commit);
    let gate_kind = rng.below(3);
    // a reload only opens the files of segments it does not hold yet
    let nth = rng.below(6);
    // either inside the loading of the segments (the meta lock is held: a second reload cannot
    // even start loading), or right after the meta lock has been released, before the swap
    let gate = if gate_kind == 0 {
        mon.add_gate(OpPred::kind(OpKind::LockRelease).role("reader").path(".tantivy-meta.lock"), 0)
    } else {
        mon.add_gate(OpPred::kind(OpKind::OpenRead).role("reader"), nth)
    };
    let spawn_reload = |name: &str, reader: IndexReader| {
        std::thread::Builder::new()
            .name(name.to_string())
            .spawn(move || reader.reload().map_err(|e| e.to_string()))
            .expect("spawn")
    };
    let first = spawn_reload("tvmon-reader-first", reader.clone());
    let parked = mon.wait_parked(gate, Duration::from_secs(5));
    let mut second = None;
    if parked {
        ex.step(&Op::DeleteTerm(Pred::Grp(rng.below(3))));
        ex.step(&Op::Add(marker(&mut g)));
        ex.step(&Op::Commit);
        let h = spawn_reload("tvmon-reader-second", reader.clone());
        // give it the time to finish where reloads are not serialised
        let t0 = std::time::Instant::now();
        while !h.is_finished() && t0.elapsed() < Duration::from_millis(300) {
            std::thread::sleep(Duration::from_millis(2));
        }
        rep.count(if h.is_finished() { "overlap:second_reload_finished_first" } else { "overlap:second_reload_waited_for_the_first" }, 1);
        second = Some(h);
    }
    mon.release_gate(gate);
    mon.release_all_gates();
    let mut errs: Vec<(String, Value)> = vec![];
    for (name, h) in [("first", Some(first)), ("second", second)] {
        if let Some(h) = h {
            match h.join() {
                Ok(Ok(())) => {}
                Ok(Err(e)) => errs.push((format!("overlap:{name}-reload-failed"), json!(e))),
                Err(_) => errs.push((format!("overlap:{name}-reload-panicked"), json!(null))),
            }
        }
    }
    rep.count(if parked { "overlap:first_reload_parked" } else { "overlap:gate_not_reached" }, 1);
    let commits = ex.model.commits.clone();
    let last = commits.len() - 1;
    if errs.is_empty() {
        match live_ids(&reader.searcher()) {
            Err(e) => errs.push(("overlap:search-failed".into(), json!(e))),
            Ok(ids) => {
                let m = match_commits(&commits, &ids);
                if m.is_empty() {
                    errs.push(("overlap:observed-state-matches-no-commit".into(), json!(ids.iter().take(20).collect::<Vec<_>>())));
                } else if parked && *m.last().unwrap() != last {
                    errs.push((
                        "overlap:reader-shows-an-older-commit-after-both-reloads-returned".into(),
                        json!({"observed_commit": m, "last_commit": last, "gate": if gate_kind == 0 { "after-meta-lock-release".to_string() } else { format!("open#{nth}") }}),
                    ));
                }
            }
        }
    }
    for v in mon.take_violations() {
        errs.push((format!("overlap:{}", v.sig), v.detail));
    }
    for (sig, d) in errs {
        rep.violation(sig, json!({"case": case, "detail": d}));
    }
    if parked {
        rep.nontrivial(format!("overlap:nseg={nseg}:{}", if gate_kind == 0 { "after-meta-lock-release".to_string() } else { format!("open#{nth}") }));
    }
}

fn main() {
    let ctx = Ctx::from_env("C05", "exploration");
    let mut rep = run_cases(&ctx, "stress", ctx.scale(80, 3000) as u64, stress_case);
    rep.merge(run_cases(&ctx, "forced", ctx.scale(80, 4000) as u64, forced_case));
    rep.merge(run_cases(&ctx, "stale-updater", ctx.scale(40, 2000) as u64, stale_updater_case));
    rep.merge(run_cases(&ctx, "overlap", ctx.scale(40, 2000) as u64, overlapping_reload_case));
    simple_finish(
        &ctx,
        rep,
        "case = (a) one stress run: a writer producing 5-25 commits (each adding a marker document so every commit is a distinct id set) with deletes, merges, GC, rollbacks and final shutdown, while 1-3 reader threads (same Index, second Index on the same directory, OnCommitWithDelay) reload and observe, and hold searchers that are re-fingerprinted during the run and after the writer is gone; every observation must equal one committed model state, not older than the commits completed before the reload started, not newer than those started, monotone per reader; on MonDir, RamDirectory and MmapDirectory. (b) one forced schedule: a loading reader parked between reading meta.json and opening its k-th segment file while the writer commits, merges and GCs. (c) one forced schedule: the segment updater of a rolled-back writer parked inside end_merge until the replacement writer has committed; reloads before and after it resumes must show the newest commit. (d) two overlapping reloads of one reader, the older one parked while a newer commit is loaded: afterwards the reader shows the newer commit. Non-trivial = observations overlapped a commit and >=2 distinct commits were seen / the reader was actually parked.",
        ctx.scale(30, 60),
        &["commit identification relies on unique document ids and a marker document per commit", "every reader flavour, including auto-reload mixed with manual reloads, must be monotone (DESIGN.md §7 C05, revised scope)"],
    );
}
