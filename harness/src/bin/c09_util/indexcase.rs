//! C09 stream "index": documents go through `IndexWriter` under every doc-store setting, are
//! read back through `Searcher::doc` and `SegmentReader::get_store_reader`, then segments are
//! merged (stacking / re-compressing / sorted remap) and everything is read back again.
use std::collections::{BTreeMap, BTreeSet};

use serde_json::{json, Value as J};
use tantivy::index::SegmentId;
use tantivy::indexer::NoMergePolicy;
use tantivy::store::Compressor;
use tantivy::{
    DocAddress, Index, IndexSettings, IndexSortByField, IndexWriter, Order, ReloadPolicy,
    TantivyDocument, Term,
};
use tvmon::report::Report;
use tvmon::rng::Rng;

use crate::c09_util::gen::*;
use crate::verify::*;
use crate::c09_util::*;

struct SegInfo {
    layout: Layout,
    approx: bool,
    /// model ids in doc-id order
    ids: Vec<u64>,
    origin: String,
    comp: Compressor,
}

fn settings_json(s: &IndexSettings) -> J {
    json!({"compressor": comp_name(&s.docstore_compression), "blocksize": s.docstore_blocksize,
        "dedicated_thread": s.docstore_compress_dedicated_thread,
        "sort": s.sort_by_field.as_ref().map(|f| format!("{}:{:?}", f.field, f.order))})
}

fn plan_segment(rng: &mut Rng, bs: usize, deep: bool) -> Vec<Profile> {
    let n = match rng.weighted(&[5, 3, 1]) {
        0 => *rng.pick(&[1usize, 2, 5, 6, 7, 8, 9, 20, 40]),
        1 => *rng.pick(&[63usize, 64, 65, 100, 150]),
        _ => *rng.pick(&[300usize, 513, 520]),
    };
    let style = rng.below(4);
    (0..n)
        .map(|_| match style {
            0 => {
                if rng.chance(1, 10) {
                    Profile::Empty
                } else {
                    Profile::Tiny
                }
            }
            1 if bs >= 32 && bs <= 16385 && n <= 65 => {
                let b = bs as i64;
                let t = match rng.below(4) {
                    0 => b - 8 + rng.irange(-3, 3),
                    1 => b + rng.irange(-3, 3),
                    2 => (b - 16) / 2,
                    _ => return Profile::Tiny,
                };
                Profile::Size(t.max(1) as usize)
            }
            _ => match rng.weighted(&[1, 1, 6, 8, 3, 1, 2, if n <= 9 { 2 } else { 0 }]) {
                0 => Profile::Empty,
                1 => Profile::OnlyNonStored,
                2 => Profile::Tiny,
                3 => Profile::Mixed,
                4 => Profile::Multi,
                5 => Profile::DeepJson(rng.urange(5, 100)),
                6 => Profile::Size(rng.urange(1, 2500)),
                _ => Profile::Size(rng.urange(17_000, if deep { 400_000 } else { 120_000 })),
            },
        })
        .collect()
}

struct Ix {
    index: Index,
    settings: IndexSettings,
    pool: BTreeMap<u64, MDoc>,
    alive: BTreeSet<u64>,
    known: BTreeMap<SegmentId, SegInfo>,
    /// settings in force when each document was added
    epochs: Vec<IndexSettings>,
    epoch_of: BTreeMap<u64, usize>,
}

/// Reads every segment of the current searcher and compares with the model.
fn check_index(rep: &mut Report, rng0: &mut Rng, sch: &Sch, ix: &mut Ix, stage: &str, merged_from: &[Vec<SegmentId>]) -> bool {
    let rng = &mut *rng0;
    // per-segment randomness is derived from the segment's content, not from the order in which
    // the (randomly named) segments are listed, so that a case replays identically
    let base_seed = rng.next_u64();
    let searcher_cache = *rng.pick(&[0usize, 1, 100, 2, 8]);
    let reader = match ix
        .index
        .reader_builder()
        .reload_policy(ReloadPolicy::Manual)
        .doc_store_cache_num_blocks(searcher_cache)
        .try_into()
    {
        Ok(r) => r,
        Err(e) => {
            rep.violation("api-error:reader", json!({"error": e.to_string(), "stage": stage}));
            return false;
        }
    };
    let searcher = reader.searcher();
    let cfg = settings_json(&ix.settings);
    let mut seen_live: BTreeSet<u64> = BTreeSet::new();
    let mut st = CmpStats::default();
    let mut ok = true;
    let mut new_known: BTreeMap<SegmentId, SegInfo> = BTreeMap::new();
    for (ord, sr) in searcher.segment_readers().iter().enumerate() {
        let max_doc = sr.max_doc();
        let col = match sr.fast_fields().u64("id") {
            Ok(c) => c,
            Err(e) => {
                rep.violation("api-error:fast-field-id", json!({"error": e.to_string()}));
                return false;
            }
        };
        let mut ids = Vec::with_capacity(max_doc as usize);
        for d in 0..max_doc {
            match col.first(d) {
                Some(id) if ix.pool.contains_key(&id) => ids.push(id),
                other => {
                    rep.violation("precondition:id-column", json!({"doc": d, "value": other, "stage": stage, "cfg": cfg}));
                    return false;
                }
            }
        }
        let alive: Vec<bool> = (0..max_doc)
            .map(|d| sr.alive_bitset().map(|b| b.is_alive(d)).unwrap_or(true))
            .collect();
        for (d, a) in alive.iter().enumerate() {
            if *a {
                seen_live.insert(ids[d]);
            }
        }
        let docs: Vec<&MDoc> = ids.iter().map(|id| &ix.pool[id]).collect();
        let mut seg_rng = Rng::new(tvmon::rng::mix(&[base_seed, ids.iter().min().copied().unwrap_or(0), ids.len() as u64]));
        let rng = &mut seg_rng;
        let seg_id = sr.segment_id();
        let is_new = !ix.known.contains_key(&seg_id);
        // ---- layout model (classification / access patterns only)
        let (layout, approx, origin, comp) = if let Some(k) = ix.known.get(&seg_id) {
            (k.layout.clone(), k.approx, k.origin.clone(), k.comp)
        } else {
            let r100 = match sr.get_store_reader(100) {
                Ok(r) => r,
                Err(e) => {
                    rep.violation("api-error:get_store_reader", json!({"error": e.to_string(), "stage": stage, "cfg": cfg}));
                    return false;
                }
            };
            let mut lens = Vec::with_capacity(max_doc as usize);
            for d in 0..max_doc {
                match r100.get_document_bytes(d) {
                    Ok(b) => lens.push(b.len()),
                    Err(e) => {
                        rep.violation("store.get_document_bytes:error", json!({"doc": d, "max_doc": max_doc, "error": e.to_string(), "stage": stage, "cfg": cfg}));
                        return false;
                    }
                }
            }
            let bs = ix.settings.docstore_blocksize;
            let sorted = ix.settings.sort_by_field.is_some();
            // a merged segment? find its sources
            let srcs = merged_from.iter().find(|srcs| {
                let src_live: BTreeSet<u64> = srcs
                    .iter()
                    .filter_map(|s| ix.known.get(s))
                    .flat_map(|k| k.ids.iter().copied())
                    .collect();
                !ids.is_empty() && ids.iter().all(|i| src_live.contains(i))
            });
            match srcs {
                None => {
                    let o = if sorted { "fresh-sorted(temp-store-reread)" } else { "fresh" };
                    let es = &ix.epochs[ix.epoch_of[&ids[0]]];
                    (layout_from(&[LOp::Docs(max_doc as usize)], &lens, es.docstore_blocksize), false, o.to_string(), es.docstore_compression)
                }
                Some(srcs) => {
                    // expected path per source, from the merger's preconditions
                    let mut paths: BTreeSet<&'static str> = BTreeSet::new();
                    let mut ops: Vec<LOp> = vec![];
                    let mut exact = !sorted;
                    // order of the sources inside the merged segment (by first surviving id)
                    let mut ordered: Vec<(usize, &SegInfo, Vec<u64>)> = vec![];
                    for s in srcs {
                        if let Some(k) = ix.known.get(s) {
                            let live: Vec<u64> = k.ids.iter().copied().filter(|i| ix.alive.contains(i)).collect();
                            let had_deletes = live.len() != k.ids.len();
                            let path = if sorted {
                                "sorted-remap(iter_raw-interleaved)"
                            } else if had_deletes {
                                "recompress(deletes)"
                            } else if k.layout.nblocks() < 6 {
                                "recompress(<6-blocks)"
                            } else if comp_family(&k.comp) != comp_family(&ix.settings.docstore_compression) {
                                "recompress(codec-differs)"
                            } else {
                                "stack"
                            };
                            if k.approx && !had_deletes && !sorted && (4..=8).contains(&k.layout.nblocks()) {
                                // block count of the source is only approximate: do not claim a path
                                paths.insert("stack-or-recompress(approx-source-layout)");
                            } else {
                                paths.insert(path);
                            }
                            let pos = live.first().and_then(|f| ids.iter().position(|i| i == f));
                            match pos {
                                Some(p) => ordered.push((p, k, live)),
                                None if live.is_empty() => {}
                                None => exact = false,
                            }
                        } else {
                            exact = false;
                        }
                    }
                    ordered.sort_by_key(|x| x.0);
                    if exact {
                        let mut at = 0usize;
                        for (p, k, live) in &ordered {
                            if *p != at || ids[at..].len() < live.len() || ids[at..at + live.len()] != live[..] {
                                exact = false;
                                break;
                            }
                            at += live.len();
                            let stack = live.len() == k.ids.len()
                                && k.layout.nblocks() >= 6
                                && comp_family(&k.comp) == comp_family(&ix.settings.docstore_compression);
                            if stack {
                                ops.push(LOp::Stack(&k.layout));
                            } else {
                                ops.push(LOp::Docs(live.len()));
                            }
                            if k.approx {
                                exact = false;
                            }
                        }
                        if at != ids.len() {
                            exact = false;
                        }
                    }
                    for p in &paths {
                        rep.observe("merge_path", *p);
                        if *p == "stack" {
                            rep.count("stacked_readers", 1);
                        }
                    }
                    let lay = if exact {
                        layout_from(&ops, &lens, bs)
                    } else {
                        layout_from(&[LOp::Docs(max_doc as usize)], &lens, bs)
                    };
                    let names: Vec<&str> = paths.iter().map(|p| p.split('(').next().unwrap_or(p)).collect::<BTreeSet<_>>().into_iter().collect();
                    (lay, !exact && !sorted, format!("merged[{}]", names.join("+")), ix.settings.docstore_compression)
                }
            }
        };
        let t = VTarget { docs, layout: &layout, origin: &origin, cfg: json!({"settings": cfg, "stage": stage, "segment_ord": ord, "max_doc": max_doc, "num_deleted": sr.num_deleted_docs()}) };
        // ---- Searcher::doc
        let budget = ((8usize << 20) / layout.max_block_bytes().max(64)).clamp(16, 300);
        rep.observe("cache_num_blocks", format!("searcher:{searcher_cache}"));
        let full = if is_new && max_doc <= 600 && searcher_cache > 0 { Some("full-desc") } else { None };
        'outer: for (name, seq) in access_orders(rng, &alive, &layout, budget, full) {
            rep.observe("access_order", name);
            for d in seq {
                let got = match searcher.doc::<TantivyDocument>(DocAddress::new(ord as u32, d)) {
                    Ok(g) => g,
                    Err(e) => {
                        rep.violation("searcher.doc:error", json!({"ctx": t.cfg, "origin": origin, "doc": d, "cache": searcher_cache, "error": e.to_string()}));
                        ok = false;
                        break 'outer;
                    }
                };
                rep.count("docs_compared_searcher_doc", 1);
                if let Some(mm) = check_doc(sch, t.docs[d as usize], &got, &mut st) {
                    rep.violation(format!("searcher.doc:{}", mm.what), json!({"ctx": t.cfg, "origin": origin, "order": name, "doc": d,
                        "cache": searcher_cache, "model_block": layout.block_of(d), "model_blocks": layout.nblocks(), "detail": mm.detail}));
                    ok = false;
                    break 'outer;
                }
            }
        }
        // ---- SegmentReader::get_store_reader(cache)
        if ok {
            let caches: Vec<usize> = if is_new { vec![0, 1, 100] } else { vec![*rng.pick(&[0usize, 1, 100, 3])] };
            let full_reader = rng.usize_below(caches.len());
            for (ci, &cache) in caches.iter().enumerate() {
                rep.observe("cache_num_blocks", cache.to_string());
                let r = match sr.get_store_reader(cache) {
                    Ok(r) => r,
                    Err(e) => {
                        rep.violation("api-error:get_store_reader", json!({"error": e.to_string(), "ctx": t.cfg}));
                        ok = false;
                        break;
                    }
                };
                let iter_first = rng.bool();
                if iter_first {
                    ok &= verify_iter(rep, sch, &r, cache, &t, sr.alive_bitset(), &alive, "segment-alive-bitset", &mut st);
                }
                if ok {
                    ok &= verify_gets(rep, rng, sch, &r, cache, &t, &alive, is_new && ci == full_reader, &mut st);
                }
                if ok && !iter_first {
                    ok &= verify_iter(rep, sch, &r, cache, &t, sr.alive_bitset(), &alive, "segment-alive-bitset", &mut st);
                }
                if !ok {
                    break;
                }
            }
        }
        if sr.has_deletes() {
            rep.count("segments_with_deletes_checked", 1);
        }
        if is_new {
            let es = if origin.starts_with("fresh") { &ix.epochs[ix.epoch_of[&ids[0]]] } else { &ix.settings };
            observe_store(rep, &comp, es.docstore_blocksize, es.docstore_compress_dedicated_thread, &layout, &origin, ok, approx);
        } else {
            rep.count("stores_rechecked", 1);
        }
        new_known.insert(seg_id, SegInfo { layout, approx, ids, origin, comp });
        if !ok {
            break;
        }
    }
    flush_stats(rep, &st);
    if ok && seen_live != ix.alive {
        let missing: Vec<&u64> = ix.alive.difference(&seen_live).take(5).collect();
        let extra: Vec<&u64> = seen_live.difference(&ix.alive).take(5).collect();
        rep.violation("precondition:live-id-set-differs", json!({"stage": stage, "cfg": cfg, "missing": missing, "extra": extra}));
        ok = false;
    }
    if ok {
        ix.known = new_known;
    }
    ok
}

pub fn index_case(case: u64, rng: &mut Rng, rep: &mut Report, deep: bool) {
    let sch = sch();
    let sorted = rng.chance(1, 4);
    let bs = if rng.chance(1, 3) {
        *rng.pick(&[0usize, 1, 8, 64])
    } else {
        *rng.pick(BLOCK_SIZES)
    };
    let settings = IndexSettings {
        sort_by_field: if sorted {
            Some(IndexSortByField {
                field: "sk".to_string(),
                order: if rng.bool() { Order::Asc } else { Order::Desc },
            })
        } else {
            None
        },
        docstore_compression: gen_compressor(rng),
        docstore_blocksize: bs,
        docstore_compress_dedicated_thread: rng.bool(),
        ..IndexSettings::default()
    };
    let index = match Index::builder().schema(sch.schema.clone()).settings(settings.clone()).create_in_ram() {
        Ok(i) => i,
        Err(e) => {
            rep.violation("api-error:create", json!({"error": e.to_string(), "settings": settings_json(&settings)}));
            return;
        }
    };
    rep.eval();
    let mut ix = Ix {
        index,
        settings: settings.clone(),
        pool: BTreeMap::new(),
        alive: BTreeSet::new(),
        known: BTreeMap::new(),
        epochs: vec![settings],
        epoch_of: BTreeMap::new(),
    };
    macro_rules! mk_writer {
        () => {{
            let w: Result<IndexWriter, _> = ix.index.writer_with_num_threads(1, 20_000_000);
            match w {
                Ok(w) => {
                    w.set_merge_policy(Box::new(NoMergePolicy));
                    w
                }
                Err(e) => {
                    rep.violation("api-error:writer", json!({"error": e.to_string()}));
                    return;
                }
            }
        }};
    }
    let mut writer = mk_writer!();
    let nseg = rng.urange(1, 4);
    let with_deletes = rng.chance(1, 2);
    let mut next_id = 1u64;
    let mut total_bytes = 0usize;
    for s in 0..nseg {
        // occasionally later segments are written with another codec / block size
        if s > 0 && rng.chance(1, 6) {
            drop(writer);
            let st = ix.index.settings_mut();
            st.docstore_compression = gen_compressor(rng);
            st.docstore_blocksize = *rng.pick(BLOCK_SIZES);
            st.docstore_compress_dedicated_thread = rng.bool();
            ix.settings = ix.index.settings().clone();
            ix.epochs.push(ix.settings.clone());
            rep.count("settings_changed_between_segments", 1);
            writer = mk_writer!();
        }
        let profiles = plan_segment(rng, ix.settings.docstore_blocksize, deep);
        for p in profiles {
            if total_bytes > (6 << 20) {
                break;
            }
            let id = next_id;
            next_id += 1;
            let mut d = gen_doc(rng, sch, id, p);
            if matches!(p, Profile::Tiny) && rng.chance(3, 4) {
                let at = rng.usize_below(d.vals.len() + 1);
                d.vals.insert(at, (sch.slot("u_so"), MV::U64(id)));
            }
            observe_kinds(rep, &d);
            total_bytes += d.est_len(sch);
            if let Err(e) = writer.add_document(d.to_tdoc(sch)) {
                rep.violation("api-error:add_document", json!({"error": e.to_string(), "profile": d.profile}));
                return;
            }
            ix.alive.insert(id);
            ix.epoch_of.insert(id, ix.epochs.len() - 1);
            ix.pool.insert(id, d);
        }
        if with_deletes && rng.chance(2, 3) {
            let k = rng.urange(1, 6);
            for _ in 0..k {
                let id = rng.range(1, next_id - 1);
                writer.delete_term(Term::from_field_u64(sch.id, id));
                ix.alive.remove(&id);
            }
        }
        if let Err(e) = writer.commit() {
            rep.violation("api-error:commit", json!({"error": e.to_string(), "settings": settings_json(&ix.settings)}));
            return;
        }
    }
    if case < 2 {
        rep.sample(json!({"stream": "index", "settings": settings_json(&ix.settings), "commits": nseg,
            "docs": ix.pool.len(), "live": ix.alive.len()}));
    }
    if !check_index(rep, rng, sch, &mut ix, "after-commits", &[]) {
        return;
    }
    // ---- merges
    let rounds = rng.urange(1, 2);
    for round in 0..rounds {
        let mut segs: Vec<SegmentId> = match ix.index.searchable_segment_ids() {
            Ok(s) => s,
            Err(e) => {
                rep.violation("api-error:searchable_segment_ids", json!({"error": e.to_string()}));
                return;
            }
        };
        if segs.is_empty() {
            break;
        }
        if round == 0 && rng.chance(1, 5) {
            // codec / block size of the merge target differs from the sources
            drop(writer);
            let st = ix.index.settings_mut();
            if rng.bool() {
                st.docstore_compression = gen_compressor(rng);
            }
            st.docstore_blocksize = *rng.pick(BLOCK_SIZES);
            ix.settings = ix.index.settings().clone();
            rep.count("settings_changed_before_merge", 1);
            writer = mk_writer!();
        }
        // segment ids are random uuids: order them by content so that a case replays identically
        segs.sort_by_key(|s| ix.known.get(s).and_then(|k| k.ids.iter().min().copied()).unwrap_or(0));
        rng.shuffle(&mut segs);
        let k = if round + 1 == rounds { segs.len() } else { rng.urange(1, segs.len()) };
        segs.truncate(k);
        rep.count("merges", 1);
        match writer.merge(&segs).wait() {
            Ok(_) => {}
            Err(e) => {
                rep.violation("api-error:merge", json!({"error": e.to_string(), "settings": settings_json(&ix.settings), "segments": segs.len()}));
                return;
            }
        }
        if !check_index(rep, rng, sch, &mut ix, if round == 0 { "after-merge-1" } else { "after-merge-2" }, &[segs.clone()]) {
            return;
        }
    }
    let _ = writer.wait_merging_threads();
}

// ---------------------------------------------------------------------------------------------
// shared helpers for the two dedicated streams below

fn new_ix(rep: &mut Report, sch: &Sch, settings: IndexSettings) -> Option<(Ix, IndexWriter)> {
    let index = match Index::builder().schema(sch.schema.clone()).settings(settings.clone()).create_in_ram() {
        Ok(i) => i,
        Err(e) => {
            rep.violation("api-error:create", json!({"error": e.to_string(), "settings": settings_json(&settings)}));
            return None;
        }
    };
    let writer: IndexWriter = match index.writer_with_num_threads(1, 40_000_000) {
        Ok(w) => w,
        Err(e) => {
            rep.violation("api-error:writer", json!({"error": e.to_string()}));
            return None;
        }
    };
    writer.set_merge_policy(Box::new(NoMergePolicy));
    let ix = Ix {
        index,
        settings: settings.clone(),
        pool: BTreeMap::new(),
        alive: BTreeSet::new(),
        known: BTreeMap::new(),
        epochs: vec![settings],
        epoch_of: BTreeMap::new(),
    };
    Some((ix, writer))
}

fn add_doc(rep: &mut Report, sch: &Sch, ix: &mut Ix, writer: &IndexWriter, d: MDoc) -> bool {
    observe_kinds(rep, &d);
    if let Err(e) = writer.add_document(d.to_tdoc(sch)) {
        rep.violation("api-error:add_document", json!({"error": e.to_string(), "profile": d.profile}));
        return false;
    }
    ix.alive.insert(d.id);
    ix.epoch_of.insert(d.id, ix.epochs.len() - 1);
    ix.pool.insert(d.id, d);
    true
}

// ---------------------------------------------------------------------------------------------
// stream "vint": stored values whose byte length straddles every VInt width boundary
// (127/128, 16383/16384, 2^21-1 / 2^21 / 2^21+5), as text, bytes and as a string inside JSON;
// read through Searcher::doc / StoreReader::get / iter, before and after a merge.

pub fn vint_case(case: u64, rng: &mut Rng, rep: &mut Report, deep: bool) {
    let sch = sch();
    let settings = IndexSettings {
        docstore_compression: gen_compressor(rng),
        docstore_blocksize: *rng.pick(&[0usize, 16384, 16384, 1 << 20, u32::MAX as usize]),
        docstore_compress_dedicated_thread: rng.bool(),
        ..IndexSettings::default()
    };
    let (mut ix, mut writer) = match new_ix(rep, sch, settings) {
        Some(x) => x,
        None => return,
    };
    rep.eval();
    // which representation carries the > 2 MiB values in this case
    let big_kind = (case % 3) as usize;
    let slots = [sch.slot("t_so"), sch.slot("y_s"), sch.slot("j_so")];
    let mk = |rng: &mut Rng, kind: usize, len: usize| -> (usize, MV) {
        match kind {
            0 => (slots[0], MV::Str(gen_pad_text(rng, len))),
            1 => (slots[1], MV::Bytes(rng.bytes(len))),
            _ => {
                let mut ents = vec![("n".to_string(), MV::U64(len as u64)), ("s".to_string(), MV::Str(gen_pad_text(rng, len)))];
                if rng.bool() {
                    ents.reverse();
                }
                (slots[2], MV::Obj(ents))
            }
        }
    };
    let small: &[usize] = &[0, 1, 126, 127, 128, 129, 16382, 16383, 16384, 16385];
    let mut big: Vec<usize> = vec![(1 << 21) - 1, 1 << 21, (1 << 21) + 5];
    if deep {
        big.extend([(1usize << 21) + (1 << 14), 2_600_000, 3 * (1 << 20) + 1]);
    }
    let mut plan: Vec<(usize, usize)> = vec![];
    for &l in small {
        for k in 0..3 {
            plan.push((k, l));
        }
    }
    for &l in &big {
        plan.push((big_kind, l));
    }
    rng.shuffle(&mut plan);
    let mut next_id = 1u64;
    let half = plan.len() / 2;
    for (i, (kind, len)) in plan.iter().enumerate() {
        let mut vals = vec![];
        if rng.bool() {
            vals.push((sch.slot("u_so"), MV::U64(next_id)));
        }
        vals.push(mk(rng, *kind, *len));
        if rng.chance(1, 3) {
            // a second value in the same field, also at a boundary
            let l2 = *rng.pick(&[127usize, 128, 16383, 16384]);
            vals.push(mk(rng, *kind, l2));
        }
        let d = MDoc { id: next_id, sk: 0, vals, profile: "vint-boundary" };
        next_id += 1;
        rep.observe("vint_boundary_len", format!("{}:{len}", ["text", "bytes", "json-string"][*kind]));
        if *len >= (1 << 21) - 1 {
            rep.count("values_of_2MiB_or_more", 1);
        }
        if !add_doc(rep, sch, &mut ix, &writer, d) {
            return;
        }
        if i + 1 == half || i + 1 == plan.len() {
            if let Err(e) = writer.commit() {
                rep.violation("api-error:commit", json!({"error": e.to_string(), "settings": settings_json(&ix.settings)}));
                return;
            }
        }
    }
    if !check_index(rep, rng, sch, &mut ix, "vint:after-commits", &[]) {
        return;
    }
    let segs = match ix.index.searchable_segment_ids() {
        Ok(s) => s,
        Err(e) => {
            rep.violation("api-error:searchable_segment_ids", json!({"error": e.to_string()}));
            return;
        }
    };
    rep.count("merges", 1);
    if let Err(e) = writer.merge(&segs).wait() {
        rep.violation("api-error:merge", json!({"error": e.to_string(), "settings": settings_json(&ix.settings)}));
        return;
    }
    check_index(rep, rng, sch, &mut ix, "vint:after-merge", &[segs]);
    let _ = writer.wait_merging_threads();
}

// ---------------------------------------------------------------------------------------------
// stream "single-segment": the index is written by `SingleSegmentIndexWriter` (no IndexWriter, no
// worker threads, no segment updater: the segment writer is finalised directly and meta.json is
// written by `finalize()`), sorted or not; every stored document is read back through the same
// comparisons as in the index stream.
pub fn single_segment_case(_case: u64, rng: &mut Rng, rep: &mut Report, deep: bool) {
    let sch = sch();
    let sorted = rng.chance(1, 4);
    let bs = if rng.chance(1, 3) { *rng.pick(&[0usize, 1, 8, 64]) } else { *rng.pick(BLOCK_SIZES) };
    let settings = IndexSettings {
        sort_by_field: if sorted {
            Some(IndexSortByField { field: "sk".to_string(), order: if rng.bool() { Order::Asc } else { Order::Desc } })
        } else {
            None
        },
        docstore_compression: gen_compressor(rng),
        docstore_blocksize: bs,
        docstore_compress_dedicated_thread: rng.bool(),
        ..IndexSettings::default()
    };
    let mut writer: tantivy::indexer::SingleSegmentIndexWriter = match Index::builder()
        .schema(sch.schema.clone())
        .settings(settings.clone())
        .single_segment_index_writer(tantivy::directory::RamDirectory::create(), 40_000_000)
    {
        Ok(w) => w,
        Err(e) => {
            rep.violation("api-error:single_segment_index_writer", json!({"error": e.to_string(), "settings": settings_json(&settings)}));
            return;
        }
    };
    rep.eval();
    let mut pool = BTreeMap::new();
    let mut alive = BTreeSet::new();
    let mut epoch_of = BTreeMap::new();
    let mut total_bytes = 0usize;
    let mut next_id = 1u64;
    for p in plan_segment(rng, bs, deep) {
        if total_bytes > (6 << 20) {
            break;
        }
        let id = next_id;
        next_id += 1;
        let mut d = gen_doc(rng, sch, id, p);
        if matches!(p, Profile::Tiny) && rng.chance(3, 4) {
            let at = rng.usize_below(d.vals.len() + 1);
            d.vals.insert(at, (sch.slot("u_so"), MV::U64(id)));
        }
        observe_kinds(rep, &d);
        total_bytes += d.est_len(sch);
        if let Err(e) = writer.add_document(d.to_tdoc(sch)) {
            rep.violation("api-error:single-segment:add_document", json!({"error": e.to_string(), "profile": d.profile}));
            return;
        }
        alive.insert(id);
        epoch_of.insert(id, 0usize);
        pool.insert(id, d);
    }
    let index = match writer.finalize() {
        Ok(i) => i,
        Err(e) => {
            rep.violation("api-error:single-segment:finalize", json!({"error": e.to_string(), "settings": settings_json(&settings)}));
            return;
        }
    };
    rep.count("single_segment_indexes", 1);
    rep.count("single_segment_docs", alive.len() as u64);
    let mut ix = Ix { index, settings: settings.clone(), pool, alive, known: BTreeMap::new(), epochs: vec![settings], epoch_of };
    check_index(rep, rng, sch, &mut ix, "single-segment", &[]);
}

// ---------------------------------------------------------------------------------------------
// stream "concurrent": several threads fetch documents of DIFFERENT blocks through ONE shared
// `Searcher` / ONE shared `StoreReader` (cache 0/1/2/100); every returned document is compared
// with the model. A serial read of the same segment is done first, so a mismatch here is due to
// the concurrent access.

struct Hit {
    what: &'static str,
    detail: J,
}

#[allow(clippy::too_many_arguments)]
fn hammer<F>(fetch: &F, sch: &Sch, docs: &[&MDoc], alive: &[bool], lay: &Layout, nthreads: usize, nfetch: usize, seed: u64) -> (u64, Vec<Hit>)
where F: Fn(u32) -> Result<TantivyDocument, String> + Sync {
    let nb = lay.nblocks().max(1);
    let live: Vec<u32> = (0..alive.len() as u32).filter(|d| alive[*d as usize]).collect();
    let hits = std::sync::Mutex::new(vec![]);
    let total = std::sync::atomic::AtomicU64::new(0);
    let barrier = std::sync::Barrier::new(nthreads);
    std::thread::scope(|s| {
        for t in 0..nthreads {
            let hits = &hits;
            let total = &total;
            let barrier = &barrier;
            let live = &live;
            s.spawn(move || {
                let mut rng = Rng::new(tvmon::rng::mix(&[seed, t as u64]));
                barrier.wait();
                let r = tvmon::report::guarded(|| {
                    let mut n = 0u64;
                    let mut last_block = usize::MAX;
                    for k in 0..nfetch {
                        // hop to another block almost every time
                        let d = loop {
                            let b = rng.usize_below(nb);
                            if b == last_block && nb > 1 && !rng.chance(1, 10) {
                                continue;
                            }
                            let (s0, e0) = lay.doc_range(b.min(lay.nblocks().saturating_sub(1)));
                            let d = if e0 > s0 { rng.range(s0 as u64, e0 as u64 - 1) as u32 } else { *rng.pick(live) };
                            if alive[d as usize] {
                                last_block = b;
                                break d;
                            }
                            if rng.chance(1, 4) {
                                break *rng.pick(live);
                            }
                        };
                        n += 1;
                        match fetch(d) {
                            Err(e) => return (n, Some(Hit { what: "error", detail: json!({"thread": t, "fetch_no": k, "doc": d, "error": e}) })),
                            Ok(got) => {
                                let mut st = CmpStats::default();
                                if let Some(mm) = check_doc(sch, docs[d as usize], &got, &mut st) {
                                    let other = (0..docs.len()).find(|&j| j != d as usize && check_doc(sch, docs[j], &got, &mut st).is_none());
                                    return (n, Some(Hit { what: "wrong-document", detail: json!({"thread": t, "fetch_no": k, "doc": d,
                                        "model_block": lay.block_of(d), "is_exactly_other_doc": other,
                                        "other_doc_block": other.map(|j| lay.block_of(j as u32)), "first_difference": mm.what, "detail": mm.detail}) }));
                                }
                            }
                        }
                    }
                    (n, None)
                });
                match r {
                    Ok((n, h)) => {
                        total.fetch_add(n, std::sync::atomic::Ordering::Relaxed);
                        if let Some(h) = h {
                            hits.lock().unwrap().push(h);
                        }
                    }
                    Err(p) => hits.lock().unwrap().push(Hit { what: "panic", detail: json!({"thread": t, "panic_location": p.location, "panic_message": p.message}) }),
                }
            });
        }
    });
    (total.into_inner(), hits.into_inner().unwrap())
}

pub fn concurrent_case(case: u64, rng: &mut Rng, rep: &mut Report, deep: bool) {
    let sch = sch();
    let bs = *rng.pick(&[0usize, 1, 8, 16, 64, 100, 256]);
    let settings = IndexSettings {
        docstore_compression: gen_compressor(rng),
        docstore_blocksize: bs,
        docstore_compress_dedicated_thread: rng.bool(),
        ..IndexSettings::default()
    };
    let (mut ix, mut writer) = match new_ix(rep, sch, settings) {
        Some(x) => x,
        None => return,
    };
    rep.eval();
    let ndocs = rng.urange(300, if deep { 2000 } else { 1200 });
    for i in 0..ndocs {
        let id = i as u64 + 1;
        let p = match rng.weighted(&[6, 3, 1, 1]) {
            0 => Profile::Tiny,
            1 => Profile::Mixed,
            2 => Profile::Multi,
            _ => Profile::Size(rng.urange(50, 600)),
        };
        let mut d = gen_doc(rng, sch, id, p);
        // every document is distinguishable
        let at = rng.usize_below(d.vals.len() + 1);
        d.vals.insert(at, (sch.slot("u_so"), MV::U64(id)));
        if !add_doc(rep, sch, &mut ix, &writer, d) {
            return;
        }
    }
    if rng.bool() {
        for _ in 0..rng.urange(1, 20) {
            let id = rng.range(1, ndocs as u64);
            writer.delete_term(Term::from_field_u64(sch.id, id));
            ix.alive.remove(&id);
        }
    }
    if let Err(e) = writer.commit() {
        rep.violation("api-error:commit", json!({"error": e.to_string(), "settings": settings_json(&ix.settings)}));
        return;
    }
    // several flushes are possible in principle: bring everything into one segment
    if let Ok(segs) = ix.index.searchable_segment_ids() {
        if segs.len() > 1 {
            if let Err(e) = writer.merge(&segs).wait() {
                rep.violation("api-error:merge", json!({"error": e.to_string()}));
                return;
            }
        }
    }
    // serial baseline (also fills `ix.known` with the layout model)
    if !check_index(rep, rng, sch, &mut ix, "concurrent:serial-baseline", &[]) {
        return;
    }
    let cfg = settings_json(&ix.settings);
    let rounds = if deep { 3 } else { 2 };
    let nfetch = if deep { 600 } else { 400 };
    'caches: for &cache in &[0usize, 1, 2, 100] {
        let reader: tantivy::IndexReader = match ix
            .index
            .reader_builder()
            .reload_policy(ReloadPolicy::Manual)
            .doc_store_cache_num_blocks(cache)
            .try_into()
        {
            Ok(r) => r,
            Err(e) => {
                rep.violation("api-error:reader", json!({"error": e.to_string()}));
                return;
            }
        };
        let searcher = reader.searcher();
        for (ord, sr) in searcher.segment_readers().iter().enumerate() {
            let info = match ix.known.get(&sr.segment_id()) {
                Some(i) => i,
                None => continue,
            };
            let docs: Vec<&MDoc> = info.ids.iter().map(|id| &ix.pool[id]).collect();
            let alive: Vec<bool> = (0..sr.max_doc()).map(|d| sr.alive_bitset().map(|b| b.is_alive(d)).unwrap_or(true)).collect();
            if !alive.iter().any(|a| *a) {
                continue;
            }
            let lay = &info.layout;
            rep.observe("concurrent_blocks_class", blocks_class(lay.nblocks()));
            for round in 0..rounds {
                let nthreads = *rng.pick(&[4usize, 6, 8]);
                rep.observe("concurrent_threads", nthreads.to_string());
                rep.observe("concurrent_cache", cache.to_string());
                // (a) one shared Searcher
                let seed = rng.next_u64();
                let f = |d: u32| searcher.doc::<TantivyDocument>(DocAddress::new(ord as u32, d)).map_err(|e| e.to_string());
                let (n, hits) = hammer(&f, sch, &docs, &alive, lay, nthreads, nfetch, seed);
                rep.count("concurrent_fetches_searcher_doc", n);
                let mut bad = false;
                for h in hits.into_iter().take(2) {
                    rep.violation(format!("concurrent:searcher.doc:{}", h.what), json!({"settings": cfg, "cache": cache, "threads": nthreads,
                        "round": round, "max_doc": sr.max_doc(), "model_blocks": lay.nblocks(), "detail": h.detail}));
                    bad = true;
                }
                // (b) one shared StoreReader
                let store = match sr.get_store_reader(cache) {
                    Ok(s) => s,
                    Err(e) => {
                        rep.violation("api-error:get_store_reader", json!({"error": e.to_string()}));
                        return;
                    }
                };
                let seed = rng.next_u64();
                let f = |d: u32| store.get::<TantivyDocument>(d).map_err(|e| e.to_string());
                let (n, hits) = hammer(&f, sch, &docs, &alive, lay, nthreads, nfetch, seed);
                rep.count("concurrent_fetches_store_get", n);
                for h in hits.into_iter().take(2) {
                    rep.violation(format!("concurrent:store.get:{}", h.what), json!({"settings": cfg, "cache": cache, "threads": nthreads,
                        "round": round, "max_doc": sr.max_doc(), "model_blocks": lay.nblocks(), "detail": h.detail}));
                    bad = true;
                }
                if bad {
                    break 'caches;
                }
            }
        }
    }
    if case < 1 {
        rep.sample(json!({"stream": "concurrent", "settings": cfg, "docs": ndocs, "live": ix.alive.len()}));
    }
    let _ = writer.wait_merging_threads();
}
