//! MonDir: a monitoring `Directory`.
//!
//! * separates *visible* state (what reads see) from *durable* state (what survives a crash):
//!   file data becomes durable on `terminate`, directory entries (creations, renames done by
//!   `atomic_write`, unlinks) on the next `sync_directory`;
//! * records every storage operation, with the issuing thread, in one totally ordered log that
//!   also receives the client events of the workload;
//! * runs online trace monitors (T1 commit point, T2 write-once, T3 needed-file deletion,
//!   T5 writer lock) under its own mutex;
//! * supports gates (park a thread right before a matching operation), seeded scheduling noise
//!   and fault injection;
//! * can reconstruct, offline from the log, the crash image at any operation boundary under a
//!   chosen persistence outcome (see `crash.rs`).

use std::collections::{BTreeMap, BTreeSet, HashMap};
use std::io::{self, Write};
use std::ops::Range;
use std::path::Path;
use std::sync::atomic::{AtomicU64, Ordering};
use std::sync::{Arc, Condvar, Mutex, MutexGuard};
use std::time::{Duration, Instant};
use std::{fmt, thread};

use serde_json::{json, Value};
use tantivy::directory::error::{DeleteError, LockError, OpenReadError, OpenWriteError};
use tantivy::directory::{
    AntiCallToken, Directory, DirectoryLock, FileHandle, Lock, OwnedBytes, TerminatingWrite,
    WatchCallback, WatchCallbackList, WatchHandle, WritePtr,
};
use tantivy::HasLen;

#[derive(Clone, Copy, Debug, PartialEq, Eq, Hash, PartialOrd, Ord)]
pub enum OpKind {
    OpenWrite,
    Write,
    Flush,
    Terminate,
    AtomicWrite,
    AtomicRead,
    Delete,
    SyncDir,
    OpenRead,
    ReadBytes,
    Exists,
    LockAcquire,
    LockRelease,
    Client,
}

impl OpKind {
    pub fn name(self) -> &'static str {
        match self {
            OpKind::OpenWrite => "open_write",
            OpKind::Write => "write",
            OpKind::Flush => "flush",
            OpKind::Terminate => "terminate",
            OpKind::AtomicWrite => "atomic_write",
            OpKind::AtomicRead => "atomic_read",
            OpKind::Delete => "delete",
            OpKind::SyncDir => "sync_directory",
            OpKind::OpenRead => "open_read",
            OpKind::ReadBytes => "read_bytes",
            OpKind::Exists => "exists",
            OpKind::LockAcquire => "lock_acquire",
            OpKind::LockRelease => "lock_release",
            OpKind::Client => "client",
        }
    }
    /// operations that change storage state (crash boundaries are taken around these)
    pub fn mutates(self) -> bool {
        matches!(
            self,
            OpKind::OpenWrite
                | OpKind::Write
                | OpKind::Terminate
                | OpKind::AtomicWrite
                | OpKind::Delete
                | OpKind::SyncDir
        )
    }
}

/// Role of the issuing thread, recognised by thread name.
pub fn role_of(tname: &str) -> &'static str {
    if tname.starts_with("thrd-tantivy-index") {
        "worker"
    } else if tname.starts_with("segment_updater") {
        "updater"
    } else if tname.starts_with("merge_thread") {
        "merge"
    } else if tname.starts_with("docstore-compressor") {
        "compressor"
    } else if tname.starts_with("tantivy-warm") {
        "warm-gc"
    } else if tname.starts_with("tvmon-reader") {
        "reader"
    } else if tname.starts_with("tvmon-gc") {
        "gc"
    } else {
        "client"
    }
}

/// Kind of a file, by its name.
pub fn file_kind(path: &str) -> &'static str {
    if path == "meta.json" {
        "meta"
    } else if path == ".managed.json" {
        "managed"
    } else if path.ends_with(".lock") {
        "lock"
    } else if path.ends_with(".store.temp") {
        "tempstore"
    } else if path.ends_with(".del") {
        "del"
    } else if let Some(i) = path.rfind('.') {
        match &path[i + 1..] {
            "idx" => "idx",
            "pos" => "pos",
            "term" => "term",
            "store" => "store",
            "fast" => "fast",
            "fieldnorm" => "fieldnorm",
            _ => "other",
        }
    } else {
        "other"
    }
}

#[derive(Clone, Debug)]
pub struct Event {
    pub seq: u64,
    pub tname: String,
    pub role: &'static str,
    pub kind: OpKind,
    pub path: String,
    pub len: usize,
    pub ok: bool,
    /// payload of write / atomic_write (needed to rebuild crash images offline)
    pub data: Option<Arc<Vec<u8>>>,
    /// inode id touched (write/terminate/open_write/atomic_write)
    pub inode: u64,
    pub note: String,
}

impl Event {
    pub fn brief(&self) -> Value {
        json!([self.seq, self.role, self.kind.name(), self.path, self.len, self.ok, self.note])
    }
}

#[derive(Clone, Debug)]
struct Inode {
    data: Vec<u8>,
    terminated: bool,
    frozen: Option<OwnedBytes>,
}

#[derive(Clone, Debug)]
pub struct OpPred {
    pub kinds: Vec<OpKind>,
    pub role: Option<String>,
    /// matches `file_kind(path)`
    pub fkind: Option<String>,
    pub path: Option<String>,
}

impl OpPred {
    pub fn any() -> OpPred {
        OpPred {
            kinds: vec![],
            role: None,
            fkind: None,
            path: None,
        }
    }
    pub fn kind(k: OpKind) -> OpPred {
        OpPred {
            kinds: vec![k],
            ..OpPred::any()
        }
    }
    pub fn role(mut self, r: &str) -> OpPred {
        self.role = Some(r.to_string());
        self
    }
    pub fn fkind(mut self, k: &str) -> OpPred {
        self.fkind = Some(k.to_string());
        self
    }
    pub fn path(mut self, p: &str) -> OpPred {
        self.path = Some(p.to_string());
        self
    }
    pub fn matches(&self, kind: OpKind, role: &str, path: &str) -> bool {
        (self.kinds.is_empty() || self.kinds.contains(&kind))
            && self.role.as_deref().map(|r| r == role).unwrap_or(true)
            && self
                .fkind
                .as_deref()
                .map(|k| k == file_kind(path))
                .unwrap_or(true)
            && self.path.as_deref().map(|p| p == path).unwrap_or(true)
    }
    pub fn describe(&self) -> String {
        format!(
            "{}:{}:{}",
            self.role.as_deref().unwrap_or("*"),
            self.kinds
                .iter()
                .map(|k| k.name())
                .collect::<Vec<_>>()
                .join("|"),
            self.fkind
                .as_deref()
                .or(self.path.as_deref())
                .unwrap_or("*")
        )
    }
}

#[derive(Clone, Copy, Debug, PartialEq, Eq)]
pub enum FaultMode {
    Once,
    /// every matching op from the n-th on fails
    Permanent,
    /// every op of any kind (mutating or reading) fails after the n-th match
    Dead,
}

#[derive(Clone, Debug)]
pub struct FaultRule {
    pub pred: OpPred,
    /// 0-based occurrence at which the fault fires
    pub nth: u64,
    pub mode: FaultMode,
    pub err: io::ErrorKind,
    /// for writes: accept only a short count instead of failing (legal behaviour)
    pub short_write: bool,
    pub seen: u64,
    pub fired: u64,
}

struct GateState {
    pred: OpPred,
    nth: u64,
    seen: u64,
    parked: bool,
    released: bool,
    parked_event: Option<(String, OpKind, String)>,
}

#[derive(Clone, Debug, Default)]
pub struct MonCfg {
    /// accept short counts on write (legal `Write` behaviour)
    pub short_writes: bool,
    /// log ReadBytes events (high volume)
    pub log_reads: bool,
    /// seeded scheduling noise at op boundaries (0 = off): probability per 1000
    pub noise_permille: u32,
    pub noise_seed: u64,
    /// keep write payloads in the log (needed for crash images)
    pub keep_payloads: bool,
    /// online monitors
    pub monitors: bool,
}

#[derive(Clone, Debug)]
pub struct MonViolation {
    pub sig: String,
    pub detail: Value,
}

struct State {
    next_inode: u64,
    inodes: HashMap<u64, Inode>,
    visible: BTreeMap<String, u64>,
    /// paths whose creation/rename has not been made durable by a sync_directory yet
    unsynced_entries: BTreeSet<String>,
    ever_existed: BTreeSet<String>,
    deleted: BTreeSet<String>,
    locks: HashMap<String, String>,
    log: Vec<Event>,
    seq: u64,
    faults: Vec<FaultRule>,
    dead: bool,
    gates: Vec<GateState>,
    violations: Vec<MonViolation>,
    /// lock usage evidence
    meta_lock_acquisitions: u64,
    writer_lock_acquisitions: u64,
    writer_lock_refusals: u64,
    noise_state: u64,
    /// last meta.json bytes (visible)
    meta_visible: Option<Arc<Vec<u8>>>,
    /// meta.json as of the last sync_directory (what a crash would bring back at worst)
    meta_durable: Option<Arc<Vec<u8>>>,
    /// how long a blocking lock acquisition waits before giving up
    lock_timeout: Duration,
    t1_checks: u64,
    t2_checks: u64,
    t3_checks: u64,
    reads: u64,
    read_after_gc: Vec<String>,
}

struct Inner {
    cfg: MonCfg,
    state: Mutex<State>,
    cond: Condvar,
    watchers: WatchCallbackList,
}

#[derive(Clone)]
pub struct MonDir {
    inner: Arc<Inner>,
}

impl fmt::Debug for MonDir {
    fn fmt(&self, f: &mut fmt::Formatter<'_>) -> fmt::Result {
        write!(f, "MonDir")
    }
}

fn pstr(p: &Path) -> String {
    p.to_string_lossy().into_owned()
}

fn cur_thread_name() -> String {
    thread::current().name().unwrap_or("unnamed").to_string()
}

/// Files a meta.json references: (path, required).
pub fn meta_referenced_files(meta: &[u8]) -> Result<Vec<(String, bool)>, String> {
    let v: Value = serde_json::from_slice(meta).map_err(|e| format!("meta.json unparsable: {e}"))?;
    let segs = v
        .get("segments")
        .and_then(|s| s.as_array())
        .ok_or("meta.json without segments")?;
    let mut out = vec![];
    for s in segs {
        let id = s
            .get("segment_id")
            .and_then(|x| x.as_str())
            .ok_or("segment without id")?
            .replace('-', "");
        for ext in ["idx", "pos", "term", "store", "fast", "fieldnorm"] {
            out.push((format!("{id}.{ext}"), true));
        }
        if let Some(d) = s.get("deletes") {
            if !d.is_null() {
                let op = d
                    .get("opstamp")
                    .and_then(|x| x.as_u64())
                    .ok_or("deletes without opstamp")?;
                out.push((format!("{id}.{op}.del"), true));
            }
        }
    }
    Ok(out)
}

pub fn meta_opstamp(meta: &[u8]) -> Option<u64> {
    let v: Value = serde_json::from_slice(meta).ok()?;
    v.get("opstamp").and_then(|x| x.as_u64())
}

impl MonDir {
    pub fn new(cfg: MonCfg) -> MonDir {
        let noise_state = cfg.noise_seed | 1;
        MonDir {
            inner: Arc::new(Inner {
                cfg,
                state: Mutex::new(State {
                    next_inode: 1,
                    inodes: HashMap::new(),
                    visible: BTreeMap::new(),
                    unsynced_entries: BTreeSet::new(),
                    ever_existed: BTreeSet::new(),
                    deleted: BTreeSet::new(),
                    locks: HashMap::new(),
                    log: Vec::new(),
                    seq: 0,
                    faults: vec![],
                    dead: false,
                    gates: vec![],
                    violations: vec![],
                    meta_lock_acquisitions: 0,
                    writer_lock_acquisitions: 0,
                    writer_lock_refusals: 0,
                    noise_state,
                    meta_visible: None,
                    meta_durable: None,
                    lock_timeout: Duration::from_secs(10),
                    t1_checks: 0,
                    t2_checks: 0,
                    t3_checks: 0,
                    reads: 0,
                    read_after_gc: vec![],
                }),
                cond: Condvar::new(),
                watchers: WatchCallbackList::default(),
            }),
        }
    }

    pub fn default_monitoring() -> MonDir {
        MonDir::new(MonCfg {
            keep_payloads: true,
            monitors: true,
            ..Default::default()
        })
    }

    /// A directory pre-populated with fully durable files (a recovered crash image).
    pub fn from_image(files: &BTreeMap<String, Arc<Vec<u8>>>, cfg: MonCfg) -> MonDir {
        let d = MonDir::new(cfg);
        {
            let mut st = d.lock();
            for (p, data) in files {
                let id = st.next_inode;
                st.next_inode += 1;
                st.inodes.insert(
                    id,
                    Inode {
                        data: vec![],
                        terminated: true,
                        frozen: Some(OwnedBytes::new(ArcVec(data.clone()))),
                    },
                );
                st.visible.insert(p.clone(), id);
                st.ever_existed.insert(p.clone());
                if p == "meta.json" {
                    st.meta_visible = Some(data.clone());
                    st.meta_durable = Some(data.clone());
                }
            }
        }
        d
    }

    pub fn set_lock_timeout(&self, d: Duration) {
        self.lock().lock_timeout = d;
    }

    fn lock(&self) -> MutexGuard<'_, State> {
        self.inner.state.lock().unwrap_or_else(|e| e.into_inner())
    }

    // ---- observation API -------------------------------------------------------------------

    pub fn log(&self) -> Vec<Event> {
        self.lock().log.clone()
    }
    pub fn log_len(&self) -> usize {
        self.lock().log.len()
    }
    pub fn seq(&self) -> u64 {
        self.lock().seq
    }
    pub fn take_violations(&self) -> Vec<MonViolation> {
        std::mem::take(&mut self.lock().violations)
    }
    pub fn list_files(&self) -> Vec<String> {
        self.lock().visible.keys().cloned().collect()
    }
    pub fn file_len(&self, path: &str) -> Option<usize> {
        let st = self.lock();
        let id = *st.visible.get(path)?;
        let ino = st.inodes.get(&id)?;
        Some(match &ino.frozen {
            Some(f) => f.len(),
            None => ino.data.len(),
        })
    }
    /// raw bytes (with footer) of a visible file
    pub fn raw_bytes(&self, path: &str) -> Option<Vec<u8>> {
        let st = self.lock();
        let id = *st.visible.get(path)?;
        let ino = st.inodes.get(&id)?;
        Some(match &ino.frozen {
            Some(f) => f.as_slice().to_vec(),
            None => ino.data.clone(),
        })
    }
    /// snapshot of all visible files (raw bytes)
    pub fn snapshot(&self) -> BTreeMap<String, Arc<Vec<u8>>> {
        let st = self.lock();
        let mut out = BTreeMap::new();
        for (p, id) in &st.visible {
            let ino = &st.inodes[id];
            let bytes = match &ino.frozen {
                Some(f) => f.as_slice().to_vec(),
                None => ino.data.clone(),
            };
            out.insert(p.clone(), Arc::new(bytes));
        }
        out
    }
    pub fn held_locks(&self) -> Vec<String> {
        self.lock().locks.keys().cloned().collect()
    }
    pub fn stats(&self) -> Value {
        let st = self.lock();
        json!({
            "ops": st.log.len(),
            "t1_commit_point_checks": st.t1_checks,
            "t2_write_once_checks": st.t2_checks,
            "t3_delete_checks": st.t3_checks,
            "meta_lock_acquisitions": st.meta_lock_acquisitions,
            "writer_lock_acquisitions": st.writer_lock_acquisitions,
            "writer_lock_refusals": st.writer_lock_refusals,
            "read_bytes_calls": st.reads,
        })
    }
    pub fn counters(&self) -> (u64, u64, u64, u64, u64, u64) {
        let st = self.lock();
        (
            st.t1_checks,
            st.t2_checks,
            st.t3_checks,
            st.meta_lock_acquisitions,
            st.writer_lock_acquisitions,
            st.writer_lock_refusals,
        )
    }

    /// Records a client event (call / return of a public API call made by the workload).
    pub fn client_event(&self, what: &str, note: &str) -> u64 {
        let mut st = self.lock();
        st.seq += 1;
        let seq = st.seq;
        let tname = cur_thread_name();
        st.log.push(Event {
            seq,
            role: role_of(&tname),
            tname,
            kind: OpKind::Client,
            path: what.to_string(),
            len: 0,
            ok: true,
            data: None,
            inode: 0,
            note: note.to_string(),
        });
        seq
    }

    // ---- faults and gates ------------------------------------------------------------------

    pub fn add_fault(&self, pred: OpPred, nth: u64, mode: FaultMode, err: io::ErrorKind) {
        self.lock().faults.push(FaultRule {
            pred,
            nth,
            mode,
            err,
            short_write: false,
            seen: 0,
            fired: 0,
        });
    }
    /// legal but hostile: matching writes accept only a short count (never an error)
    pub fn add_short_writes(&self, pred: OpPred, nth: u64, mode: FaultMode) {
        self.lock().faults.push(FaultRule {
            pred,
            nth,
            mode,
            err: io::ErrorKind::Other,
            short_write: true,
            seen: 0,
            fired: 0,
        });
    }
    pub fn clear_faults(&self) {
        let mut st = self.lock();
        st.faults.clear();
        st.dead = false;
    }
    pub fn faults_fired(&self) -> u64 {
        self.lock().faults.iter().map(|f| f.fired).sum()
    }

    /// Installs a gate: the thread issuing the `nth` (0-based) op matching `pred` parks right
    /// before the op until `release_gate`. Returns the gate index.
    pub fn add_gate(&self, pred: OpPred, nth: u64) -> usize {
        let mut st = self.lock();
        st.gates.push(GateState {
            pred,
            nth,
            seen: 0,
            parked: false,
            released: false,
            parked_event: None,
        });
        st.gates.len() - 1
    }
    /// waits until some thread is parked at the gate
    pub fn wait_parked(&self, gate: usize, timeout: Duration) -> bool {
        let deadline = Instant::now() + timeout;
        let mut st = self.lock();
        loop {
            if st.gates[gate].parked {
                return true;
            }
            let now = Instant::now();
            if now >= deadline {
                return false;
            }
            let (g, _) = self
                .inner
                .cond
                .wait_timeout(st, deadline - now)
                .unwrap_or_else(|e| e.into_inner());
            st = g;
        }
    }
    pub fn gate_parked_at(&self, gate: usize) -> Option<(String, OpKind, String)> {
        self.lock().gates[gate].parked_event.clone()
    }
    pub fn release_gate(&self, gate: usize) {
        let mut st = self.lock();
        st.gates[gate].released = true;
        self.inner.cond.notify_all();
    }
    pub fn release_all_gates(&self) {
        let mut st = self.lock();
        for g in st.gates.iter_mut() {
            g.released = true;
        }
        self.inner.cond.notify_all();
    }

    // ---- the op prologue: gates, noise, faults ----------------------------------------------

    /// Called before each storage op, without the state lock held by the caller.
    /// Returns Err if a fault fires; Ok(short) where short is true when a short write is chosen.
    fn prologue(&self, kind: OpKind, path: &str) -> io::Result<bool> {
        let tname = cur_thread_name();
        let role = role_of(&tname);
        let mut st = self.park_at_gates(kind, path, &tname, role);
        // noise
        let mut do_yield = 0u32;
        if self.inner.cfg.noise_permille > 0 && path != ".managed.json" {
            let mut x = st.noise_state;
            x ^= x << 13;
            x ^= x >> 7;
            x ^= x << 17;
            st.noise_state = x;
            if (x % 1000) < self.inner.cfg.noise_permille as u64 {
                do_yield = 1 + ((x >> 20) % 3) as u32;
            }
        }
        self.prologue_faults(st, kind, path, role, do_yield)
    }

    /// Gate point reached AFTER an operation that has no prologue (a lock release): parks the
    /// calling thread if a gate matches.
    fn gate_point_after(&self, kind: OpKind, path: &str) {
        let tname = cur_thread_name();
        let role = role_of(&tname);
        drop(self.park_at_gates(kind, path, &tname, role));
    }

    /// gates: parks the calling thread while a matching gate is closed; returns the state lock
    fn park_at_gates<'a>(&'a self, kind: OpKind, path: &str, tname: &str, role: &str) -> std::sync::MutexGuard<'a, State> {
        let mut st = self.lock();
        // gates (never on .managed.json: it is written under ManagedDirectory's own write lock)
        if path != ".managed.json" {
            let mut park_at: Option<usize> = None;
            for (i, g) in st.gates.iter_mut().enumerate() {
                if g.released || g.parked {
                    continue;
                }
                if g.pred.matches(kind, role, path) {
                    if g.seen == g.nth {
                        g.parked = true;
                        g.parked_event = Some((tname.to_string(), kind, path.to_string()));
                        park_at = Some(i);
                        g.seen += 1;
                        break;
                    }
                    g.seen += 1;
                }
            }
            if let Some(i) = park_at {
                self.inner.cond.notify_all();
                let hard_deadline = Instant::now() + Duration::from_secs(120);
                while !st.gates[i].released {
                    let now = Instant::now();
                    if now >= hard_deadline {
                        st.gates[i].released = true;
                        break;
                    }
                    let (g, _) = self
                        .inner
                        .cond
                        .wait_timeout(st, hard_deadline - now)
                        .unwrap_or_else(|e| e.into_inner());
                    st = g;
                }
            }
        }
        st
    }

    fn prologue_faults(
        &self,
        mut st: std::sync::MutexGuard<'_, State>,
        kind: OpKind,
        path: &str,
        role: &str,
        do_yield: u32,
    ) -> io::Result<bool> {
        // faults
        let mut result: io::Result<bool> = Ok(false);
        if st.dead && kind != OpKind::LockRelease {
            result = Err(io::Error::new(io::ErrorKind::Other, "injected: storage dead"));
        } else {
            let mut kill = false;
            for f in st.faults.iter_mut() {
                if !f.pred.matches(kind, role, path) {
                    continue;
                }
                let idx = f.seen;
                f.seen += 1;
                let fire = match f.mode {
                    FaultMode::Once => idx == f.nth,
                    FaultMode::Permanent | FaultMode::Dead => idx >= f.nth,
                };
                if fire {
                    f.fired += 1;
                    if f.mode == FaultMode::Dead {
                        kill = true;
                    }
                    if f.short_write && kind == OpKind::Write {
                        result = Ok(true);
                    } else {
                        result = Err(io::Error::new(
                            f.err,
                            format!("injected fault at {}#{} {}", kind.name(), idx, path),
                        ));
                    }
                    break;
                }
            }
            if kill {
                st.dead = true;
            }
        }
        drop(st);
        for _ in 0..do_yield {
            thread::yield_now();
        }
        if do_yield == 3 {
            thread::sleep(Duration::from_micros(100));
        }
        result
    }

    fn push_event(
        st: &mut State,
        kind: OpKind,
        path: &str,
        len: usize,
        ok: bool,
        data: Option<Arc<Vec<u8>>>,
        inode: u64,
        note: &str,
    ) {
        st.seq += 1;
        let tname = cur_thread_name();
        let seq = st.seq;
        st.log.push(Event {
            seq,
            role: role_of(&tname),
            tname,
            kind,
            path: path.to_string(),
            len,
            ok,
            data,
            inode,
            note: note.to_string(),
        });
    }

    fn viol(st: &mut State, sig: &str, detail: Value) {
        if st.violations.len() < 100 {
            st.violations.push(MonViolation {
                sig: sig.to_string(),
                detail,
            });
        }
    }

    /// T1: at the commit point every referenced file is complete and its entry durable.
    fn monitor_commit_point(st: &mut State, new_meta: &[u8]) {
        st.t1_checks += 1;
        match meta_referenced_files(new_meta) {
            Err(e) => Self::viol(st, "T1:meta-unparsable", json!({ "error": e })),
            Ok(files) => {
                for (f, _req) in files {
                    match st.visible.get(&f).copied() {
                        None => Self::viol(
                            st,
                            &format!("T1:referenced-file-missing:{}", file_kind(&f)),
                            json!({"file": f}),
                        ),
                        Some(id) => {
                            let term = st.inodes[&id].terminated;
                            if !term {
                                Self::viol(
                                    st,
                                    &format!("T1:referenced-file-not-terminated:{}", file_kind(&f)),
                                    json!({"file": f}),
                                );
                            }
                            if st.unsynced_entries.contains(&f) {
                                Self::viol(
                                    st,
                                    &format!("T1:referenced-file-entry-not-synced:{}", file_kind(&f)),
                                    json!({"file": f}),
                                );
                            }
                        }
                    }
                }
            }
        }
    }

    fn get_bytes(&self, path: &Path, kind: OpKind) -> Result<OwnedBytes, OpenReadError> {
        let p = pstr(path);
        if let Err(e) = self.prologue(kind, &p) {
            let mut st = self.lock();
            Self::push_event(&mut st, kind, &p, 0, false, None, 0, "fault");
            return Err(OpenReadError::wrap_io_error(e, path.to_path_buf()));
        }
        let mut st = self.lock();
        match st.visible.get(&p).copied() {
            None => {
                if st.deleted.contains(&p) && p != ".managed.json" && !p.ends_with(".lock") {
                    // a path that existed and was deleted is being opened: read-after-GC
                    let who = role_of(&cur_thread_name());
                    st.read_after_gc.push(format!("{who}:{}", file_kind(&p)));
                }
                Self::push_event(&mut st, kind, &p, 0, false, None, 0, "not-found");
                Err(OpenReadError::FileDoesNotExist(path.to_path_buf()))
            }
            Some(id) => {
                let ino = st.inodes.get(&id).unwrap();
                let bytes = match &ino.frozen {
                    Some(f) => f.clone(),
                    None => {
                        let b = OwnedBytes::new(ino.data.clone());
                        if self.inner.cfg.monitors && file_kind(&p) != "lock" {
                            st.t2_checks += 1;
                            Self::viol(
                                &mut st,
                                &format!("T2:read-before-terminate:{}", file_kind(&p)),
                                json!({"file": p}),
                            );
                        }
                        b
                    }
                };
                let len = bytes.len();
                Self::push_event(&mut st, kind, &p, len, true, None, id, "");
                Ok(bytes)
            }
        }
    }

    pub fn read_after_gc_events(&self) -> Vec<String> {
        self.lock().read_after_gc.clone()
    }

    /// Segment ids a merge thread has started writing (`<id>.store` created by role merge) and
    /// not finished (the same file terminated) or abandoned (a failed operation on one of the
    /// segment's files). A merge thread of a writer that was rolled back / dropped keeps
    /// running; nothing in the API waits for it, so quiescence has to be observed here.
    pub fn merges_in_flight(&self) -> Vec<String> {
        let st = self.lock();
        let mut open: BTreeSet<String> = BTreeSet::new();
        for e in st.log.iter() {
            let Some((id, ext)) = e.path.split_once('.') else { continue };
            if id.len() != 32 {
                continue;
            }
            if e.kind == OpKind::OpenWrite && e.role == "merge" && ext == "store" && e.ok {
                open.insert(id.to_string());
            } else if open.contains(id) && (!e.ok || (e.kind == OpKind::Terminate && ext == "store")) {
                open.remove(id);
            }
        }
        open.into_iter().collect()
    }

    /// ids of segments whose files were created by a merge thread
    pub fn segment_ids_created_by_merge(&self) -> BTreeSet<String> {
        let st = self.lock();
        st.log
            .iter()
            .filter(|e| e.kind == OpKind::OpenWrite && e.role == "merge")
            .filter_map(|e| e.path.split_once('.').map(|(id, _)| id.to_string()))
            .filter(|id| id.len() == 32)
            .collect()
    }

    /// waits (bounded) until no merge is in flight; false = timed out
    pub fn wait_no_merge_in_flight(&self, max: std::time::Duration) -> bool {
        let t0 = std::time::Instant::now();
        loop {
            if self.merges_in_flight().is_empty() {
                return true;
            }
            if t0.elapsed() > max {
                return false;
            }
            std::thread::sleep(std::time::Duration::from_millis(1));
        }
    }
}

/// `Arc<Vec<u8>>` as a stable-deref byte container
struct ArcVec(Arc<Vec<u8>>);
impl std::ops::Deref for ArcVec {
    type Target = [u8];
    fn deref(&self) -> &[u8] {
        self.0.as_slice()
    }
}
unsafe impl ownedbytes::StableDeref for ArcVec {}

struct MonFile {
    bytes: OwnedBytes,
    dir: MonDir,
    path: String,
}

impl fmt::Debug for MonFile {
    fn fmt(&self, f: &mut fmt::Formatter<'_>) -> fmt::Result {
        write!(f, "MonFile({})", self.path)
    }
}

impl HasLen for MonFile {
    fn len(&self) -> usize {
        self.bytes.len()
    }
}

impl FileHandle for MonFile {
    fn read_bytes(&self, range: Range<usize>) -> io::Result<OwnedBytes> {
        // fast path when no fault / gate / noise is configured
        let need_prologue = {
            let st = self.dir.lock();
            !st.faults.is_empty() || st.dead || self.dir.inner.cfg.log_reads
        };
        if need_prologue {
            self.dir.prologue(OpKind::ReadBytes, &self.path)?;
            let mut st = self.dir.lock();
            st.reads += 1;
            if self.dir.inner.cfg.log_reads {
                MonDir::push_event(
                    &mut st,
                    OpKind::ReadBytes,
                    &self.path,
                    range.len(),
                    true,
                    None,
                    0,
                    "",
                );
            }
        } else {
            COUNT_READS.fetch_add(1, Ordering::Relaxed);
        }
        if range.end > self.bytes.len() || range.start > range.end {
            return Err(io::Error::new(
                io::ErrorKind::InvalidInput,
                format!("read_bytes {:?} out of file of len {}", range, self.bytes.len()),
            ));
        }
        Ok(self.bytes.slice(range))
    }
}

pub static COUNT_READS: AtomicU64 = AtomicU64::new(0);

struct MonWriter {
    dir: MonDir,
    path: String,
    inode: u64,
    terminated: bool,
}

impl Write for MonWriter {
    fn write(&mut self, buf: &[u8]) -> io::Result<usize> {
        let short = self.dir.prologue(OpKind::Write, &self.path).map_err(|e| {
            let mut st = self.dir.lock();
            MonDir::push_event(&mut st, OpKind::Write, &self.path, 0, false, None, self.inode, "fault");
            e
        })?;
        let mut st = self.dir.lock();
        let mut n = buf.len();
        if n > 1 && (short || self.dir.inner.cfg.short_writes) {
            // accept a short count now and then (always when a short-write fault fires)
            let mut x = st.noise_state ^ (st.seq.wrapping_mul(0x9E3779B97F4A7C15));
            x ^= x >> 29;
            x = x.wrapping_mul(0xBF58476D1CE4E5B9);
            x ^= x >> 32;
            if short || x % 5 == 0 {
                n = 1 + (x as usize >> 8) % (n - 1);
            }
        }
        if self.terminated && self.dir.inner.cfg.monitors {
            st.t2_checks += 1;
            MonDir::viol(
                &mut st,
                &format!("T2:write-after-terminate:{}", file_kind(&self.path)),
                json!({"file": self.path}),
            );
        }
        let payload = if self.dir.inner.cfg.keep_payloads {
            Some(Arc::new(buf[..n].to_vec()))
        } else {
            None
        };
        if let Some(ino) = st.inodes.get_mut(&self.inode) {
            ino.data.extend_from_slice(&buf[..n]);
        }
        MonDir::push_event(&mut st, OpKind::Write, &self.path, n, true, payload, self.inode, "");
        Ok(n)
    }

    fn flush(&mut self) -> io::Result<()> {
        if let Err(e) = self.dir.prologue(OpKind::Flush, &self.path) {
            let mut st = self.dir.lock();
            MonDir::push_event(&mut st, OpKind::Flush, &self.path, 0, false, None, self.inode, "fault");
            return Err(e);
        }
        let mut st = self.dir.lock();
        MonDir::push_event(&mut st, OpKind::Flush, &self.path, 0, true, None, self.inode, "");
        Ok(())
    }
}

impl TerminatingWrite for MonWriter {
    fn terminate_ref(&mut self, _: AntiCallToken) -> io::Result<()> {
        if let Err(e) = self.dir.prologue(OpKind::Terminate, &self.path) {
            let mut st = self.dir.lock();
            MonDir::push_event(
                &mut st,
                OpKind::Terminate,
                &self.path,
                0,
                false,
                None,
                self.inode,
                "fault",
            );
            return Err(e);
        }
        let mut st = self.dir.lock();
        self.terminated = true;
        let mut len = 0;
        if let Some(ino) = st.inodes.get_mut(&self.inode) {
            ino.terminated = true;
            let data = std::mem::take(&mut ino.data);
            len = data.len();
            ino.frozen = Some(OwnedBytes::new(data));
        }
        MonDir::push_event(&mut st, OpKind::Terminate, &self.path, len, true, None, self.inode, "");
        Ok(())
    }
}

struct MonLockGuard {
    dir: MonDir,
    path: String,
}

impl Drop for MonLockGuard {
    fn drop(&mut self) {
        let mut st = self.dir.lock();
        st.locks.remove(&self.path);
        MonDir::push_event(&mut st, OpKind::LockRelease, &self.path, 0, true, None, 0, "");
        self.dir.inner.cond.notify_all();
        drop(st);
        // a gate on a lock release parks the thread right AFTER it has released the lock
        self.dir.gate_point_after(OpKind::LockRelease, &self.path);
    }
}

impl Directory for MonDir {
    fn get_file_handle(&self, path: &Path) -> Result<Arc<dyn FileHandle>, OpenReadError> {
        let bytes = self.get_bytes(path, OpKind::OpenRead)?;
        Ok(Arc::new(MonFile {
            bytes,
            dir: self.clone(),
            path: pstr(path),
        }))
    }

    fn delete(&self, path: &Path) -> Result<(), DeleteError> {
        let p = pstr(path);
        if let Err(e) = self.prologue(OpKind::Delete, &p) {
            let mut st = self.lock();
            Self::push_event(&mut st, OpKind::Delete, &p, 0, false, None, 0, "fault");
            return Err(DeleteError::IoError {
                io_error: Arc::new(e),
                filepath: path.to_path_buf(),
            });
        }
        let mut st = self.lock();
        match st.visible.remove(&p) {
            None => {
                Self::push_event(&mut st, OpKind::Delete, &p, 0, false, None, 0, "not-found");
                Err(DeleteError::FileDoesNotExist(path.to_path_buf()))
            }
            Some(id) => {
                if self.inner.cfg.monitors {
                    st.t3_checks += 1;
                    // T3: the file must not be referenced by the visible meta.json
                    if let Some(meta) = st.meta_visible.clone() {
                        if let Ok(files) = meta_referenced_files(&meta) {
                            if files.iter().any(|(f, _)| f == &p) {
                                Self::viol(
                                    &mut st,
                                    &format!("T3:delete-of-referenced-file:{}", file_kind(&p)),
                                    json!({"file": p, "meta_opstamp": meta_opstamp(&meta)}),
                                );
                            }
                        }
                    }
                    if let Some(meta) = st.meta_durable.clone() {
                        if let Ok(files) = meta_referenced_files(&meta) {
                            if files.iter().any(|(f, _)| f == &p) {
                                let detail = json!({"file": p, "durable_meta_opstamp": meta_opstamp(&meta),
                                           "visible_meta_opstamp": st.meta_visible.as_ref().and_then(|m| meta_opstamp(m)),
                                           "deleted_by": cur_thread_name(),
                                           "recent_commit_point_events": st.log.iter().rev()
                                               .filter(|e| e.path == "meta.json" || e.kind == OpKind::SyncDir || e.kind == OpKind::Client || e.path.ends_with("meta.lock"))
                                               .take(14)
                                               .map(|e| format!("{} {} {:?} {} {}", e.seq, e.tname, e.kind, e.path, e.note))
                                               .collect::<Vec<_>>()});
                                Self::viol(
                                    &mut st,
                                    &format!("T3:delete-of-file-referenced-by-durable-meta:{}", file_kind(&p)),
                                    detail,
                                );
                            }
                        }
                    }
                }
                st.deleted.insert(p.clone());
                st.unsynced_entries.remove(&p);
                Self::push_event(&mut st, OpKind::Delete, &p, 0, true, None, id, "");
                Ok(())
            }
        }
    }

    fn exists(&self, path: &Path) -> Result<bool, OpenReadError> {
        let p = pstr(path);
        if let Err(e) = self.prologue(OpKind::Exists, &p) {
            return Err(OpenReadError::wrap_io_error(e, path.to_path_buf()));
        }
        let mut st = self.lock();
        let ex = st.visible.contains_key(&p);
        Self::push_event(&mut st, OpKind::Exists, &p, 0, true, None, 0, if ex { "yes" } else { "no" });
        Ok(ex)
    }

    fn open_write(&self, path: &Path) -> Result<WritePtr, OpenWriteError> {
        let p = pstr(path);
        if let Err(e) = self.prologue(OpKind::OpenWrite, &p) {
            let mut st = self.lock();
            Self::push_event(&mut st, OpKind::OpenWrite, &p, 0, false, None, 0, "fault");
            return Err(OpenWriteError::wrap_io_error(e, path.to_path_buf()));
        }
        let mut st = self.lock();
        if st.visible.contains_key(&p) {
            Self::push_event(&mut st, OpKind::OpenWrite, &p, 0, false, None, 0, "exists");
            return Err(OpenWriteError::FileAlreadyExists(path.to_path_buf()));
        }
        if self.inner.cfg.monitors {
            st.t2_checks += 1;
        }
        let id = st.next_inode;
        st.next_inode += 1;
        st.inodes.insert(
            id,
            Inode {
                data: vec![],
                terminated: false,
                frozen: None,
            },
        );
        st.visible.insert(p.clone(), id);
        st.unsynced_entries.insert(p.clone());
        st.ever_existed.insert(p.clone());
        st.deleted.remove(&p);
        Self::push_event(&mut st, OpKind::OpenWrite, &p, 0, true, None, id, "");
        drop(st);
        let w = MonWriter {
            dir: self.clone(),
            path: p,
            inode: id,
            terminated: false,
        };
        // small buffer so that write boundaries are frequent
        Ok(io::BufWriter::with_capacity(
            4096,
            Box::new(w) as Box<dyn TerminatingWrite + Send + Sync>,
        ))
    }

    fn atomic_read(&self, path: &Path) -> Result<Vec<u8>, OpenReadError> {
        let bytes = self.get_bytes(path, OpKind::AtomicRead)?;
        Ok(bytes.as_slice().to_vec())
    }

    fn atomic_write(&self, path: &Path, data: &[u8]) -> io::Result<()> {
        let p = pstr(path);
        if let Err(e) = self.prologue(OpKind::AtomicWrite, &p) {
            let mut st = self.lock();
            Self::push_event(&mut st, OpKind::AtomicWrite, &p, 0, false, None, 0, "fault");
            return Err(e);
        }
        let payload = Arc::new(data.to_vec());
        {
            let mut st = self.lock();
            if p == "meta.json" && self.inner.cfg.monitors {
                Self::monitor_commit_point(&mut st, data);
            }
            let id = st.next_inode;
            st.next_inode += 1;
            st.inodes.insert(
                id,
                Inode {
                    data: vec![],
                    terminated: true,
                    frozen: Some(OwnedBytes::new(ArcVec(payload.clone()))),
                },
            );
            st.visible.insert(p.clone(), id);
            st.unsynced_entries.insert(p.clone());
            st.ever_existed.insert(p.clone());
            st.deleted.remove(&p);
            if p == "meta.json" {
                st.meta_visible = Some(payload.clone());
            }
            Self::push_event(
                &mut st,
                OpKind::AtomicWrite,
                &p,
                data.len(),
                true,
                Some(payload),
                id,
                "",
            );
        }
        if p == "meta.json" {
            drop(self.inner.watchers.broadcast());
        }
        Ok(())
    }

    fn sync_directory(&self) -> io::Result<()> {
        if let Err(e) = self.prologue(OpKind::SyncDir, "") {
            let mut st = self.lock();
            Self::push_event(&mut st, OpKind::SyncDir, "", 0, false, None, 0, "fault");
            return Err(e);
        }
        let mut st = self.lock();
        st.unsynced_entries.clear();
        st.meta_durable = st.meta_visible.clone();
        Self::push_event(&mut st, OpKind::SyncDir, "", 0, true, None, 0, "");
        Ok(())
    }

    fn acquire_lock(&self, lock: &Lock) -> Result<DirectoryLock, LockError> {
        let p = pstr(&lock.filepath);
        if let Err(e) = self.prologue(OpKind::LockAcquire, &p) {
            let mut st = self.lock();
            Self::push_event(&mut st, OpKind::LockAcquire, &p, 0, false, None, 0, "fault");
            return Err(LockError::wrap_io_error(e));
        }
        let tname = cur_thread_name();
        let mut st = self.lock();
        let deadline = Instant::now() + st.lock_timeout;
        loop {
            if !st.locks.contains_key(&p) {
                st.locks.insert(p.clone(), tname.clone());
                if p == ".tantivy-meta.lock" {
                    st.meta_lock_acquisitions += 1;
                } else if p == ".tantivy-writer.lock" {
                    st.writer_lock_acquisitions += 1;
                }
                Self::push_event(&mut st, OpKind::LockAcquire, &p, 0, true, None, 0, "");
                return Ok(DirectoryLock::from(Box::new(MonLockGuard {
                    dir: self.clone(),
                    path: p,
                })));
            }
            if !lock.is_blocking || Instant::now() >= deadline {
                if p == ".tantivy-writer.lock" {
                    st.writer_lock_refusals += 1;
                }
                Self::push_event(&mut st, OpKind::LockAcquire, &p, 0, false, None, 0, "busy");
                return Err(LockError::LockBusy);
            }
            let wait = deadline - Instant::now();
            let (g, _) = self
                .inner
                .cond
                .wait_timeout(st, wait.min(Duration::from_millis(50)))
                .unwrap_or_else(|e| e.into_inner());
            st = g;
        }
    }

    fn watch(&self, watch_callback: WatchCallback) -> tantivy::Result<WatchHandle> {
        Ok(self.inner.watchers.subscribe(watch_callback))
    }
}
