//! Helpers of the C07 check: the naive model inverted index + segment builder (`model`) and the
//! read-back comparison (`verify`).
pub mod model;
pub mod verify;
