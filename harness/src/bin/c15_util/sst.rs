// sstable stream (included into c15.rs)

/// Records a violation, but at most 3 witnesses per signature per worker thread, so that a
/// frequently hit (known) finding cannot exhaust the report's violation capacity.
fn viol(rep: &mut Report, sig: impl Into<String>, detail: Value) {
    let sig = sig.into();
    if rep.violations.iter().filter(|v| v.sig == sig).count() < 3 {
        rep.violation(sig, detail);
    } else {
        rep.count(&format!("repeats_not_recorded:{sig}"), 1);
    }
}

struct Fails {
    v: Vec<(String, Value)>,
}

impl Fails {
    fn new() -> Self {
        Fails { v: vec![] }
    }
    fn add(&mut self, sig: &str, detail: Value) {
        // one witness per signature per dictionary is enough
        if !self.v.iter().any(|(s, _)| s == sig) {
            self.v.push((sig.to_string(), detail));
        }
    }
}

trait ValGen: SSTable
where Self::Value: PartialEq + Debug + Clone
{
    const NAME: &'static str;
    fn gen(rng: &mut Rng, n: usize) -> Vec<Self::Value>;
}

impl ValGen for VoidSSTable {
    const NAME: &'static str = "void";
    fn gen(_rng: &mut Rng, n: usize) -> Vec<()> {
        vec![(); n]
    }
}

impl ValGen for MonotonicU64SSTable {
    const NAME: &'static str = "u64mono";
    fn gen(rng: &mut Rng, n: usize) -> Vec<u64> {
        let mut cur = if rng.bool() { 0 } else { rng.below(1 << 40) };
        let mode = rng.below(3);
        (0..n)
            .map(|_| {
                cur += match mode {
                    0 => rng.below(3),
                    1 => rng.below(1000),
                    _ => *rng.pick(&[0u64, 1, 127, 128, 16_383, 16_384, 1 << 33]),
                };
                cur
            })
            .collect()
    }
}

impl ValGen for RangeSSTable {
    const NAME: &'static str = "range";
    fn gen(rng: &mut Rng, n: usize) -> Vec<std::ops::Range<u64>> {
        let mut cur = if rng.bool() { 0 } else { rng.below(1 << 40) };
        (0..n)
            .map(|_| {
                let len = *rng.pick(&[0u64, 0, 1, 5, 127, 128, 300, 70_000, 1 << 32]);
                let r = cur..cur + len;
                cur += len;
                r
            })
            .collect()
    }
}

impl ValGen for VecU32ValueSSTable {
    const NAME: &'static str = "vecu32";
    fn gen(rng: &mut Rng, n: usize) -> Vec<Vec<u32>> {
        (0..n)
            .map(|_| {
                let l = rng.urange(0, 4);
                (0..l)
                    .map(|_| *rng.pick(&[0u32, 1, 127, 128, 65_536, u32::MAX]))
                    .collect()
            })
            .collect()
    }
}

fn pick_block_len(rng: &mut Rng) -> Option<usize> {
    *rng.pick(&[
        Some(16usize),
        Some(16),
        Some(17),
        Some(20),
        Some(32),
        Some(50),
        Some(64),
        Some(128),
        Some(300),
        Some(1000),
        Some(2048),
        Some(3999),
        Some(4000),
        None,
        None,
    ])
}

/// Builds an sstable file through the real writer.
fn build_sst<T: ValGen>(
    keys: &[Vec<u8>],
    vals: &[T::Value],
    block_len: Option<usize>,
) -> Result<Vec<u8>, String>
where
    T::Value: PartialEq + Debug + Clone,
{
    let mut b = Dictionary::<T>::builder(Vec::new()).map_err(|e| format!("builder: {e}"))?;
    if let Some(bl) = block_len {
        b.set_block_len(bl);
    }
    for (k, v) in keys.iter().zip(vals) {
        b.insert(k, v).map_err(|e| format!("insert: {e}"))?;
    }
    b.finish().map_err(|e| format!("finish: {e}"))
}

/// Opens the bytes, optionally embedded in a larger file (offsets must be slice-relative).
fn open_sst<T: SSTable>(bytes: Vec<u8>, rng: &mut Rng) -> std::io::Result<Dictionary<T>> {
    match rng.below(3) {
        0 => Dictionary::<T>::from_bytes(OwnedBytes::new(bytes)),
        1 => Dictionary::<T>::open(FileSlice::from(bytes)),
        _ => {
            let pre = rng.urange(1, 40);
            let post = rng.urange(1, 40);
            let mut padded = rng.bytes(pre);
            let len = bytes.len();
            padded.extend_from_slice(&bytes);
            padded.extend(rng.bytes(post));
            Dictionary::<T>::open(FileSlice::from(padded).slice(pre..pre + len))
        }
    }
}

fn block_first_ordinals<T: SSTable>(dict: &Dictionary<T>) -> Vec<usize> {
    dict.sstable_index
        .get_block_for_automaton(&AlwaysMatch)
        .map(|(_, addr)| addr.first_ordinal as usize)
        .collect()
}

fn dict_witness(keys: &[Vec<u8>], info: &Value) -> Value {
    let total: usize = keys.iter().map(|k| k.len()).sum();
    if keys.len() <= 40 && total <= 1500 {
        json!({"dict": info, "keys_hex": keys.iter().map(|k| hex(k)).collect::<Vec<_>>()})
    } else {
        json!({"dict": info, "num_keys": keys.len(), "total_key_bytes": total,
               "first_key": keys.first().map(|k| brief(k)), "last_key": keys.last().map(|k| brief(k))})
    }
}

fn drain_sst<T: SSTable, A: Automaton>(
    mut s: tantivy_sstable::Streamer<'_, T, A>,
) -> Vec<(Vec<u8>, T::Value, u64)>
where A::State: Clone {
    let mut out = vec![];
    while s.advance() {
        out.push((s.key().to_vec(), s.value().clone(), s.term_ord()));
    }
    out
}

enum StreamOut<V> {
    Got(Vec<(Vec<u8>, V, u64)>),
    IoErr(String),
    Panic(PanicInfo),
}

/// into_stream + drain, with panics of the dictionary code captured per query.
fn run_sst_stream<T: SSTable, A: Automaton>(
    b: tantivy_sstable::StreamerBuilder<'_, T, A>,
) -> StreamOut<T::Value>
where A::State: Clone {
    match guarded(|| b.into_stream().map(drain_sst)) {
        Ok(Ok(v)) => StreamOut::Got(v),
        Ok(Err(e)) => StreamOut::IoErr(e.to_string()),
        Err(p) => StreamOut::Panic(p),
    }
}

fn inverted(lo: &Bound<Vec<u8>>, hi: &Bound<Vec<u8>>) -> bool {
    match (lo, hi) {
        (Bound::Included(a) | Bound::Excluded(a), Bound::Included(b) | Bound::Excluded(b)) => a > b,
        _ => false,
    }
}

/// A panic while streaming: the known shape (inverted bounds whose keys live in different
/// blocks make `file_slice_for_range` build a slice with end < start) gets its own key.
fn stream_panic(fails: &mut Fails, tag: &str, p: &PanicInfo, lo: &Bound<Vec<u8>>, hi: &Bound<Vec<u8>>, q: Value) {
    if inverted(lo, hi) && p.message.contains("end >= start") {
        fails.add("sst:range:panic-on-inverted-bounds-in-different-blocks", json!({"query": q, "panic": p.message, "at": p.location}));
    } else {
        fails.add(&format!("{tag}:{}", p.sig()), json!({"query": q, "panic": p.message, "at": p.location}));
    }
}

/// Compares a streamed result with the expected ordinals. `limit`: see the assumptions.
#[allow(clippy::too_many_arguments)]
fn cmp_stream<V: PartialEq + Debug>(
    fails: &mut Fails,
    tag: &str,
    ord_sig: &str,
    got: &[(Vec<u8>, V, u64)],
    expected: &[usize],
    keys: &[Vec<u8>],
    vals: &[V],
    limit: Option<u64>,
    query: Value,
) {
    let exp_len_ok = match limit {
        None => got.len() == expected.len(),
        Some(l) => got.len() <= expected.len() && got.len() as u64 >= l.min(expected.len() as u64),
    };
    if !exp_len_ok {
        fails.add(
            &format!("{tag}:wrong-number-of-keys"),
            json!({"query": query, "got_len": got.len(), "expected_len": expected.len(), "limit": limit,
                   "got_head": got.iter().take(5).map(|g| brief(&g.0)).collect::<Vec<_>>(),
                   "expected_head": expected.iter().take(5).map(|&i| brief(&keys[i])).collect::<Vec<_>>()}),
        );
        return;
    }
    for (pos, (g, &ei)) in got.iter().zip(expected).enumerate() {
        if g.0 != keys[ei] {
            fails.add(
                &format!("{tag}:wrong-key"),
                json!({"query": query, "position": pos, "got": brief(&g.0), "expected": brief(&keys[ei])}),
            );
            return;
        }
        if g.1 != vals[ei] {
            fails.add(
                &format!("{tag}:wrong-value"),
                json!({"query": query, "position": pos, "key": brief(&g.0),
                       "got": format!("{:?}", g.1), "expected": format!("{:?}", vals[ei])}),
            );
            return;
        }
    }
    for (pos, (g, &ei)) in got.iter().zip(expected).enumerate() {
        if g.2 != ei as u64 {
            fails.add(
                ord_sig,
                json!({"query": query, "position": pos, "key": brief(&g.0), "got_term_ord": g.2, "expected_term_ord": ei}),
            );
            return;
        }
    }
}

fn sst_generic<T: ValGen>(case: u64, rng: &mut Rng, rep: &mut Report, thorough: bool)
where T::Value: PartialEq + Debug + Clone {
    let n = pick_n(rng, thorough);
    let (keys, class) = gen_keys(rng, n);
    let n = keys.len();
    let vals = T::gen(rng, n);
    let block_len = pick_block_len(rng);
    let bl_label = block_len.map(|b| b.to_string()).unwrap_or_else(|| "default".into());
    let mut info = json!({"target": "sstable", "value_type": T::NAME, "key_class": class, "n": n, "block_len": bl_label});
    let bytes = match build_sst::<T>(&keys, &vals, block_len) {
        Ok(b) => b,
        Err(e) => {
            viol(rep, "sst:api-error:build", json!({"error": e, "witness": dict_witness(&keys, &info)}));
            return;
        }
    };
    let file_len = bytes.len();
    let dict = match open_sst::<T>(bytes, rng) {
        Ok(d) => d,
        Err(e) => {
            viol(rep, "sst:api-error:open", json!({"error": e.to_string(), "witness": dict_witness(&keys, &info)}));
            return;
        }
    };
    rep.eval();
    let edges = block_first_ordinals(&dict);
    let nblocks = edges.len();
    info["blocks"] = json!(nblocks);
    info["file_len"] = json!(file_len);
    rep.observe("sst_value_type", T::NAME);
    rep.observe("sst_block_len", bl_label.clone());
    rep.observe("sst_block_count_class", bucket(nblocks));
    rep.observe("sst_block_store_layers", format!("{} addr-store block(s)", nblocks.div_ceil(128).min(9)));
    rep.observe("sst_key_class", class.clone());
    rep.observe("num_keys_class", bucket(n));
    for k in keys.iter().take(3000) {
        rep.observe("key_len_class", len_class(k.len()));
    }
    rep.count("sst_dictionaries", 1);
    rep.count("sst_blocks", nblocks as u64);
    rep.count("keys", n as u64);

    // the oracle
    let model: BTreeMap<Vec<u8>, (usize, T::Value)> = keys
        .iter()
        .cloned()
        .zip(vals.iter().cloned().enumerate())
        .collect();
    let mut fails = Fails::new();
    let mut queries = 0u64;

    // num_terms
    if dict.num_terms() != n {
        fails.add("sst:num_terms", json!({"got": dict.num_terms(), "expected": n}));
    }
    // full stream
    match dict.stream() {
        Ok(s) => {
            let got = drain_sst(s);
            let expected: Vec<usize> = (0..n).collect();
            cmp_stream(&mut fails, "sst:stream", "sst:stream:wrong-term_ord", &got, &expected, &keys, &vals, None, json!("stream()"));
        }
        Err(e) => fails.add("sst:api-error:stream", json!(e.to_string())),
    }
    queries += 1;

    let timing = std::env::var("C15_TIMING").is_ok();
    let t0 = std::time::Instant::now();
    let lap = |what: &str| {
        if timing {
            eprintln!("  [{}] {what} at {:.2}s", T::NAME, t0.elapsed().as_secs_f64());
        }
    };
    lap("built+streamed");
    // point lookups
    let nprobe = if n > 3000 { 60 } else { 40 };
    let probes = gen_probes(rng, &keys, &edges, nprobe);
    for p in &probes {
        queries += 3;
        let exp = model.get(p);
        match dict.get(p) {
            Ok(got) => {
                if got.as_ref() != exp.map(|e| &e.1) {
                    fails.add("sst:get", json!({"key": brief(p), "got": format!("{got:?}"), "expected": format!("{:?}", exp.map(|e| &e.1))}));
                }
            }
            Err(e) => fails.add("sst:api-error:get", json!({"key": brief(p), "error": e.to_string()})),
        }
        match dict.term_ord(p) {
            Ok(got) => {
                if got != exp.map(|e| e.0 as u64) {
                    fails.add("sst:term_ord", json!({"key": brief(p), "got": got, "expected": exp.map(|e| e.0)}));
                }
            }
            Err(e) => fails.add("sst:api-error:term_ord", json!({"key": brief(p), "error": e.to_string()})),
        }
        match dict.term_ord_or_next(p) {
            Ok(got) => {
                let succ = model.range::<[u8], _>((Bound::Included(&p[..]), Bound::Unbounded)).next();
                let ok = match (exp, succ, &got) {
                    (Some(e), _, TermOrdHit::Exact(o)) => *o == e.0 as u64,
                    (None, Some((_, s)), TermOrdHit::Next(o)) => *o == s.0 as u64,
                    (None, None, TermOrdHit::Next(o)) => *o >= n as u64,
                    _ => false,
                };
                rep.observe(
                    "term_ord_or_next_outcome",
                    match (exp.is_some(), succ.is_some()) {
                        (true, _) => "exact",
                        (false, true) => "next",
                        (false, false) => "past-the-end",
                    },
                );
                if !ok {
                    fails.add("sst:term_ord_or_next", json!({"key": brief(p), "got": format!("{got:?}"),
                        "expected_exact": exp.map(|e| e.0), "expected_next": succ.map(|s| (s.1).0)}));
                }
            }
            Err(e) => fails.add("sst:api-error:term_ord_or_next", json!({"key": brief(p), "error": e.to_string()})),
        }
    }

    lap("points");
    // ordinal -> key / value
    let mut ords: Vec<u64> = vec![0, n as u64, n as u64 + 1, u64::MAX, (n as u64).saturating_sub(1)];
    for &e in edges.iter().take(400) {
        if rng.chance(1, 3) || edges.len() < 12 {
            ords.push(e as u64);
            ords.push((e as u64).saturating_sub(1));
        }
    }
    for _ in 0..20 {
        if n > 0 {
            ords.push(rng.below(n as u64));
        }
    }
    for &o in &ords {
        queries += 2;
        let mut buf = if rng.bool() { vec![] } else { b"dirty-buffer".to_vec() };
        match dict.ord_to_term(o, &mut buf) {
            Ok(found) => {
                let exp = keys.get(o as usize).filter(|_| o < n as u64);
                let ok = match exp {
                    Some(k) => found && &buf == k,
                    None => !found,
                };
                if !ok {
                    fails.add("sst:ord_to_term", json!({"ord": o, "found": found, "got": brief(&buf), "expected": exp.map(|k| brief(k))}));
                }
            }
            Err(e) => fails.add("sst:api-error:ord_to_term", json!({"ord": o, "error": e.to_string()})),
        }
        match dict.term_info_from_ord(o) {
            Ok(got) => {
                let exp = vals.get(o as usize).filter(|_| o < n as u64);
                if got.as_ref() != exp {
                    fails.add("sst:term_info_from_ord", json!({"ord": o, "got": format!("{got:?}"), "expected": format!("{exp:?}")}));
                }
            }
            Err(e) => fails.add("sst:api-error:term_info_from_ord", json!({"ord": o, "error": e.to_string()})),
        }
    }
    if n > 0 {
        let mut sorted: Vec<u64> = ords.iter().copied().filter(|&o| o < n as u64).collect();
        sorted.sort();
        let mut got: Vec<Vec<u8>> = vec![];
        queries += 1;
        match dict.sorted_ords_to_term_cb(&sorted, |b| got.push(b.to_vec())) {
            Ok(all) => {
                let exp: Vec<&Vec<u8>> = sorted.iter().map(|&o| &keys[o as usize]).collect();
                if !all || got.iter().collect::<Vec<_>>() != exp {
                    let pos = got.iter().zip(&exp).position(|(g, e)| &g != e);
                    fails.add("sst:sorted_ords_to_term_cb", json!({"ords": sorted.iter().take(30).collect::<Vec<_>>(), "all_found": all,
                        "first_difference_at": pos, "got_len": got.len(), "expected_len": exp.len()}));
                }
            }
            Err(e) => fails.add("sst:api-error:sorted_ords_to_term_cb", json!(e.to_string())),
        }
    }

    lap("ords");
    // ranges
    let nrange = if n > 3000 { 24 } else { 36 };
    for _ in 0..nrange {
        queries += 1;
        let lo = gen_bound(rng, &probes, true);
        let hi = gen_bound(rng, &probes, false);
        let limit = match rng.below(8) {
            0 => Some(0u64),
            1 => Some(1),
            2 => Some(rng.below(20)),
            3 => Some(rng.below(n as u64 + 2)),
            _ => None,
        };
        let expected: Vec<usize> = (0..n).filter(|&i| in_bounds(&keys[i], &lo, &hi)).collect();
        let shape = range_shape(&lo, &hi);
        rep.observe("range_shape", format!("{shape}{}", match limit { None => "", Some(0) => ",limit0", Some(1) => ",limit1", Some(_) => ",limitN" }));
        rep.observe("range_result", bucket(expected.len()));
        let q = json!({"lower": brief_bound(&lo), "upper": brief_bound(&hi), "limit": limit});
        let mut b = dict.range();
        b = match &lo {
            Bound::Included(k) => b.ge(k),
            Bound::Excluded(k) => b.gt(k),
            Bound::Unbounded => b,
        };
        b = match &hi {
            Bound::Included(k) => b.le(k),
            Bound::Excluded(k) => b.lt(k),
            Bound::Unbounded => b,
        };
        if let Some(l) = limit {
            b = b.limit(l);
        }
        match run_sst_stream(b) {
            StreamOut::Got(got) => {
                cmp_stream(&mut fails, "sst:range", "sst:range:wrong-term_ord", &got, &expected, &keys, &vals, limit, q.clone());
            }
            StreamOut::IoErr(e) => fails.add("sst:api-error:range", json!({"query": q, "error": e})),
            StreamOut::Panic(p) => stream_panic(&mut fails, "sst:range", &p, &lo, &hi, q.clone()),
        }
        // the same bounds as ordinals
        if rng.chance(1, 3) {
            queries += 1;
            match dict.term_bounds_to_ord(lo.clone(), hi.clone()) {
                Ok((olo, ohi)) => {
                    let a = match olo {
                        Bound::Included(x) => x,
                        Bound::Excluded(x) => x.saturating_add(1),
                        Bound::Unbounded => 0,
                    }
                    .min(n as u64);
                    let b = match ohi {
                        Bound::Included(x) => x.saturating_add(1),
                        Bound::Excluded(x) => x,
                        Bound::Unbounded => n as u64,
                    }
                    .min(n as u64);
                    let got: Vec<usize> = (a..b.max(a)).map(|x| x as usize).collect();
                    if got != expected {
                        fails.add("sst:term_bounds_to_ord", json!({"query": q, "got": format!("{olo:?}..{ohi:?}"),
                            "expected_first": expected.first(), "expected_len": expected.len()}));
                    }
                }
                Err(e) => fails.add("sst:api-error:term_bounds_to_ord", json!({"query": q, "error": e.to_string()})),
            }
        }
    }

    lap("ranges");
    // prefix ranges
    for _ in 0..10 {
        queries += 1;
        let p = if rng.chance(1, 6) || probes.is_empty() {
            rng.pick(&[vec![], vec![0xFF], vec![0xFF, 0xFF], vec![0], vec![b'a', 0xFF]]).clone()
        } else {
            let k = &probes[rng.usize_below(probes.len())];
            let l = rng.usize_below(k.len().min(300) + 1);
            let mut p = k[..l].to_vec();
            if rng.chance(1, 5) {
                p.push(0xFF);
            }
            p
        };
        let limit = if rng.chance(1, 4) { Some(rng.below(5)) } else { None };
        let expected: Vec<usize> = (0..n).filter(|&i| keys[i].starts_with(&p)).collect();
        rep.observe("prefix_result", bucket(expected.len()));
        let q = json!({"prefix_range": brief(&p), "limit": limit});
        let mut b = dict.prefix_range(&p);
        if let Some(l) = limit {
            b = b.limit(l);
        }
        match run_sst_stream(b) {
            StreamOut::Got(got) => {
                cmp_stream(&mut fails, "sst:prefix_range", "sst:prefix_range:wrong-term_ord", &got, &expected, &keys, &vals, limit, q);
            }
            StreamOut::IoErr(e) => fails.add("sst:api-error:prefix_range", json!({"query": q, "error": e})),
            StreamOut::Panic(p) => stream_panic(&mut fails, "sst:prefix_range", &p, &Bound::Unbounded, &Bound::Unbounded, q),
        }
    }

    lap("prefix");
    // automaton searches (the automaton is ours; expectation = automaton run over every key)
    let total_key_bytes: usize = keys.iter().map(|k| k.len()).sum();
    let nauto = if total_key_bytes > 300_000 { 4 } else if n > 3000 { 8 } else { 14 };
    let autos = gen_automata(rng, &keys, nauto);
    for a in &autos {
        queries += 1;
        let (lo, hi) = if rng.chance(1, 3) {
            (gen_bound(rng, &probes, true), gen_bound(rng, &probes, false))
        } else {
            (Bound::Unbounded, Bound::Unbounded)
        };
        let limit = if rng.chance(1, 6) { Some(rng.below(4)) } else { None };
        let expected: Vec<usize> = (0..n)
            .filter(|&i| in_bounds(&keys[i], &lo, &hi) && naive_match(a, &keys[i]))
            .collect();
        rep.observe("automaton_kind", a.kind());
        rep.observe("search_result", bucket(expected.len()));
        // how many blocks would the index hand to the streamer (pruning actually happening?)
        let kept = dict.sstable_index.get_block_for_automaton(a).count();
        if kept < nblocks {
            rep.count("searches_with_pruned_blocks", 1);
        }
        let q = json!({"automaton": a.describe(), "lower": brief_bound(&lo), "upper": brief_bound(&hi), "limit": limit,
                       "blocks_kept_by_index": kept, "blocks": nblocks});
        let mut b = dict.search(a);
        b = match &lo {
            Bound::Included(k) => b.ge(k),
            Bound::Excluded(k) => b.gt(k),
            Bound::Unbounded => b,
        };
        b = match &hi {
            Bound::Included(k) => b.le(k),
            Bound::Excluded(k) => b.lt(k),
            Bound::Unbounded => b,
        };
        if let Some(l) = limit {
            b = b.limit(l);
        }
        match run_sst_stream(b) {
            StreamOut::Got(got) => {
                // Streamer::term_ord() under a pruning automaton is reported under its own key
                let ord_sig = if kept < nblocks {
                    "sst:search:streamer-term_ord-wrong-after-pruned-blocks"
                } else {
                    "sst:search:wrong-term_ord"
                };
                cmp_stream(&mut fails, "sst:search", ord_sig, &got, &expected, &keys, &vals, limit, q);
            }
            StreamOut::IoErr(e) => fails.add("sst:api-error:search", json!({"query": q, "error": e})),
            StreamOut::Panic(p) => stream_panic(&mut fails, "sst:search", &p, &lo, &hi, q),
        }
    }
    rep.count("queries", queries);
    lap("searches");

    if nblocks >= 2 {
        rep.nontrivial(format!("sst|{}|{}|bl{}|n{}|b{}", T::NAME, class, bl_label, n, nblocks));
    }
    if case < 2 {
        rep.sample(json!({"stream": "sst", "dict": info, "queries": queries,
            "first_keys": keys.iter().take(4).map(|k| brief(k)).collect::<Vec<_>>(),
            "automata": autos.iter().take(3).map(|a| a.describe()).collect::<Vec<_>>()}));
    }
    for (sig, d) in fails.v {
        viol(rep, sig, json!({"detail": d, "witness": dict_witness(&keys, &info)}));
    }
}

fn sst_case(case: u64, rng: &mut Rng, rep: &mut Report, thorough: bool) {
    let t0 = std::time::Instant::now();
    sst_case_inner(case, rng, rep, thorough);
    if std::env::var("C15_TIMING").is_ok() && t0.elapsed().as_secs_f64() > 2.0 {
        eprintln!("slow sst case {case}: {:.1}s", t0.elapsed().as_secs_f64());
    }
}

fn sst_case_inner(case: u64, rng: &mut Rng, rep: &mut Report, thorough: bool) {
    match rng.weighted(&[3, 4, 3, 2]) {
        0 => sst_generic::<VoidSSTable>(case, rng, rep, thorough),
        1 => sst_generic::<MonotonicU64SSTable>(case, rng, rep, thorough),
        2 => sst_generic::<RangeSSTable>(case, rng, rep, thorough),
        _ => sst_generic::<VecU32ValueSSTable>(case, rng, rep, thorough),
    }
}
