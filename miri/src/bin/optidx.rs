use tantivy_columnar::column_index::{OptionalIndex, Set};
use tvmiri::*;
fn main() {
    let mut r = Rng(seed());
    for &(rows, density) in &[(10u32, 2u64), (300, 3), (300, 50), (9_000, 1), (9_000, 400)] {
        let ids: Vec<u32> = (0..rows).filter(|_| r.below(density) == 0 || density == 1).collect();
        let oi = OptionalIndex::for_test(rows, &ids);
        if oi.num_non_nulls() as usize != ids.len() { mismatch("num_non_nulls"); }
        let probe: Vec<u32> = (0..40).map(|_| r.below(rows as u64) as u32).chain([0, rows - 1, 63, 64, 65, 65535.min(rows - 1)]).collect();
        for p in probe {
            let want_rank = ids.partition_point(|x| *x < p) as u32;
            if oi.rank(p) != want_rank { mismatch("rank"); }
            let c = ids.binary_search(&p).is_ok();
            if oi.contains(p) != c { mismatch("contains"); }
            if oi.rank_if_exists(p) != if c { Some(want_rank) } else { None } { mismatch("rank_if_exists"); }
        }
        for k in 0..ids.len().min(60) {
            let j = if ids.len() > 60 { (r.below(ids.len() as u64)) as usize } else { k };
            if oi.select(j as u32) != ids[j] { mismatch("select"); }
        }
    }
    println!("optidx ok");
}
