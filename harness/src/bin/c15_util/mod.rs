//! Helpers for C15: harness-side automata, key-set generators, naive ordered-map oracle pieces.
#![allow(dead_code)]
use std::collections::BTreeSet;
use std::ops::Bound;

use tantivy_fst::Automaton;
use tvmon::rng::Rng;

// ---------------------------------------------------------------------------------------------
// automata (implemented here, not taken from tantivy)

#[derive(Clone, Debug)]
pub struct LevState {
    prev2: [u8; LEV_MAX + 1],
    cur: [u8; LEV_MAX + 1],
    last: u16,
}

/// longest Levenshtein pattern (keeps the state allocation-free)
pub const LEV_MAX: usize = 40;

#[derive(Clone, Debug)]
pub enum St {
    P(Option<usize>),
    C(usize),
    L(LevState),
    R(Option<usize>),
    Pair(Box<St>, Box<St>),
}

pub enum Auto {
    /// key starts with the pattern
    Prefix(Vec<u8>),
    /// key contains the pattern (KMP)
    Contains(Vec<u8>, Vec<usize>),
    /// byte-level edit distance (optionally with adjacent transpositions, OSA) <= d
    Lev { pat: Vec<u8>, d: u8, transp: bool },
    Regex(tantivy_fst::Regex),
    /// same language, but never tells the dictionary anything about the future
    Lazy(Box<Auto>),
    Not(Box<Auto>),
    And(Box<Auto>, Box<Auto>),
    Or(Box<Auto>, Box<Auto>),
}

pub fn contains(pat: Vec<u8>) -> Auto {
    let m = pat.len();
    let mut fail = vec![0usize; m + 1];
    let mut k = 0usize;
    for i in 1..m {
        while k > 0 && pat[i] != pat[k] {
            k = fail[k];
        }
        if pat[i] == pat[k] {
            k += 1;
        }
        fail[i + 1] = k;
    }
    Auto::Contains(pat, fail)
}

impl Auto {
    pub fn kind(&self) -> String {
        match self {
            Auto::Prefix(_) => "prefix".into(),
            Auto::Contains(..) => "contains".into(),
            Auto::Lev { d, transp, .. } => format!("lev{}{}", d, if *transp { "t" } else { "" }),
            Auto::Regex(_) => "regex".into(),
            Auto::Lazy(a) => format!("lazy:{}", a.kind()),
            Auto::Not(a) => format!("not:{}", a.kind()),
            Auto::And(a, b) => format!("and:{}+{}", a.kind(), b.kind()),
            Auto::Or(a, b) => format!("or:{}+{}", a.kind(), b.kind()),
        }
    }
    pub fn describe(&self) -> String {
        match self {
            Auto::Prefix(p) => format!("prefix({})", brief(p)),
            Auto::Contains(p, _) => format!("contains({})", brief(p)),
            Auto::Lev { pat, d, transp } => format!("lev({}, d={d}, transp={transp})", brief(pat)),
            Auto::Regex(r) => {
                let s = format!("{r:?}");
                s.lines().next().unwrap_or("Regex").to_string()
            }
            Auto::Lazy(a) => format!("lazy({})", a.describe()),
            Auto::Not(a) => format!("not({})", a.describe()),
            Auto::And(a, b) => format!("and({}, {})", a.describe(), b.describe()),
            Auto::Or(a, b) => format!("or({}, {})", a.describe(), b.describe()),
        }
    }
}

impl Automaton for Auto {
    type State = St;

    fn start(&self) -> St {
        match self {
            Auto::Prefix(_) => St::P(Some(0)),
            Auto::Contains(..) => St::C(0),
            Auto::Lev { pat, d, .. } => {
                let cap = *d + 1;
                assert!(pat.len() <= LEV_MAX, "c15 harness: lev pattern too long");
                let mut cur = [cap; LEV_MAX + 1];
                for (j, c) in cur.iter_mut().enumerate().take(pat.len() + 1) {
                    *c = j.min(cap as usize) as u8;
                }
                St::L(LevState {
                    prev2: [cap; LEV_MAX + 1],
                    cur,
                    last: 256,
                })
            }
            Auto::Regex(r) => St::R(r.start()),
            Auto::Lazy(a) | Auto::Not(a) => a.start(),
            Auto::And(a, b) | Auto::Or(a, b) => St::Pair(Box::new(a.start()), Box::new(b.start())),
        }
    }

    fn is_match(&self, st: &St) -> bool {
        match (self, st) {
            (Auto::Prefix(p), St::P(s)) => *s == Some(p.len()),
            (Auto::Contains(p, _), St::C(s)) => *s == p.len(),
            (Auto::Lev { pat, d, .. }, St::L(s)) => s.cur[pat.len()] <= *d,
            (Auto::Regex(r), St::R(s)) => r.is_match(s),
            (Auto::Lazy(a), s) => a.is_match(s),
            (Auto::Not(a), s) => !a.is_match(s),
            (Auto::And(a, b), St::Pair(x, y)) => a.is_match(x) && b.is_match(y),
            (Auto::Or(a, b), St::Pair(x, y)) => a.is_match(x) || b.is_match(y),
            _ => panic!("c15 automaton/state mismatch"),
        }
    }

    fn can_match(&self, st: &St) -> bool {
        match (self, st) {
            (Auto::Prefix(_), St::P(s)) => s.is_some(),
            (Auto::Contains(..), St::C(_)) => true,
            (Auto::Lev { pat, d, transp }, St::L(s)) => {
                s.cur[..=pat.len()].iter().any(|&v| v <= *d)
                    || (*transp && s.prev2[..=pat.len()].iter().any(|&v| v < *d))
            }
            (Auto::Regex(r), St::R(s)) => r.can_match(s),
            (Auto::Lazy(_), _) => true,
            (Auto::Not(a), s) => !a.will_always_match(s),
            (Auto::And(a, b), St::Pair(x, y)) => a.can_match(x) && b.can_match(y),
            (Auto::Or(a, b), St::Pair(x, y)) => a.can_match(x) || b.can_match(y),
            _ => panic!("c15 automaton/state mismatch"),
        }
    }

    fn will_always_match(&self, st: &St) -> bool {
        match (self, st) {
            (Auto::Prefix(p), St::P(s)) => *s == Some(p.len()),
            (Auto::Contains(p, _), St::C(s)) => *s == p.len(),
            (Auto::Lev { .. }, St::L(_)) => false,
            (Auto::Regex(r), St::R(s)) => r.will_always_match(s),
            (Auto::Lazy(_), _) => false,
            (Auto::Not(a), s) => !a.can_match(s),
            (Auto::And(a, b), St::Pair(x, y)) => a.will_always_match(x) && b.will_always_match(y),
            (Auto::Or(a, b), St::Pair(x, y)) => a.will_always_match(x) || b.will_always_match(y),
            _ => panic!("c15 automaton/state mismatch"),
        }
    }

    fn accept(&self, st: &St, b: u8) -> St {
        match (self, st) {
            (Auto::Prefix(p), St::P(s)) => St::P(match s {
                Some(i) if *i == p.len() => Some(*i),
                Some(i) if p[*i] == b => Some(*i + 1),
                _ => None,
            }),
            (Auto::Contains(p, fail), St::C(s)) => {
                let m = p.len();
                if *s == m {
                    return St::C(m);
                }
                let mut k = *s;
                while k > 0 && p[k] != b {
                    k = fail[k];
                }
                if p[k] == b {
                    k += 1;
                }
                St::C(k)
            }
            (Auto::Lev { pat, d, transp }, St::L(s)) => {
                let cap = *d + 1;
                let m = pat.len();
                let mut new = [cap; LEV_MAX + 1];
                new[0] = (s.cur[0] + 1).min(cap);
                for j in 1..=m {
                    let cost = u8::from(pat[j - 1] != b);
                    let mut v = (s.cur[j] + 1).min(new[j - 1] + 1).min(s.cur[j - 1] + cost);
                    if *transp
                        && j >= 2
                        && s.last < 256
                        && pat[j - 1] as u16 == s.last
                        && pat[j - 2] == b
                    {
                        v = v.min(s.prev2[j - 2] + 1);
                    }
                    new[j] = v.min(cap);
                }
                St::L(LevState {
                    prev2: s.cur,
                    cur: new,
                    last: b as u16,
                })
            }
            (Auto::Regex(r), St::R(s)) => St::R(r.accept(s, b)),
            (Auto::Lazy(a), s) | (Auto::Not(a), s) => a.accept(s, b),
            (Auto::And(a, c), St::Pair(x, y)) | (Auto::Or(a, c), St::Pair(x, y)) => {
                St::Pair(Box::new(a.accept(x, b)), Box::new(c.accept(y, b)))
            }
            _ => panic!("c15 automaton/state mismatch"),
        }
    }
}

/// Runs the automaton over one key, the slow obvious way. Also validates the
/// can_match / will_always_match contract of the automaton itself (a breach is a harness bug).
pub fn naive_match(a: &Auto, key: &[u8]) -> bool {
    let mut s = a.start();
    let mut dead = !a.can_match(&s);
    let mut always = a.will_always_match(&s);
    for &b in key {
        s = a.accept(&s, b);
        dead |= !a.can_match(&s);
        always |= a.will_always_match(&s);
    }
    let m = a.is_match(&s);
    if m && dead {
        panic!("c15 harness: automaton {} broke can_match contract", a.describe());
    }
    if !m && always {
        panic!("c15 harness: automaton {} broke will_always_match contract", a.describe());
    }
    m
}

// ---------------------------------------------------------------------------------------------
// rendering

pub fn hex(k: &[u8]) -> String {
    k.iter().map(|b| format!("{b:02x}")).collect()
}

pub fn brief(k: &[u8]) -> String {
    if k.len() <= 48 {
        format!("x'{}'", hex(k))
    } else {
        format!("len={} head=x'{}' tail=x'{}'", k.len(), hex(&k[..16]), hex(&k[k.len() - 8..]))
    }
}

pub fn brief_bound(b: &Bound<Vec<u8>>) -> String {
    match b {
        Bound::Included(k) => format!("incl({})", brief(k)),
        Bound::Excluded(k) => format!("excl({})", brief(k)),
        Bound::Unbounded => "unbounded".into(),
    }
}

pub fn len_class(l: usize) -> &'static str {
    match l {
        0 => "0",
        1..=15 => "1-15",
        16 => "16",
        17..=255 => "17-255",
        256..=3999 => "256-3999",
        4000..=9999 => "4000-9999",
        _ => ">=10000",
    }
}

pub fn bucket(n: usize) -> &'static str {
    match n {
        0 => "0",
        1 => "1",
        2 => "2",
        3..=9 => "3-9",
        10..=127 => "10-127",
        128 => "128",
        129..=255 => "129-255",
        256 => "256",
        257..=511 => "257-511",
        _ => ">=512",
    }
}

// ---------------------------------------------------------------------------------------------
// bounds

pub fn in_bounds(k: &[u8], lo: &Bound<Vec<u8>>, hi: &Bound<Vec<u8>>) -> bool {
    let a = match lo {
        Bound::Included(b) => k >= &b[..],
        Bound::Excluded(b) => k > &b[..],
        Bound::Unbounded => true,
    };
    let b = match hi {
        Bound::Included(b) => k <= &b[..],
        Bound::Excluded(b) => k < &b[..],
        Bound::Unbounded => true,
    };
    a && b
}

pub fn range_shape(lo: &Bound<Vec<u8>>, hi: &Bound<Vec<u8>>) -> String {
    let l = match lo {
        Bound::Included(_) => "ge",
        Bound::Excluded(_) => "gt",
        Bound::Unbounded => "-",
    };
    let h = match hi {
        Bound::Included(_) => "le",
        Bound::Excluded(_) => "lt",
        Bound::Unbounded => "-",
    };
    let rel = match (lo, hi) {
        (
            Bound::Included(a) | Bound::Excluded(a),
            Bound::Included(b) | Bound::Excluded(b),
        ) => match a.cmp(b) {
            std::cmp::Ordering::Less => "",
            std::cmp::Ordering::Equal => ",lo=hi",
            std::cmp::Ordering::Greater => ",inverted",
        },
        _ => "",
    };
    format!("{l}/{h}{rel}")
}

/// A byte string near `k`: equal, just above, just below, prefix, extension.
pub fn near(k: &[u8], rng: &mut Rng) -> Vec<u8> {
    let mut v = k.to_vec();
    match rng.below(8) {
        0 => {}
        1 => v.push(0),
        2 => v.push(0xFF),
        3 => {
            v.pop();
        }
        4 => {
            if let Some(l) = v.last_mut() {
                if *l < 255 {
                    *l += 1;
                } else {
                    v.push(0);
                }
            } else {
                v.push(0);
            }
        }
        5 => {
            if let Some(l) = v.last_mut() {
                if *l > 0 {
                    *l -= 1;
                } else {
                    v.pop();
                }
            }
        }
        6 => {
            if !v.is_empty() {
                let i = rng.usize_below(v.len());
                v[i] = rng.next_u64() as u8;
            }
        }
        _ => {
            let l = rng.usize_below(v.len() + 1);
            v.truncate(l);
        }
    }
    v
}

// ---------------------------------------------------------------------------------------------
// key sets

const SYL: &[&str] = &[
    "ba", "be", "bi", "bo", "ka", "ke", "ki", "ko", "la", "le", "li", "lo", "ma", "me", "mi", "mo",
    "na", "ne", "ra", "re", "sa", "se", "ta", "te", "za", "zu",
];

pub fn word(rng: &mut Rng, max_syl: usize) -> Vec<u8> {
    let n = rng.urange(1, max_syl.max(1));
    let mut w = Vec::new();
    for _ in 0..n {
        w.extend_from_slice(rng.pick(SYL).as_bytes());
    }
    w
}

pub fn pick_n(rng: &mut Rng, thorough: bool) -> usize {
    const T: &[usize] = &[
        0, 1, 2, 3, 5, 17, 100, 255, 256, 257, 300, 511, 512, 513, 700, 1000, 1500, 2000, 3000, 5000,
    ];
    match rng.below(10) {
        0..=4 => *rng.pick(T),
        5..=7 => rng.urange(2, 800),
        8 => rng.urange(800, 4000),
        _ => {
            if thorough && rng.chance(1, 6) {
                rng.urange(8000, 16000)
            } else {
                rng.urange(0, 40)
            }
        }
    }
}

/// Returns (sorted unique keys, class label).
pub fn gen_keys(rng: &mut Rng, n: usize) -> (Vec<Vec<u8>>, String) {
    let mut set: BTreeSet<Vec<u8>> = BTreeSet::new();
    let class = rng.weighted(&[14, 10, 14, 10, 10, 8, 12, 6]);
    let label;
    // bound the number of attempts: small alphabets cannot yield n distinct keys
    let attempts = n * 3 + 8;
    match class {
        0 => {
            label = "alpha";
            let a = *rng.pick(&[2u8, 3, 5, 26]);
            let l = *rng.pick(&[3usize, 6, 9, 14, 20]);
            for _ in 0..attempts {
                if set.len() >= n {
                    break;
                }
                let len = rng.urange(0, l);
                set.insert((0..len).map(|_| b'a' + rng.below(a as u64) as u8).collect());
            }
        }
        1 => {
            label = "hex";
            let step = rng.urange(1, 40);
            let start = rng.urange(0, 1000);
            for i in 0..n {
                set.insert(format!("{:05X}", start + i * step).into_bytes());
            }
        }
        2 => {
            label = "shared-prefix";
            let p = *rng.pick(&[14usize, 15, 16, 17, 31, 100, 255, 256, 300, 5000]);
            let p = if n > 2000 { p.min(100) } else if n > 150 { p.min(300) } else { p };
            let prefix = if rng.bool() { rng.bytes(p) } else { vec![*rng.pick(&[0u8, b'a', 0xFF]); p] };
            let sl = *rng.pick(&[1usize, 3, 15, 16, 17, 40]);
            for _ in 0..attempts {
                if set.len() >= n {
                    break;
                }
                let mut k = prefix.clone();
                match rng.below(12) {
                    0 => {
                        let l = rng.usize_below(p + 1);
                        k.truncate(l);
                    }
                    1 => {}
                    _ => {
                        let len = rng.urange(1, sl);
                        for _ in 0..len {
                            k.push(b'a' + rng.below(4) as u8);
                        }
                    }
                }
                set.insert(k);
            }
        }
        3 => {
            label = "00ff";
            let l = *rng.pick(&[4usize, 8, 12, 18]);
            for _ in 0..attempts {
                if set.len() >= n {
                    break;
                }
                let len = rng.urange(0, l);
                set.insert(
                    (0..len)
                        .map(|_| *rng.pick(&[0u8, 0, 0xFF, 0xFF, 1, 0xFE]))
                        .collect(),
                );
            }
        }
        4 => {
            label = "binary";
            let l = *rng.pick(&[2usize, 8, 40, 300]);
            let l = if n > 2000 { l.min(40) } else { l };
            for _ in 0..attempts {
                if set.len() >= n {
                    break;
                }
                let len = rng.urange(0, l);
                set.insert(rng.bytes(len));
            }
        }
        5 => {
            label = "long";
            // a few very long keys among short ones
            let nlong = rng.urange(1, 4).min(n.max(1));
            let base_len = *rng.pick(&[3999usize, 4000, 4001, 8000, 16_500, 40_000]);
            let base = rng.bytes(base_len);
            for i in 0..nlong {
                let mut k = base.clone();
                match i {
                    0 => {}
                    1 => k.push(rng.next_u64() as u8),
                    2 => {
                        k.truncate(base_len - 1);
                    }
                    _ => {
                        let at = rng.usize_below(base_len);
                        k[at] = k[at].wrapping_add(1);
                    }
                }
                set.insert(k);
            }
            let n_short = n.min(600);
            for _ in 0..n_short * 3 + 8 {
                if set.len() >= n_short {
                    break;
                }
                let mut k = if rng.chance(1, 4) {
                    {
                    let l = rng.urange(0, 20);
                    base[..l].to_vec()
                }
                } else {
                    vec![]
                };
                let l = rng.urange(0, 6);
                k.extend(rng.bytes(l));
                set.insert(k);
            }
        }
        6 => {
            label = "words";
            let ms = *rng.pick(&[2usize, 3, 5]);
            for _ in 0..attempts {
                if set.len() >= n {
                    break;
                }
                set.insert(word(rng, ms));
            }
        }
        _ => {
            label = "utf8";
            const CH: &[&str] = &["a", "b", "é", "ß", "中", "文", "𝄞", "z", "0", " "];
            for _ in 0..attempts {
                if set.len() >= n {
                    break;
                }
                let len = rng.urange(0, 8);
                let mut s = String::new();
                for _ in 0..len {
                    s.push_str(*rng.pick(CH));
                }
                set.insert(s.into_bytes());
            }
        }
    }
    let mut label = label.to_string();
    if n > 0 && rng.chance(1, 5) {
        set.insert(vec![]);
        label.push_str("+emptykey");
    }
    if n > 0 && rng.chance(1, 8) {
        set.insert(vec![0xFF; rng.urange(1, 5)]);
        set.insert(vec![0x00; rng.urange(1, 5)]);
        label.push_str("+edges");
    }
    if n == 0 {
        set.clear();
    }
    (set.into_iter().collect(), label)
}

/// Builds a panel of automata suited to the key set.
pub fn gen_automata(rng: &mut Rng, keys: &[Vec<u8>], count: usize) -> Vec<Auto> {
    let mut out = vec![];
    let pick_key = |rng: &mut Rng| -> Vec<u8> {
        if keys.is_empty() {
            word(rng, 2)
        } else {
            keys[rng.usize_below(keys.len())].clone()
        }
    };
    for _ in 0..count {
        let k = pick_key(rng);
        let base = |rng: &mut Rng, k: &[u8]| -> Auto {
            match rng.below(5) {
                0 => {
                    let l = rng.usize_below(k.len().min(24) + 1);
                    let mut p = k[..l].to_vec();
                    if rng.chance(1, 6) {
                        p = near(&p, rng);
                    }
                    Auto::Prefix(p)
                }
                1 => {
                    let kk = &k[..k.len().min(64)];
                    let a = rng.usize_below(kk.len() + 1);
                    let b = (a + rng.urange(0, 4)).min(kk.len());
                    contains(kk[a..b].to_vec())
                }
                2 | 3 => {
                    let mut p = k[..k.len().min(LEV_MAX - 4)].to_vec();
                    // perturb the pattern by up to 2 edits
                    for _ in 0..rng.below(3) {
                        p = near(&p, rng);
                    }
                    if rng.chance(1, 4) && p.len() >= 2 {
                        let i = rng.usize_below(p.len() - 1);
                        p.swap(i, i + 1);
                    }
                    Auto::Lev {
                        pat: p,
                        d: rng.below(3) as u8,
                        transp: rng.bool(),
                    }
                }
                _ => {
                    // regex built from ASCII alphanumerics of the key
                    let ascii: String = k
                        .iter()
                        .take(12)
                        .filter(|b| b.is_ascii_alphanumeric())
                        .map(|&b| b as char)
                        .collect();
                    let cut = rng.usize_below(ascii.len() + 1);
                    let head = &ascii[..cut];
                    let pat = match rng.below(7) {
                        0 => format!("{head}.*"),
                        1 => format!(".*{head}.*"),
                        2 => format!("{head}[a-m]*"),
                        3 => format!("({head}|ba|0.)[a-z0-9]*"),
                        4 => format!("{head}.{{0,3}}"),
                        5 => ascii.clone(),
                        _ => format!("[^{}]+", if head.is_empty() { "q" } else { &head[..1] }),
                    };
                    match tantivy_fst::Regex::new(&pat) {
                        Ok(r) => Auto::Regex(r),
                        Err(_) => Auto::Prefix(head.as_bytes().to_vec()),
                    }
                }
            }
        };
        let a = base(rng, &k);
        let a = match rng.below(10) {
            0 | 1 => Auto::Lazy(Box::new(a)),
            2 => Auto::Not(Box::new(a)),
            3 => {
                let k2 = pick_key(rng);
                Auto::And(Box::new(a), Box::new(base(rng, &k2)))
            }
            4 => {
                let k2 = pick_key(rng);
                Auto::Or(Box::new(a), Box::new(base(rng, &k2)))
            }
            _ => a,
        };
        out.push(a);
    }
    out
}

pub fn gen_bound(rng: &mut Rng, cands: &[Vec<u8>], lower: bool) -> Bound<Vec<u8>> {
    if cands.is_empty() || rng.chance(1, 4) {
        return Bound::Unbounded;
    }
    let k = cands[rng.usize_below(cands.len())].clone();
    let _ = lower;
    if rng.bool() {
        Bound::Included(k)
    } else {
        Bound::Excluded(k)
    }
}

/// Candidate bound / lookup keys: keys at the given ordinals (block edges), random keys,
/// neighbours of those, before-first, after-last, extremes.
pub fn gen_probes(rng: &mut Rng, keys: &[Vec<u8>], edges: &[usize], count: usize) -> Vec<Vec<u8>> {
    let mut out: Vec<Vec<u8>> = vec![vec![], vec![0xFF; 3], vec![0]];
    if let (Some(f), Some(l)) = (keys.first(), keys.last()) {
        out.push(f.clone());
        out.push(l.clone());
        let mut after = l.clone();
        after.push(0);
        out.push(after);
        let mut before = f.clone();
        if before.pop().is_some() {
            out.push(before);
        }
    }
    for _ in 0..count {
        if keys.is_empty() {
            let l = rng.urange(0, 6);
            out.push(rng.bytes(l));
            continue;
        }
        let idx = if !edges.is_empty() && rng.chance(2, 3) {
            let e = edges[rng.usize_below(edges.len())];
            // first key of a block, last key of the previous block, or one further
            match rng.below(4) {
                0 => e,
                1 => e.saturating_sub(1),
                2 => e + 1,
                _ => e.saturating_sub(2),
            }
        } else {
            rng.usize_below(keys.len())
        }
        .min(keys.len() - 1);
        let k = &keys[idx];
        if rng.bool() {
            out.push(k.clone());
        } else {
            out.push(near(k, rng));
        }
    }
    out
}
