pub mod crash;
pub mod hist;
pub mod mondir;
pub mod report;
pub mod rng;
