//! Helper modules of the C14 check (aggregations == direct computation, partition independent).
pub mod cmp;
pub mod model;
pub mod oracle;
pub mod req;
