//! C09 helpers: schema, model documents, the (naive) comparison oracle, block-layout model.
//!
//! The oracle never looks at tantivy's serialised form: a model document is a list of
//! (field slot, model value) in the order the values were added, and a returned
//! `TantivyDocument` is compared value by value with it.
#![allow(dead_code)]

pub mod gen;

use std::collections::BTreeMap;
use std::net::Ipv6Addr;
use std::sync::OnceLock;

use serde_json::{json, Value as J};
use tantivy::schema::*;
use tantivy::tokenizer::{PreTokenizedString, Token};
use tantivy::{DateTime, TantivyDocument};

#[derive(Clone, Copy, PartialEq, Eq, Debug, PartialOrd, Ord)]
pub enum Kind {
    Text,
    U64,
    I64,
    F64,
    Bool,
    Date,
    Bytes,
    Ip,
    Facet,
    Json,
}

impl Kind {
    pub fn name(self) -> &'static str {
        match self {
            Kind::Text => "text",
            Kind::U64 => "u64",
            Kind::I64 => "i64",
            Kind::F64 => "f64",
            Kind::Bool => "bool",
            Kind::Date => "date",
            Kind::Bytes => "bytes",
            Kind::Ip => "ip",
            Kind::Facet => "facet",
            Kind::Json => "json",
        }
    }
}

pub struct FSpec {
    pub name: &'static str,
    pub kind: Kind,
    pub stored: bool,
    /// the field is also indexed and/or fast: values are kept inside what indexing accepts
    /// (finite floats, simple JSON keys, shallow JSON)
    pub safe: bool,
    pub field: Field,
}

pub struct Sch {
    pub schema: Schema,
    pub fields: Vec<FSpec>,
    pub id: Field,
    pub sk: Field,
    pub by_field: BTreeMap<u32, usize>,
    /// slots of stored text / bytes fields usable for padding
    pub pad_text: Vec<usize>,
    pub pad_bytes: Vec<usize>,
}

impl Sch {
    pub fn slot(&self, name: &str) -> usize {
        self.fields.iter().position(|f| f.name == name).expect("slot")
    }
    pub fn slots_of(&self, kind: Kind, stored: bool) -> Vec<usize> {
        (0..self.fields.len())
            .filter(|&i| self.fields[i].kind == kind && self.fields[i].stored == stored)
            .collect()
    }
}

pub fn sch() -> &'static Sch {
    static S: OnceLock<Sch> = OnceLock::new();
    S.get_or_init(build_schema)
}

fn build_schema() -> Sch {
    let mut b = Schema::builder();
    // identity and sort key: fast/indexed but NOT stored (so they must never be returned,
    // and a document may be completely empty in the store)
    let id = b.add_u64_field("id", FAST | INDEXED);
    let sk = b.add_u64_field("sk", FAST);
    let mut fields: Vec<FSpec> = vec![];
    let mut push = |name: &'static str, kind: Kind, stored: bool, safe: bool, field: Field| {
        fields.push(FSpec { name, kind, stored, safe, field });
    };
    let f = b.add_text_field("t_s", TEXT | STORED);
    push("t_s", Kind::Text, true, true, f);
    let f = b.add_text_field("t_so", STORED);
    push("t_so", Kind::Text, true, false, f);
    let f = b.add_text_field("t_n", TEXT);
    push("t_n", Kind::Text, false, true, f);

    let f = b.add_u64_field("u_s", STORED | FAST | INDEXED);
    push("u_s", Kind::U64, true, true, f);
    let f = b.add_u64_field("u_so", STORED);
    push("u_so", Kind::U64, true, false, f);
    let f = b.add_u64_field("u_n", FAST);
    push("u_n", Kind::U64, false, true, f);

    let f = b.add_i64_field("i_s", STORED | INDEXED);
    push("i_s", Kind::I64, true, true, f);
    let f = b.add_i64_field("i_n", INDEXED | FAST);
    push("i_n", Kind::I64, false, true, f);

    let f = b.add_f64_field("f_so", STORED);
    push("f_so", Kind::F64, true, false, f);
    let f = b.add_f64_field("f_s", STORED | FAST);
    push("f_s", Kind::F64, true, true, f);
    let f = b.add_f64_field("f_n", FAST);
    push("f_n", Kind::F64, false, true, f);

    let f = b.add_bool_field("b_s", STORED | INDEXED | FAST);
    push("b_s", Kind::Bool, true, true, f);
    let f = b.add_bool_field("b_n", INDEXED);
    push("b_n", Kind::Bool, false, true, f);

    let f = b.add_date_field(
        "d_s",
        DateOptions::from(STORED | INDEXED)
            .set_fast()
            .set_precision(DateTimePrecision::Seconds),
    );
    push("d_s", Kind::Date, true, true, f);
    let f = b.add_date_field("d_so", STORED);
    push("d_so", Kind::Date, true, false, f);
    let f = b.add_date_field("d_n", FAST);
    push("d_n", Kind::Date, false, true, f);

    let f = b.add_bytes_field("y_s", BytesOptions::default().set_stored());
    push("y_s", Kind::Bytes, true, false, f);
    let f = b.add_bytes_field(
        "y_sf",
        BytesOptions::default().set_stored().set_fast().set_indexed(),
    );
    push("y_sf", Kind::Bytes, true, true, f);
    let f = b.add_bytes_field("y_n", BytesOptions::default().set_fast());
    push("y_n", Kind::Bytes, false, true, f);

    let f = b.add_ip_addr_field("ip_s", STORED | FAST | INDEXED);
    push("ip_s", Kind::Ip, true, true, f);
    let f = b.add_ip_addr_field("ip_so", STORED);
    push("ip_so", Kind::Ip, true, false, f);
    let f = b.add_ip_addr_field("ip_n", INDEXED);
    push("ip_n", Kind::Ip, false, true, f);

    let f = b.add_facet_field("fc_s", FacetOptions::default().set_stored());
    push("fc_s", Kind::Facet, true, true, f);
    let f = b.add_facet_field("fc_n", FacetOptions::default());
    push("fc_n", Kind::Facet, false, true, f);

    let f = b.add_json_field("j_so", JsonObjectOptions::default().set_stored());
    push("j_so", Kind::Json, true, false, f);
    let f = b.add_json_field(
        "j_s",
        JsonObjectOptions::default()
            .set_stored()
            .set_indexing_options(TextFieldIndexing::default())
            .set_fast(None),
    );
    push("j_s", Kind::Json, true, true, f);
    let f = b.add_json_field(
        "j_n",
        JsonObjectOptions::default().set_indexing_options(TextFieldIndexing::default()),
    );
    push("j_n", Kind::Json, false, true, f);

    let schema = b.build();
    let by_field = fields
        .iter()
        .enumerate()
        .map(|(i, f)| (f.field.field_id(), i))
        .collect();
    let pad_text = (0..fields.len())
        .filter(|&i| fields[i].kind == Kind::Text && fields[i].stored)
        .collect();
    let pad_bytes = (0..fields.len())
        .filter(|&i| fields[i].kind == Kind::Bytes && fields[i].stored && !fields[i].safe)
        .collect();
    Sch { schema, fields, id, sk, by_field, pad_text, pad_bytes }
}

// ---------------------------------------------------------------------------------------------
// model values / documents

#[derive(Clone, Debug, PartialEq)]
pub enum MV {
    Null,
    Str(String),
    /// a pre-tokenized string (top level only); the store keeps its text
    PreTok(String),
    U64(u64),
    I64(i64),
    /// bit pattern
    F64(u64),
    Bool(bool),
    /// timestamp in nanoseconds
    Date(i64),
    /// path segments
    Facet(Vec<String>),
    Bytes(Vec<u8>),
    Ip(u128),
    Arr(Vec<MV>),
    Obj(Vec<(String, MV)>),
}

impl MV {
    pub fn kind_name(&self) -> &'static str {
        match self {
            MV::Null => "null",
            MV::Str(_) => "str",
            MV::PreTok(_) => "pretok",
            MV::U64(_) => "u64",
            MV::I64(_) => "i64",
            MV::F64(_) => "f64",
            MV::Bool(_) => "bool",
            MV::Date(_) => "date",
            MV::Facet(_) => "facet",
            MV::Bytes(_) => "bytes",
            MV::Ip(_) => "ip",
            MV::Arr(_) => "array",
            MV::Obj(_) => "object",
        }
    }

    pub fn to_owned_value(&self) -> OwnedValue {
        match self {
            MV::Null => OwnedValue::Null,
            MV::Str(s) => OwnedValue::Str(s.clone()),
            MV::PreTok(s) => OwnedValue::PreTokStr(pretok(s)),
            MV::U64(v) => OwnedValue::U64(*v),
            MV::I64(v) => OwnedValue::I64(*v),
            MV::F64(b) => OwnedValue::F64(f64::from_bits(*b)),
            MV::Bool(b) => OwnedValue::Bool(*b),
            MV::Date(n) => OwnedValue::Date(DateTime::from_timestamp_nanos(*n)),
            MV::Facet(p) => OwnedValue::Facet(Facet::from_path(p.iter().map(|s| s.as_str()))),
            MV::Bytes(b) => OwnedValue::Bytes(b.clone()),
            MV::Ip(v) => OwnedValue::IpAddr(Ipv6Addr::from(*v)),
            MV::Arr(a) => OwnedValue::Array(a.iter().map(|v| v.to_owned_value()).collect()),
            MV::Obj(o) => OwnedValue::Object(
                o.iter().map(|(k, v)| (k.clone(), v.to_owned_value())).collect(),
            ),
        }
    }

    /// estimated serialised size (used only to aim document sizes at block boundaries)
    pub fn est_len(&self) -> usize {
        fn vint(n: usize) -> usize {
            let mut n = n;
            let mut l = 1;
            while n >= 128 {
                n >>= 7;
                l += 1;
            }
            l
        }
        match self {
            MV::Null => 1,
            MV::Str(s) | MV::PreTok(s) => 1 + vint(s.len()) + s.len(),
            MV::U64(_) | MV::I64(_) | MV::F64(_) | MV::Date(_) => 9,
            MV::Bool(_) => 2,
            MV::Facet(p) => {
                let l: usize = p.iter().map(|s| s.len()).sum::<usize>() + p.len().saturating_sub(1);
                1 + vint(l) + l
            }
            MV::Bytes(b) => 1 + vint(b.len()) + b.len(),
            MV::Ip(_) => 17,
            MV::Arr(a) => 1 + vint(a.len()) + a.iter().map(|v| v.est_len()).sum::<usize>(),
            MV::Obj(o) => {
                1 + vint(o.len() * 2)
                    + o.iter()
                        .map(|(k, v)| 1 + vint(k.len()) + k.len() + v.est_len())
                        .sum::<usize>()
            }
        }
    }

    pub fn brief(&self) -> String {
        let s = format!("{self:?}");
        truncate(&s, 160)
    }
}

pub fn truncate(s: &str, n: usize) -> String {
    if s.chars().count() <= n {
        s.to_string()
    } else {
        let t: String = s.chars().take(n).collect();
        format!("{t}…[{} bytes]", s.len())
    }
}

pub fn pretok(text: &str) -> PreTokenizedString {
    let mut tokens = vec![];
    let mut pos = 0usize;
    let mut start = None;
    for (i, c) in text.char_indices().chain(std::iter::once((text.len(), ' '))) {
        if c.is_whitespace() {
            if let Some(s) = start.take() {
                let t: &str = &text[s..i];
                if t.len() <= 40 {
                    tokens.push(Token {
                        offset_from: s,
                        offset_to: i,
                        position: pos,
                        text: t.to_lowercase(),
                        position_length: 1,
                    });
                }
                pos += 1;
            }
        } else if start.is_none() {
            start = Some(i);
        }
    }
    PreTokenizedString { text: text.to_string(), tokens }
}

#[derive(Clone, Debug)]
pub struct MDoc {
    pub id: u64,
    pub sk: u64,
    /// (field slot, value) in insertion order, stored and non-stored fields
    pub vals: Vec<(usize, MV)>,
    pub profile: &'static str,
}

impl MDoc {
    pub fn stored_vals<'a>(&'a self, sch: &'a Sch) -> impl Iterator<Item = &'a (usize, MV)> + 'a {
        self.vals.iter().filter(move |(s, _)| sch.fields[*s].stored)
    }
    pub fn est_len(&self, sch: &Sch) -> usize {
        1 + self.stored_vals(sch).map(|(_, v)| 4 + v.est_len()).sum::<usize>()
    }
    pub fn max_multi(&self, sch: &Sch) -> usize {
        let mut m: BTreeMap<usize, usize> = BTreeMap::new();
        for (s, _) in self.stored_vals(sch) {
            *m.entry(*s).or_default() += 1;
        }
        m.values().copied().max().unwrap_or(0)
    }

    /// Builds the tantivy document. `via_owned` chooses `add_field_value(&OwnedValue)` instead of
    /// the typed `add_*` methods for leaf values.
    pub fn to_tdoc(&self, sch: &Sch) -> TantivyDocument {
        let mut d = TantivyDocument::default();
        let via_owned = self.id % 3 == 0;
        let id_first = self.id % 2 == 0;
        if id_first {
            d.add_u64(sch.id, self.id);
        }
        for (i, (slot, v)) in self.vals.iter().enumerate() {
            if i == self.vals.len() / 2 {
                d.add_u64(sch.sk, self.sk);
            }
            let f = sch.fields[*slot].field;
            if via_owned {
                d.add_field_value(f, &v.to_owned_value());
                continue;
            }
            match v {
                MV::Str(s) => d.add_text(f, s),
                MV::PreTok(s) => d.add_pre_tokenized_text(f, pretok(s)),
                MV::U64(x) => d.add_u64(f, *x),
                MV::I64(x) => d.add_i64(f, *x),
                MV::F64(b) => d.add_f64(f, f64::from_bits(*b)),
                MV::Bool(x) => d.add_bool(f, *x),
                MV::Date(n) => d.add_date(f, DateTime::from_timestamp_nanos(*n)),
                MV::Facet(p) => d.add_facet(f, Facet::from_path(p.iter().map(|s| s.as_str()))),
                MV::Bytes(x) => d.add_bytes(f, x),
                MV::Ip(x) => d.add_ip_addr(f, Ipv6Addr::from(*x)),
                MV::Null | MV::Arr(_) | MV::Obj(_) => d.add_field_value(f, &v.to_owned_value()),
            }
        }
        if self.vals.is_empty() {
            d.add_u64(sch.sk, self.sk);
        }
        if !id_first {
            d.add_u64(sch.id, self.id);
        }
        d
    }
}

// ---------------------------------------------------------------------------------------------
// comparison oracle

#[derive(Default, Debug)]
pub struct CmpStats {
    pub values: u64,
    pub json_nodes: u64,
    pub multi_fields: u64,
    pub cross_field_reordered: u64,
    pub object_key_order_changed: u64,
}

/// `true` when the returned value is exactly the model value (typed; floats by bit pattern;
/// object entries compared as a key -> value map because a JSON object is unordered).
pub fn mv_eq(m: &MV, v: &OwnedValue, st: &mut CmpStats) -> bool {
    st.json_nodes += 1;
    match (m, v) {
        (MV::Null, OwnedValue::Null) => true,
        (MV::Str(a), OwnedValue::Str(b)) => a == b,
        (MV::PreTok(a), OwnedValue::Str(b)) => a == b,
        (MV::PreTok(a), OwnedValue::PreTokStr(b)) => *a == b.text,
        (MV::U64(a), OwnedValue::U64(b)) => a == b,
        (MV::I64(a), OwnedValue::I64(b)) => a == b,
        (MV::F64(a), OwnedValue::F64(b)) => *a == b.to_bits(),
        (MV::Bool(a), OwnedValue::Bool(b)) => a == b,
        (MV::Date(a), OwnedValue::Date(b)) => *a == b.into_timestamp_nanos(),
        (MV::Facet(p), OwnedValue::Facet(f)) => {
            let got: Vec<&str> = if f.is_root() { vec![] } else { f.to_path() };
            got.len() == p.len() && got.iter().zip(p.iter()).all(|(a, b)| *a == b.as_str())
        }
        (MV::Bytes(a), OwnedValue::Bytes(b)) => a == b,
        (MV::Ip(a), OwnedValue::IpAddr(b)) => *a == u128::from(*b),
        (MV::Arr(a), OwnedValue::Array(b)) => {
            a.len() == b.len() && a.iter().zip(b.iter()).all(|(x, y)| mv_eq(x, y, st))
        }
        (MV::Obj(a), OwnedValue::Object(b)) => {
            if a.len() != b.len() {
                return false;
            }
            let same_order = a.iter().zip(b.iter()).all(|((k, _), (k2, _))| k == k2);
            if same_order {
                a.iter().zip(b.iter()).all(|((_, x), (_, y))| mv_eq(x, y, st))
            } else {
                st.object_key_order_changed += 1;
                // model keys are unique by construction
                let mut bm: BTreeMap<&str, Vec<&OwnedValue>> = BTreeMap::new();
                for (k, y) in b {
                    bm.entry(k.as_str()).or_default().push(y);
                }
                a.iter().all(|(k, x)| match bm.get(k.as_str()) {
                    Some(ys) if ys.len() == 1 => mv_eq(x, ys[0], st),
                    _ => false,
                })
            }
        }
        _ => false,
    }
}

pub fn brief_owned(v: &OwnedValue) -> String {
    truncate(&format!("{v:?}"), 160)
}

pub struct Mismatch {
    /// stable, e.g. `value-mismatch:json`
    pub what: String,
    pub detail: J,
}

/// Compares a returned document with the model document.
pub fn check_doc(sch: &Sch, m: &MDoc, got: &TantivyDocument, st: &mut CmpStats) -> Option<Mismatch> {
    let got_vals: Vec<(Field, OwnedValue)> =
        got.field_values().map(|(f, v)| (f, OwnedValue::from(v))).collect();
    let mut got_by: BTreeMap<usize, Vec<&OwnedValue>> = BTreeMap::new();
    let mut got_seq: Vec<usize> = vec![];
    for (f, v) in &got_vals {
        match sch.by_field.get(&f.field_id()) {
            Some(&slot) if sch.fields[slot].stored => {
                got_by.entry(slot).or_default().push(v);
                got_seq.push(slot);
            }
            Some(&slot) => {
                return Some(Mismatch {
                    what: format!("nonstored-field-returned:{}", sch.fields[slot].kind.name()),
                    detail: json!({"field": sch.fields[slot].name, "value": brief_owned(v), "doc_id": m.id}),
                });
            }
            None => {
                let name = if *f == sch.id {
                    "id"
                } else if *f == sch.sk {
                    "sk"
                } else {
                    "?unknown-field-id"
                };
                return Some(Mismatch {
                    what: "nonstored-field-returned:u64".to_string(),
                    detail: json!({"field": name, "field_id": f.field_id(), "value": brief_owned(v), "doc_id": m.id}),
                });
            }
        }
    }
    let mut exp_by: BTreeMap<usize, Vec<&MV>> = BTreeMap::new();
    let mut exp_seq: Vec<usize> = vec![];
    for (slot, v) in m.stored_vals(sch) {
        exp_by.entry(*slot).or_default().push(v);
        exp_seq.push(*slot);
    }
    for (slot, evs) in &exp_by {
        let fs = &sch.fields[*slot];
        let gvs = match got_by.get(slot) {
            Some(g) => g,
            None => {
                return Some(Mismatch {
                    what: format!("field-missing:{}", fs.kind.name()),
                    detail: json!({"field": fs.name, "expected_values": evs.len(), "doc_id": m.id,
                        "first_expected": evs[0].brief()}),
                })
            }
        };
        if gvs.len() != evs.len() {
            return Some(Mismatch {
                what: format!("value-count:{}", fs.kind.name()),
                detail: json!({"field": fs.name, "expected_values": evs.len(), "got_values": gvs.len(), "doc_id": m.id}),
            });
        }
        if evs.len() > 1 {
            st.multi_fields += 1;
        }
        for (i, (e, g)) in evs.iter().zip(gvs.iter()).enumerate() {
            st.values += 1;
            if !mv_eq(e, g, st) {
                // same multiset in another order?
                let mut used = vec![false; gvs.len()];
                let mut tmp = CmpStats::default();
                let perm = evs.iter().all(|e| {
                    for (j, g) in gvs.iter().enumerate() {
                        if !used[j] && mv_eq(e, g, &mut tmp) {
                            used[j] = true;
                            return true;
                        }
                    }
                    false
                });
                let what = if perm { "multivalue-order" } else { "value-mismatch" };
                return Some(Mismatch {
                    what: format!("{what}:{}", fs.kind.name()),
                    detail: json!({"field": fs.name, "value_index": i, "of": evs.len(), "doc_id": m.id,
                        "expected": e.brief(), "got": brief_owned(g)}),
                });
            }
        }
    }
    for (slot, gvs) in &got_by {
        if !exp_by.contains_key(slot) {
            let fs = &sch.fields[*slot];
            return Some(Mismatch {
                what: format!("field-extra:{}", fs.kind.name()),
                detail: json!({"field": fs.name, "got_values": gvs.len(), "first": brief_owned(gvs[0]), "doc_id": m.id}),
            });
        }
    }
    if got_seq != exp_seq {
        st.cross_field_reordered += 1;
    }
    None
}

/// Light check of `to_json`: exactly the stored field names of the model, the right number of
/// values per field, and exact values for kinds whose JSON rendering is unambiguous.
pub fn check_to_json(sch: &Sch, m: &MDoc, got: &TantivyDocument) -> Option<Mismatch> {
    let txt = got.to_json(&sch.schema);
    let parsed: J = match serde_json::from_str(&txt) {
        Ok(v) => v,
        Err(e) => {
            return Some(Mismatch {
                what: "to_json:unparsable".into(),
                detail: json!({"error": e.to_string(), "json": truncate(&txt, 200), "doc_id": m.id}),
            })
        }
    };
    let obj = match parsed.as_object() {
        Some(o) => o,
        None => {
            return Some(Mismatch {
                what: "to_json:not-an-object".into(),
                detail: json!({"json": truncate(&txt, 200), "doc_id": m.id}),
            })
        }
    };
    let mut exp_by: BTreeMap<&str, Vec<&MV>> = BTreeMap::new();
    for (slot, v) in m.stored_vals(sch) {
        exp_by.entry(sch.fields[*slot].name).or_default().push(v);
    }
    let got_keys: Vec<&str> = obj.keys().map(|k| k.as_str()).collect();
    let exp_keys: Vec<&str> = exp_by.keys().copied().collect();
    let mut gk = got_keys.clone();
    gk.sort();
    if gk != exp_keys {
        return Some(Mismatch {
            what: "to_json:field-set".into(),
            detail: json!({"expected": exp_keys, "got": got_keys, "doc_id": m.id}),
        });
    }
    for (name, evs) in &exp_by {
        let arr = match obj[*name].as_array() {
            Some(a) => a,
            None => {
                return Some(Mismatch {
                    what: "to_json:values-not-array".into(),
                    detail: json!({"field": name, "doc_id": m.id}),
                })
            }
        };
        if arr.len() != evs.len() {
            return Some(Mismatch {
                what: "to_json:value-count".into(),
                detail: json!({"field": name, "expected": evs.len(), "got": arr.len(), "doc_id": m.id}),
            });
        }
        for (e, g) in evs.iter().zip(arr.iter()) {
            let ok = match e {
                MV::Str(s) | MV::PreTok(s) => g.as_str() == Some(s.as_str()),
                MV::U64(x) => g.as_u64() == Some(*x),
                MV::I64(x) => g.as_i64() == Some(*x),
                MV::Bool(x) => g.as_bool() == Some(*x),
                _ => true,
            };
            if !ok {
                return Some(Mismatch {
                    what: format!("to_json:value:{}", e.kind_name()),
                    detail: json!({"field": name, "expected": e.brief(), "got": truncate(&g.to_string(), 160), "doc_id": m.id}),
                });
            }
        }
    }
    None
}

// ---------------------------------------------------------------------------------------------
// block layout model (classification and access-pattern construction only; never a verdict)

#[derive(Clone, Debug, Default)]
pub struct Layout {
    /// first doc id of each block
    pub starts: Vec<u32>,
    /// uncompressed payload bytes per block
    pub bytes: Vec<usize>,
    pub ndocs: u32,
}

impl Layout {
    pub fn nblocks(&self) -> usize {
        self.starts.len()
    }
    pub fn block_of(&self, doc: u32) -> usize {
        match self.starts.binary_search(&doc) {
            Ok(i) => i,
            Err(i) => i.saturating_sub(1),
        }
    }
    pub fn doc_range(&self, block: usize) -> (u32, u32) {
        let s = self.starts[block];
        let e = if block + 1 < self.starts.len() { self.starts[block + 1] } else { self.ndocs };
        (s, e)
    }
    pub fn max_block_bytes(&self) -> usize {
        self.bytes.iter().copied().max().unwrap_or(0)
    }
    pub fn max_docs_per_block(&self) -> u32 {
        (0..self.nblocks()).map(|b| { let (s, e) = self.doc_range(b); e - s }).max().unwrap_or(0)
    }
    /// number of skip-index layers: a new layer is created each time a layer block reaches 8
    pub fn layers(&self) -> usize {
        let mut b = self.nblocks();
        if b == 0 {
            return 0;
        }
        let mut l = 1;
        while b >= 8 {
            b /= 8;
            l += 1;
        }
        l
    }
}

pub enum LOp<'a> {
    /// `n` documents appended one by one (store / store_bytes)
    Docs(usize),
    /// a whole store stacked (current block flushed first)
    Stack(&'a Layout),
}

/// Replays the writer's block-cutting rule (`len + 8 * ndocs > block_size` after each doc).
pub fn layout_from(ops: &[LOp], lens: &[usize], block_size: usize) -> Layout {
    let mut lay = Layout::default();
    let mut cur_len = 0usize;
    let mut cur_docs = 0u32;
    let mut next_doc = 0u32;
    let mut li = 0usize;
    let flush = |lay: &mut Layout, cur_len: &mut usize, cur_docs: &mut u32, next_doc: u32| {
        if *cur_docs > 0 {
            lay.starts.push(next_doc - *cur_docs);
            lay.bytes.push(*cur_len);
            *cur_len = 0;
            *cur_docs = 0;
        }
    };
    for op in ops {
        match op {
            LOp::Docs(n) => {
                for _ in 0..*n {
                    let l = lens.get(li).copied().unwrap_or(1);
                    li += 1;
                    cur_len += l;
                    cur_docs += 1;
                    next_doc += 1;
                    if cur_len + 8 * cur_docs as usize > block_size {
                        flush(&mut lay, &mut cur_len, &mut cur_docs, next_doc);
                    }
                }
            }
            LOp::Stack(src) => {
                flush(&mut lay, &mut cur_len, &mut cur_docs, next_doc);
                for (i, s) in src.starts.iter().enumerate() {
                    lay.starts.push(next_doc + *s);
                    lay.bytes.push(src.bytes[i]);
                }
                next_doc += src.ndocs;
                li += src.ndocs as usize;
            }
        }
    }
    flush(&mut lay, &mut cur_len, &mut cur_docs, next_doc);
    lay.ndocs = next_doc;
    lay
}

pub fn blocks_class(n: usize) -> String {
    match n {
        0..=2 | 5..=9 | 63..=65 | 511..=513 | 4095..=4097 => n.to_string(),
        3..=4 => "3-4".into(),
        10..=62 => "10-62".into(),
        66..=510 => "66-510".into(),
        514..=4094 => "514-4094".into(),
        _ => ">4097".into(),
    }
}

pub fn bs_class(bs: usize) -> String {
    match bs {
        0..=16 => format!("{bs}"),
        17..=255 => "17-255".into(),
        256..=4095 => "256-4095".into(),
        4096..=16382 => "4096-16382".into(),
        16383..=16385 => format!("{bs}"),
        16386..=1048575 => "16386-1M".into(),
        _ => ">=1M".into(),
    }
}

pub fn dpb_class(n: u32) -> &'static str {
    match n {
        0 => "0",
        1 => "1",
        2 => "2",
        3..=8 => "3-8",
        9..=100 => "9-100",
        _ => ">100",
    }
}
