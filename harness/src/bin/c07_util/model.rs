//! Naive model of an inverted index + a builder that feeds the same values to tantivy and to the
//! model. The model never calls tantivy's analysis: text is made of words separated by single
//! spaces, and the three tokenizers used ("default", "raw", "whitespace") are modelled by their
//! documented rules.
use std::collections::{BTreeMap, HashMap};
use std::net::Ipv6Addr;

use tantivy::indexer::NoMergePolicy;
use tantivy::schema::*;
use tantivy::tokenizer::{PreTokenizedString, Token};
use tantivy::{DateTime, Index, IndexWriter, TantivyDocument, Term};

/// documented: `tantivy::tokenizer::MAX_TOKEN_LEN` = u16::MAX - 5; longer tokens are ignored
pub const MAX_TOKEN_LEN: usize = 65_530;
/// documented (stacker `mutate_or_create`, postings_writer.rs `index_text`): the in-memory key of
/// a term is limited to u16::MAX bytes; a token that does not fit after the key prefix is dropped
pub const ARENA_KEY_MAX: usize = u16::MAX as usize;
/// key prefix of a JSON text term: field id (4) + path id (4) + type code (1)
pub const JSON_TEXT_KEY_PREFIX: usize = 4 + 4 + 1;
/// longest JSON text token that is indexed; longer ones are dropped
pub const JSON_MAX_TOKEN_LEN: usize = {
    let room = ARENA_KEY_MAX - JSON_TEXT_KEY_PREFIX;
    if room < MAX_TOKEN_LEN {
        room
    } else {
        MAX_TOKEN_LEN
    }
};
/// documented: `RemoveLongFilter::limit(40)` of the "default" analyzer keeps tokens with len < 40
pub const DEFAULT_TOKENIZER_LIMIT: usize = 40;
/// documented in postings_writer.rs: gap between the values of a multi-valued text field
pub const POSITION_GAP: u32 = 1;

#[derive(Clone, Copy, PartialEq, Eq, Debug)]
pub enum Kind {
    Text,
    U64,
    I64,
    F64,
    Bool,
    Date,
    Bytes,
    Ip,
    Facet,
    Json,
}

impl Kind {
    pub fn name(self) -> &'static str {
        match self {
            Kind::Text => "text",
            Kind::U64 => "u64",
            Kind::I64 => "i64",
            Kind::F64 => "f64",
            Kind::Bool => "bool",
            Kind::Date => "date",
            Kind::Bytes => "bytes",
            Kind::Ip => "ip",
            Kind::Facet => "facet",
            Kind::Json => "json",
        }
    }
}

#[derive(Clone, Copy, PartialEq, Eq, Debug)]
pub enum Tok {
    Default,
    Raw,
    White,
}

impl Tok {
    pub fn name(self) -> &'static str {
        match self {
            Tok::Default => "default",
            Tok::Raw => "raw",
            Tok::White => "whitespace",
        }
    }
}

pub fn opt_name(o: IndexRecordOption) -> &'static str {
    match o {
        IndexRecordOption::Basic => "basic",
        IndexRecordOption::WithFreqs => "freq",
        IndexRecordOption::WithFreqsAndPositions => "position",
    }
}

#[derive(Clone, Debug)]
pub struct Proto {
    pub kind: Kind,
    /// what the schema records for the field (Basic for everything but text / json)
    pub opt: IndexRecordOption,
    pub norms: bool,
    pub tok: Tok,
    pub expand_dots: bool,
}

impl Proto {
    pub fn text(tok: Tok, opt: IndexRecordOption, norms: bool) -> Proto {
        Proto { kind: Kind::Text, opt, norms, tok, expand_dots: false }
    }
    pub fn simple(kind: Kind, norms: bool) -> Proto {
        let norms = norms && kind != Kind::Facet;
        Proto { kind, opt: IndexRecordOption::Basic, norms, tok: Tok::Raw, expand_dots: false }
    }
    pub fn json(tok: Tok, opt: IndexRecordOption, expand_dots: bool) -> Proto {
        Proto { kind: Kind::Json, opt, norms: false, tok, expand_dots }
    }
    pub fn describe(&self) -> String {
        format!(
            "{}:{}:{}:norms={}:dots={}",
            self.kind.name(),
            opt_name(self.opt),
            self.tok.name(),
            self.norms,
            self.expand_dots
        )
    }
}

#[allow(dead_code)]
pub struct FieldSpec {
    pub name: String,
    pub field: Field,
    pub proto: Proto,
}

#[derive(Clone, Debug)]
pub enum JLeafR {
    /// the token is the key suffix after `path \0 's'`
    Str,
    I64(i64),
    U64(u64),
    F64(f64),
    Bool(bool),
    /// original (untruncated) timestamp in nanoseconds
    Date(i64),
}

/// How to rebuild the term through the public `Term` constructors.
#[derive(Clone, Debug)]
pub enum Recipe {
    /// text / bytes: the key itself is the value
    Key,
    U64(u64),
    I64(i64),
    F64(f64),
    Bool(bool),
    /// original (untruncated) timestamp in nanoseconds
    Date(i64),
    Ip(u128),
    Facet(Vec<String>),
    /// (user-level dotted path with escapes, leaf)
    Json(Box<(String, JLeafR)>),
}

pub struct TermPost {
    pub recipe: Recipe,
    /// false for terms recorded without term frequency (non-text values): tf reads as 1
    pub bears_tf: bool,
    pub docs: Vec<u32>,
    pub tfs: Vec<u32>,
    /// flattened positions (only when the field records positions and the term bears tf)
    pub pos: Vec<u32>,
    pub pos_start: Vec<u32>,
}

impl TermPost {
    pub fn positions(&self, i: usize) -> &[u32] {
        let s = self.pos_start[i] as usize;
        &self.pos[s..s + self.tfs[i] as usize]
    }
}

pub struct FieldModel {
    pub terms: BTreeMap<Vec<u8>, TermPost>,
    pub total_tokens: u64,
    /// number of tokens (text) / values (typed) per document
    pub norms: Vec<u32>,
    pub store_pos: bool,
}

impl FieldModel {
    pub fn rec(
        &mut self,
        key: &[u8],
        doc: u32,
        pos: u32,
        bears_tf: bool,
        mk: impl FnOnce() -> Recipe,
    ) {
        self.total_tokens += 1;
        let store_pos = self.store_pos && bears_tf;
        if !self.terms.contains_key(key) {
            self.terms.insert(
                key.to_vec(),
                TermPost {
                    recipe: mk(),
                    bears_tf,
                    docs: vec![],
                    tfs: vec![],
                    pos: vec![],
                    pos_start: vec![],
                },
            );
        }
        let tp = self.terms.get_mut(key).unwrap();
        if tp.docs.last() == Some(&doc) {
            *tp.tfs.last_mut().unwrap() += 1;
        } else {
            tp.docs.push(doc);
            tp.tfs.push(1);
            tp.pos_start.push(tp.pos.len() as u32);
        }
        if store_pos {
            tp.pos.push(pos);
        }
    }
}

/// Our own JSON tree (the oracle walks this one, tantivy gets the `OwnedValue` made from it).
#[derive(Clone, Debug)]
pub enum J {
    Null,
    Str(String),
    U(u64),
    I(i64),
    F(f64),
    B(bool),
    /// timestamp nanos
    D(i64),
    Arr(Vec<J>),
    Obj(Vec<(String, J)>),
}

impl J {
    pub fn to_owned_value(&self) -> OwnedValue {
        match self {
            J::Null => OwnedValue::Null,
            J::Str(s) => OwnedValue::Str(s.clone()),
            J::U(v) => OwnedValue::U64(*v),
            J::I(v) => OwnedValue::I64(*v),
            J::F(v) => OwnedValue::F64(*v),
            J::B(v) => OwnedValue::Bool(*v),
            J::D(v) => OwnedValue::Date(DateTime::from_timestamp_nanos(*v)),
            J::Arr(v) => OwnedValue::Array(v.iter().map(|x| x.to_owned_value()).collect()),
            J::Obj(kv) => OwnedValue::Object(
                kv.iter().map(|(k, v)| (k.clone(), v.to_owned_value())).collect(),
            ),
        }
    }
}

pub fn i64_to_u64(v: i64) -> u64 {
    (v as u64) ^ (1u64 << 63)
}

/// order-preserving map of f64 to u64 (Lemire), as documented for `common::f64_to_u64`
pub fn f64_to_u64(v: f64) -> u64 {
    let bits = v.to_bits();
    if bits >> 63 == 0 {
        bits ^ (1u64 << 63)
    } else {
        !bits
    }
}

/// documented: the indexed precision of dates is seconds, obtained by truncation
pub fn trunc_secs(nanos: i64) -> i64 {
    (nanos / 1_000_000_000) * 1_000_000_000
}

/// token model: (position inside the value, token text)
pub fn tokens(tok: Tok, text: &str) -> Vec<(u32, &str)> {
    match tok {
        Tok::Raw => vec![(0, text)],
        Tok::White => text
            .split(' ')
            .filter(|w| !w.is_empty())
            .enumerate()
            .map(|(i, w)| (i as u32, w))
            .collect(),
        Tok::Default => text
            .split(' ')
            .filter(|w| !w.is_empty())
            .enumerate()
            .filter(|(_, w)| w.len() < DEFAULT_TOKENIZER_LIMIT)
            .map(|(i, w)| (i as u32, w))
            .collect(),
    }
}

fn escape_seg(seg: &str) -> String {
    let mut s = String::with_capacity(seg.len());
    for c in seg.chars() {
        if c == '.' || c == '\\' {
            s.push('\\');
        }
        s.push(c);
    }
    s
}

pub struct Built {
    pub index: Index,
    pub specs: Vec<FieldSpec>,
    pub models: Vec<FieldModel>,
    pub ndocs: u32,
}

thread_local! {
    /// when set, `SegBuilder::new` on this thread writes through `SingleSegmentIndexWriter`
    /// (segment writer finalised directly: no worker thread, no segment updater)
    static SINGLE_SEGMENT_WRITER: std::cell::Cell<bool> = const { std::cell::Cell::new(false) };
}

pub fn set_single_segment_writer(on: bool) {
    SINGLE_SEGMENT_WRITER.with(|c| c.set(on));
}

enum AnyWriter {
    Multi(IndexWriter),
    Single(Box<tantivy::indexer::SingleSegmentIndexWriter>),
}

pub struct SegBuilder {
    pub specs: Vec<FieldSpec>,
    pub models: Vec<FieldModel>,
    pub index: Index,
    writer: AnyWriter,
    pub ndocs: u32,
    cur: TantivyDocument,
    end_pos: Vec<u32>,
    ntok: Vec<u32>,
    json_pos: Vec<HashMap<String, u32>>,
    dirty: Vec<usize>,
    is_dirty: Vec<bool>,
}

impl SegBuilder {
    pub fn create(protos: Vec<Proto>, budget: usize) -> Result<SegBuilder, String> {
        let mut sb = Schema::builder();
        let mut specs = vec![];
        for (i, p) in protos.into_iter().enumerate() {
            let name = format!("f{}_{}", i, p.kind.name());
            let indexing = TextFieldIndexing::default()
                .set_tokenizer(p.tok.name())
                .set_index_option(p.opt)
                .set_fieldnorms(p.norms);
            let field = match p.kind {
                Kind::Text => sb.add_text_field(
                    &name,
                    TextOptions::default().set_indexing_options(indexing),
                ),
                Kind::U64 | Kind::I64 | Kind::F64 | Kind::Bool => {
                    let mut o = NumericOptions::default().set_indexed();
                    if p.norms {
                        o = o.set_fieldnorm();
                    }
                    match p.kind {
                        Kind::U64 => sb.add_u64_field(&name, o),
                        Kind::I64 => sb.add_i64_field(&name, o),
                        Kind::F64 => sb.add_f64_field(&name, o),
                        _ => sb.add_bool_field(&name, o),
                    }
                }
                Kind::Date => {
                    let mut o = DateOptions::default().set_indexed();
                    if p.norms {
                        o = o.set_fieldnorm();
                    }
                    sb.add_date_field(&name, o)
                }
                Kind::Bytes => {
                    let mut o = BytesOptions::default().set_indexed();
                    if p.norms {
                        o = o.set_fieldnorms();
                    }
                    sb.add_bytes_field(&name, o)
                }
                Kind::Ip => {
                    let mut o = IpAddrOptions::default().set_indexed();
                    if p.norms {
                        o = o.set_fieldnorms();
                    }
                    sb.add_ip_addr_field(&name, o)
                }
                Kind::Facet => sb.add_facet_field(&name, FacetOptions::default()),
                Kind::Json => {
                    let mut o = JsonObjectOptions::default().set_indexing_options(indexing);
                    if p.expand_dots {
                        o = o.set_expand_dots_enabled();
                    }
                    sb.add_json_field(&name, o)
                }
            };
            specs.push(FieldSpec { name, field, proto: p });
        }
        let schema = sb.build();
        let index = Index::create_in_ram(schema);
        let writer = if SINGLE_SEGMENT_WRITER.with(|c| c.get()) {
            AnyWriter::Single(Box::new(
                tantivy::indexer::SingleSegmentIndexWriter::new(index.clone(), budget).map_err(|e| format!("single-segment writer: {e}"))?,
            ))
        } else {
            let writer: IndexWriter = index
                .writer_with_num_threads(1, budget)
                .map_err(|e| format!("writer: {e}"))?;
            writer.set_merge_policy(Box::new(NoMergePolicy));
            AnyWriter::Multi(writer)
        };
        let n = specs.len();
        let models = specs
            .iter()
            .map(|s| FieldModel {
                terms: BTreeMap::new(),
                total_tokens: 0,
                norms: vec![],
                store_pos: s.proto.opt == IndexRecordOption::WithFreqsAndPositions,
            })
            .collect();
        Ok(SegBuilder {
            specs,
            models,
            index,
            writer,
            ndocs: 0,
            cur: TantivyDocument::default(),
            end_pos: vec![0; n],
            ntok: vec![0; n],
            json_pos: (0..n).map(|_| HashMap::new()).collect(),
            dirty: vec![],
            is_dirty: vec![false; n],
        })
    }

    fn touch(&mut self, fi: usize) {
        if !self.is_dirty[fi] {
            self.is_dirty[fi] = true;
            self.dirty.push(fi);
        }
    }

    /// one text value (text and tokenizer must obey the rules stated in `tokens`)
    pub fn text(&mut self, fi: usize, text: &str) {
        debug_assert!(self.specs[fi].proto.kind == Kind::Text);
        self.cur.add_text(self.specs[fi].field, text);
        let tok = self.specs[fi].proto.tok;
        let doc = self.ndocs;
        let base = self.end_pos[fi];
        let mut new_end = base;
        let mut n = 0;
        for (p, w) in tokens(tok, text) {
            if w.len() > MAX_TOKEN_LEN {
                continue;
            }
            let start = base + p;
            new_end = new_end.max(start + 1);
            self.models[fi].rec(w.as_bytes(), doc, start, true, || Recipe::Key);
            n += 1;
        }
        self.end_pos[fi] = new_end + POSITION_GAP;
        self.ntok[fi] += n;
        self.touch(fi);
    }

    /// one pre-tokenized value: (position, position_length, text), positions non-decreasing
    pub fn pretok(&mut self, fi: usize, toks: &[(u32, u32, String)]) {
        let pts = PreTokenizedString {
            text: toks.iter().map(|t| t.2.as_str()).collect::<Vec<_>>().join(" "),
            tokens: toks
                .iter()
                .map(|(p, l, t)| Token {
                    offset_from: 0,
                    offset_to: t.len(),
                    position: *p as usize,
                    text: t.clone(),
                    position_length: *l as usize,
                })
                .collect(),
        };
        self.cur.add_pre_tokenized_text(self.specs[fi].field, pts);
        let doc = self.ndocs;
        let base = self.end_pos[fi];
        let mut new_end = base;
        let mut n = 0;
        for (p, l, t) in toks {
            if t.len() > MAX_TOKEN_LEN {
                continue;
            }
            let start = base + *p;
            new_end = new_end.max(start + *l);
            self.models[fi].rec(t.as_bytes(), doc, start, true, || Recipe::Key);
            n += 1;
        }
        self.end_pos[fi] = new_end + POSITION_GAP;
        self.ntok[fi] += n;
        self.touch(fi);
    }

    fn typed(&mut self, fi: usize, key: &[u8], recipe: Recipe) {
        let doc = self.ndocs;
        self.models[fi].rec(key, doc, 0, false, || recipe);
        self.ntok[fi] += 1;
        self.touch(fi);
    }

    pub fn u64(&mut self, fi: usize, v: u64) {
        self.cur.add_u64(self.specs[fi].field, v);
        self.typed(fi, &v.to_be_bytes(), Recipe::U64(v));
    }
    pub fn i64(&mut self, fi: usize, v: i64) {
        self.cur.add_i64(self.specs[fi].field, v);
        self.typed(fi, &i64_to_u64(v).to_be_bytes(), Recipe::I64(v));
    }
    pub fn f64(&mut self, fi: usize, v: f64) {
        self.cur.add_f64(self.specs[fi].field, v);
        self.typed(fi, &f64_to_u64(v).to_be_bytes(), Recipe::F64(v));
    }
    pub fn bool(&mut self, fi: usize, v: bool) {
        self.cur.add_bool(self.specs[fi].field, v);
        self.typed(fi, &(v as u64).to_be_bytes(), Recipe::Bool(v));
    }
    pub fn date(&mut self, fi: usize, nanos: i64) {
        self.cur
            .add_date(self.specs[fi].field, DateTime::from_timestamp_nanos(nanos));
        self.typed(
            fi,
            &i64_to_u64(trunc_secs(nanos)).to_be_bytes(),
            Recipe::Date(nanos),
        );
    }
    pub fn bytes(&mut self, fi: usize, v: &[u8]) {
        self.cur.add_bytes(self.specs[fi].field, v);
        self.typed(fi, v, Recipe::Key);
    }
    pub fn ip(&mut self, fi: usize, v: u128) {
        self.cur.add_ip_addr(self.specs[fi].field, Ipv6Addr::from(v));
        self.typed(fi, &v.to_be_bytes(), Recipe::Ip(v));
    }
    /// facet given by its path segments (non-empty, without '/' and NUL); all ancestors
    /// including the root are indexed (documented in FacetTokenizer)
    pub fn facet(&mut self, fi: usize, segs: &[String]) {
        let facet = if segs.is_empty() {
            Facet::root()
        } else {
            Facet::from_path(segs.iter().map(|s| s.as_str()))
        };
        self.cur.add_facet(self.specs[fi].field, facet);
        let doc = self.ndocs;
        for k in 0..=segs.len() {
            let key = segs[..k].join("\u{0}");
            let pre = segs[..k].to_vec();
            self.models[fi].rec(key.as_bytes(), doc, 0, false, || Recipe::Facet(pre));
        }
        self.touch(fi);
    }

    /// one JSON object value
    pub fn json(&mut self, fi: usize, obj: &J) {
        debug_assert!(matches!(obj, J::Obj(_)));
        self.cur
            .add_field_value(self.specs[fi].field, &obj.to_owned_value());
        let mut path = String::new();
        let mut segs: Vec<String> = vec![];
        self.json_walk(fi, obj, &mut path, &mut segs);
        self.touch(fi);
    }

    fn json_walk(&mut self, fi: usize, j: &J, path: &mut String, segs: &mut Vec<String>) {
        match j {
            J::Null => {}
            J::Arr(v) => {
                for x in v {
                    self.json_walk(fi, x, path, segs);
                }
            }
            J::Obj(kv) => {
                let expand = self.specs[fi].proto.expand_dots;
                for (k, v) in kv {
                    // keys containing the end-of-path byte are skipped by the indexer
                    if k.as_bytes().contains(&0u8) {
                        continue;
                    }
                    let saved = path.len();
                    if !segs.is_empty() {
                        path.push('\u{1}');
                    }
                    if expand {
                        path.push_str(&k.replace('.', "\u{1}"));
                    } else {
                        path.push_str(k);
                    }
                    segs.push(k.clone());
                    self.json_walk(fi, v, path, segs);
                    segs.pop();
                    path.truncate(saved);
                }
            }
            leaf => self.json_leaf(fi, leaf, path, segs),
        }
    }

    fn json_leaf(&mut self, fi: usize, leaf: &J, path: &str, segs: &[String]) {
        let doc = self.ndocs;
        let user_path = || segs.iter().map(|s| escape_seg(s)).collect::<Vec<_>>().join(".");
        let mut key: Vec<u8> = Vec::with_capacity(path.len() + 16);
        key.extend_from_slice(path.as_bytes());
        key.push(0u8);
        let typed: Option<(u8, u64, JLeafR)> = match leaf {
            J::Str(s) => {
                key.push(b's');
                let plen = key.len();
                let tok = self.specs[fi].proto.tok;
                let base = *self.json_pos[fi].entry(path.to_string()).or_insert(0);
                let mut new_end = base;
                for (p, w) in tokens(tok, s) {
                    if w.len() > JSON_MAX_TOKEN_LEN {
                        continue;
                    }
                    let start = base + p;
                    new_end = new_end.max(start + 1);
                    key.truncate(plen);
                    key.extend_from_slice(w.as_bytes());
                    self.models[fi].rec(&key, doc, start, true, || {
                        Recipe::Json(Box::new((user_path(), JLeafR::Str)))
                    });
                }
                self.json_pos[fi].insert(path.to_string(), new_end + POSITION_GAP);
                None
            }
            J::U(v) => {
                // documented in json_utils.rs: u64 values that fit are indexed as i64
                if *v <= i64::MAX as u64 {
                    Some((b'i', i64_to_u64(*v as i64), JLeafR::I64(*v as i64)))
                } else {
                    Some((b'u', *v, JLeafR::U64(*v)))
                }
            }
            J::I(v) => Some((b'i', i64_to_u64(*v), JLeafR::I64(*v))),
            J::F(v) => {
                let v = *v;
                if !v.is_finite() {
                    None
                } else if v.fract() == 0.0 && v >= i64::MIN as f64 && v <= i64::MAX as f64 {
                    Some((b'i', i64_to_u64(v as i64), JLeafR::I64(v as i64)))
                } else if v.fract() == 0.0 && v >= 0.0 && v <= u64::MAX as f64 {
                    Some((b'u', v as u64, JLeafR::U64(v as u64)))
                } else {
                    Some((b'f', f64_to_u64(v), JLeafR::F64(v)))
                }
            }
            J::B(v) => Some((b'o', *v as u64, JLeafR::Bool(*v))),
            J::D(n) => Some((b'd', i64_to_u64(trunc_secs(*n)), JLeafR::Date(*n))),
            _ => None,
        };
        if let Some((code, val, r)) = typed {
            key.push(code);
            key.extend_from_slice(&val.to_be_bytes());
            self.models[fi].rec(&key, doc, 0, false, || {
                Recipe::Json(Box::new((user_path(), r)))
            });
        }
    }

    pub fn finish_doc(&mut self) -> Result<(), String> {
        let doc = std::mem::take(&mut self.cur);
        match &mut self.writer {
            AnyWriter::Multi(w) => {
                w.add_document(doc).map_err(|e| format!("add_document: {e}"))?;
            }
            AnyWriter::Single(w) => w.add_document(doc).map_err(|e| format!("single-segment add_document: {e}"))?,
        }
        for fi in 0..self.specs.len() {
            let n = self.ntok[fi];
            self.models[fi].norms.push(n);
        }
        for fi in self.dirty.drain(..) {
            self.is_dirty[fi] = false;
            self.end_pos[fi] = 0;
            self.ntok[fi] = 0;
            self.json_pos[fi].clear();
        }
        self.ndocs += 1;
        Ok(())
    }

    pub fn finish(mut self) -> Result<Built, String> {
        match self.writer {
            AnyWriter::Multi(mut w) => {
                w.commit().map_err(|e| format!("commit: {e}"))?;
            }
            AnyWriter::Single(w) => {
                w.finalize().map_err(|e| format!("single-segment finalize: {e}"))?;
            }
        }
        Ok(Built {
            index: self.index,
            specs: self.specs,
            models: self.models,
            ndocs: self.ndocs,
        })
    }
}

/// Builds the term through the public constructors only.
pub fn make_term(spec: &FieldSpec, key: &[u8], tp: &TermPost) -> Term {
    let f = spec.field;
    match &tp.recipe {
        Recipe::Key => match spec.proto.kind {
            Kind::Bytes => Term::from_field_bytes(f, key),
            _ => Term::from_field_text(f, std::str::from_utf8(key).unwrap_or("\u{fffd}")),
        },
        Recipe::U64(v) => Term::from_field_u64(f, *v),
        Recipe::I64(v) => Term::from_field_i64(f, *v),
        Recipe::F64(v) => Term::from_field_f64(f, *v),
        Recipe::Bool(v) => Term::from_field_bool(f, *v),
        Recipe::Date(n) => {
            Term::from_field_date_for_search(f, DateTime::from_timestamp_nanos(*n))
        }
        Recipe::Ip(v) => Term::from_field_ip_addr(f, Ipv6Addr::from(*v)),
        Recipe::Facet(segs) => {
            let facet = if segs.is_empty() {
                Facet::root()
            } else {
                Facet::from_path(segs.iter().map(|s| s.as_str()))
            };
            Term::from_facet(f, &facet)
        }
        Recipe::Json(b) => {
            let (user_path, leaf) = (&b.0, &b.1);
            let mut t = Term::from_field_json_path(f, user_path, spec.proto.expand_dots);
            match leaf {
                JLeafR::Str => {
                    // token = key after `path \0 's'`
                    let p = key.iter().position(|&b| b == 0).map(|p| p + 2).unwrap_or(0);
                    let tok = std::str::from_utf8(&key[p.min(key.len())..]).unwrap_or("\u{fffd}");
                    t.append_type_and_str(tok);
                }
                JLeafR::I64(v) => t.append_type_and_fast_value(*v),
                JLeafR::U64(v) => t.append_type_and_fast_value(*v),
                JLeafR::F64(v) => t.append_type_and_fast_value(*v),
                JLeafR::Bool(v) => t.append_type_and_fast_value(*v),
                JLeafR::Date(n) => t.append_type_and_fast_value(
                    DateTime::from_timestamp_nanos(*n).truncate(DATE_TIME_PRECISION_INDEXED),
                ),
            }
            t
        }
    }
}
