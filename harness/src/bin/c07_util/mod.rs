//! Helpers of the C07 check: the naive model inverted index + segment builder (`model`) the read-back
//! comparison (`verify`) and the generator of terms with equal in-memory hash (`collide`).
pub mod collide;
pub mod model;
pub mod verify;
