//! Stream `vint`: every value that passes through a variable-length integer encoder on the way
//! into the inverted index sits on an encoding-length boundary.
//!
//! The in-memory posting recorders write, per term, a stream of variable-length integers: the
//! doc-id delta to the previous document of the term (the first document's id itself), the term
//! frequency (fields indexed with frequencies only; written when the next document of the term
//! arrives) and `position + 1` of every token (fields indexed with positions). The segment
//! serializer writes the last partial block of a posting list (doc deltas, term frequencies) and
//! of a term's position deltas as variable-length integers again, plus the number of bit-packed
//! position blocks of a term. The encoded length changes at 2^7, 2^14, 2^21 and 2^28, so the
//! plans below place values at 2^k - 1, 2^k and 2^k + 1:
//!
//! * `pos`  - position + 1 (and the delta between two positions of a term) of a token, reached
//!   by a pre-tokenized value carrying the position explicitly, by a multi-valued field whose
//!   values' lengths and position gaps add up to it, or by a plain text / JSON string that long;
//! * `tf`   - the term frequency of a term in one document, fields with frequencies only and
//!   with positions, text and JSON, the heavy document followed by another one of the term or
//!   being the last one; up to 2^14 + 1 in the cheap cases, 2^21 - 1 / 2^21 / 2^21 + 1 in eight
//!   `heavy_tf` cases per run (documents of 2M+ tokens, which also push every position + 1 from
//!   1 to 2^21 + 1 through the recorder of a field with positions);
//! * `gap`  - a segment of 2^21 + a few hundred documents, nearly all of them empty, in which
//!   terms of fields with each record option sit in documents exactly 2^k - 1, 2^k, 2^k + 1
//!   (k = 7, 14, 21) apart, as the first document of the term (delta from 0), between two
//!   documents and inside a list of 128+ documents.
//!
//! The oracle is the one of all other streams (model inverted index + full read-back).
use tantivy::schema::IndexRecordOption as Opt;
use tvmon::report::Report;
use tvmon::rng::Rng;

use super::model::*;
use crate::{budget, gen_text, gen_word, ropt, PlanResult, Planted, MB};

pub const KS: [u32; 4] = [7, 14, 21, 28];
pub const OFFS: [i64; 3] = [-1, 0, 1];

pub fn bval(k: u32, off: i64) -> u32 {
    ((1i64 << k) + off) as u32
}

fn label_of(k: u32, off: i64) -> String {
    format!("2^{k}{}", match off {
        -1 => "-1",
        0 => "",
        _ => "+1",
    })
}

/// `Some("2^k-1" | "2^k" | "2^k+1")` when `v` sits on an encoding-length boundary
pub fn label(v: u32) -> Option<String> {
    for k in KS {
        let c = 1u32 << k;
        if v >= c - 1 && v <= c + 1 {
            return Some(label_of(k, v as i64 - c as i64));
        }
    }
    None
}

/// all boundary values as (k, off)
fn all_boundaries() -> Vec<(u32, i64)> {
    KS.iter().flat_map(|&k| OFFS.iter().map(move |&o| (k, o))).collect()
}

#[derive(Clone, Copy, Debug)]
pub enum Shape {
    /// large segment of nearly empty documents
    Gap { variant: u32 },
    /// one document whose term frequency is 2^21 + off
    HeavyTf { off: i64, positions: bool, json: bool },
    /// position + 1 on a boundary; `designated` indexes `all_boundaries()`; `round` fixes the
    /// route by which field 0 reaches it (0 explicit position + a position delta on the boundary,
    /// 1 multi-valued sum, 2 long text, later rounds random)
    Pos { designated: usize, round: u64 },
    /// term frequency 2^k + off, k in {7, 14}, in field `field` (and random other fields), the
    /// heavy document being the last one of the term or not
    Tf { k: u32, off: i64, field: usize, last: bool },
}

impl Shape {
    pub fn name(&self) -> &'static str {
        match self {
            Shape::Gap { .. } => "vint_gap",
            Shape::HeavyTf { .. } => "vint_heavy_tf",
            Shape::Pos { .. } => "vint_pos",
            Shape::Tf { .. } => "vint_tf",
        }
    }
}

/// cases 0..FIRST_CHEAP_CASE are the heavy ones
pub const FIRST_CHEAP_CASE: u64 = 10;
/// number of cases after which the grid of the cheap cases (12 position boundaries x 3 routes,
/// 6 term-frequency boundaries x 3 fields, heavy document last / not last) is complete
pub const CASES_FOR_FULL_GRID: u64 = FIRST_CHEAP_CASE + 96;

/// The heavy cases come first so that all of them start at once on different threads. The grid
/// (which boundary, which record option) is a function of the case index, not of the seed: every
/// run covers it completely, the seed varies everything around it.
pub fn shape_of(case: u64, thorough: bool, rng: &mut Rng) -> Shape {
    match case {
        0 | 1 => Shape::Gap { variant: case as u32 },
        2..=7 => {
            let i = (case - 2) as usize;
            Shape::HeavyTf { off: OFFS[i % 3], positions: i / 3 == 1, json: false }
        }
        8 | 9 => Shape::HeavyTf { off: 0, positions: case == 9, json: true },
        _ if thorough && case % 64 == 8 => Shape::Gap { variant: 2 + (case / 64) as u32 },
        _ if thorough && case % 64 == 9 => {
            Shape::HeavyTf { off: *rng.pick(&OFFS), positions: rng.bool(), json: rng.chance(1, 2) }
        }
        _ if case % 2 == 0 => {
            let j = (case - FIRST_CHEAP_CASE) / 2;
            Shape::Pos { designated: (j % 12) as usize, round: (j / 12) % 4 }
        }
        _ => {
            let j = (case - FIRST_CHEAP_CASE) / 2;
            let i = (j % 6) as usize;
            Shape::Tf { k: [7u32, 14][i / 3], off: OFFS[i % 3], field: ((j / 6) % 3) as usize, last: (j / 18) % 4 == 3 }
        }
    }
}

pub fn plan(shape: Shape, rng: &mut Rng, rep: &mut Report, thorough: bool) -> PlanResult {
    match shape {
        Shape::Gap { variant } => plan_gap(rng, rep, variant, thorough),
        Shape::HeavyTf { off, positions, json } => {
            let field = if json { 2 } else { positions as usize };
            plan_tf(rng, rep, 21, off, field, Some(positions), false)
        }
        Shape::Pos { designated, round } => plan_pos(rng, rep, designated, round),
        Shape::Tf { k, off, field, last } => plan_tf(rng, rep, k, off, field, None, last),
    }
}

// ------------------------------------------------------------------------------------------
// what was reached (computed from the model alone)

fn recorder_name(opt: Opt, bears_tf: bool) -> &'static str {
    // terms that bear no term frequency (typed values) are recorded with their doc ids only
    if !bears_tf {
        return "docs-only";
    }
    match opt {
        Opt::Basic => "docs-only",
        Opt::WithFreqs => "docs+tf",
        Opt::WithFreqsAndPositions => "docs+positions",
    }
}

/// Records which boundary values the segment's terms carry: doc-id deltas (first document: the id
/// itself), term frequencies, position + 1 and position deltas.
pub fn observe_reach(rep: &mut Report, built: &Built) {
    for (spec, model) in built.specs.iter().zip(built.models.iter()) {
        let opt = spec.proto.opt;
        let kind = spec.proto.kind.name();
        for tp in model.terms.values() {
            let rec = recorder_name(opt, tp.bears_tf);
            let df = tp.docs.len();
            let mut prev = 0u32;
            for (i, &d) in tp.docs.iter().enumerate() {
                if let Some(l) = label(d - prev) {
                    rep.observe("vint_doc_delta_reached", format!("{l}|{rec}"));
                    rep.observe(
                        "vint_doc_delta_place",
                        format!(
                            "{}|{}",
                            if i == 0 { "first-doc-of-term" } else { "between-two-docs" },
                            if df >= 128 { "df>=128" } else { "df<128" }
                        ),
                    );
                }
                prev = d;
            }
            if rec != "docs-only" {
                for (i, &tf) in tp.tfs.iter().enumerate() {
                    if let Some(l) = label(tf) {
                        let place = if i + 1 < df { "then-next-doc" } else { "last-doc" };
                        rep.observe("vint_tf_reached", format!("{l}|{rec}|{place}"));
                        rep.observe("vint_tf_field_kind", format!("{kind}|{rec}"));
                    }
                }
            }
            if !tp.pos.is_empty() {
                for i in 0..df {
                    let mut prevp = 0u32;
                    for &p in tp.positions(i) {
                        if let Some(l) = label(p + 1) {
                            rep.observe("vint_position_plus_one_reached", format!("{l}|{kind}"));
                        }
                        if let Some(l) = label(p.wrapping_sub(prevp)) {
                            rep.observe("vint_position_delta_reached", l);
                        }
                        prevp = p;
                    }
                }
            }
        }
    }
}

/// what every run (quick and thorough) has to reach; missing members make the run inconclusive
pub fn required_reach() -> Vec<(&'static str, String)> {
    let mut v = vec![];
    for &k in &KS[..3] {
        for &o in &OFFS {
            for rec in ["docs-only", "docs+tf", "docs+positions"] {
                v.push(("vint_doc_delta_reached", format!("{}|{rec}", label_of(k, o))));
            }
            v.push(("vint_tf_reached", format!("{}|docs+tf|then-next-doc", label_of(k, o))));
            v.push(("vint_tf_reached", format!("{}|docs+positions|then-next-doc", label_of(k, o))));
        }
    }
    for &k in &KS {
        for &o in &OFFS {
            v.push(("vint_position_plus_one_reached", format!("{}|text", label_of(k, o))));
            v.push(("vint_position_delta_reached", label_of(k, o)));
        }
    }
    v
}

// ------------------------------------------------------------------------------------------
// pos: position + 1 on a boundary

fn filler(rng: &mut Rng, tok: Tok) -> String {
    gen_word(rng, tok, 12)
}

/// plain text of `len` words whose word number `at` is `hot`
fn text_with_word_at(rng: &mut Rng, tok: Tok, len: u32, at: u32, hot: &str) -> String {
    let mut s = String::with_capacity(len as usize * 3);
    let fill: Vec<String> = (0..6).map(|_| filler(rng, tok)).collect();
    for i in 0..len {
        if i > 0 {
            s.push(' ');
        }
        if i == at || rng.chance(1, 40) {
            s.push_str(hot);
        } else {
            s.push_str(rng.pick(&fill[..]).as_str());
        }
    }
    s
}

fn plan_pos(rng: &mut Rng, rep: &mut Report, designated: usize, round: u64) -> PlanResult {
    let bounds = all_boundaries();
    let (dk, doff) = bounds[designated % bounds.len()];
    // the position whose + 1 is the designated boundary value
    let target = bval(dk, doff) - 1;
    let tok1 = *rng.pick(&[Tok::Default, Tok::White]);
    let tok2 = *rng.pick(&[Tok::Default, Tok::White]);
    let protos = vec![
        Proto::text(Tok::White, Opt::WithFreqsAndPositions, rng.bool()),
        Proto::text(tok1, Opt::WithFreqsAndPositions, rng.bool()),
        Proto::json(tok2, Opt::WithFreqsAndPositions, rng.bool()),
    ];
    let mut b = SegBuilder::create(protos, budget(rng))?;
    let n = *rng.pick(&[1usize, 2, 3, 3, 6, 20, 130, 140]);
    let hot_doc = rng.usize_below(n);
    let cheap = dk <= 14;
    for d in 0..n {
        let hot = d == hot_doc || rng.chance(1, 25);
        if !hot {
            for f in [0usize, 1] {
                if rng.chance(3, 4) {
                    let tok = b.specs[f].proto.tok;
                    let mut t = gen_text(rng, tok, 12);
                    if rng.chance(2, 3) {
                        t = if t.is_empty() { "rep".into() } else { format!("{t} rep") };
                    }
                    b.text(f, &t);
                }
            }
            if rng.chance(1, 2) {
                b.json(2, &J::Obj(vec![("a".into(), J::Str("rep x rep".into()))]));
            }
            b.finish_doc()?;
            continue;
        }
        // field 0
        let mut route = if d == hot_doc && round < 3 { round } else { rng.below(3) };
        if route == 2 && !cheap {
            route = 0;
        }
        let forced_delta = d == hot_doc && round == 0;
        match route {
            0 => {
                // one pre-tokenized value that carries the positions explicitly
                let mut ps: Vec<(u32, bool)> = vec![(target, true)];
                for &(k, o) in &bounds {
                    if rng.chance(1, 3) {
                        ps.push((bval(k, o) - 1, rng.chance(3, 4)));
                    }
                }
                for _ in 0..rng.below(4) {
                    let width = rng.range(1, 28);
                    ps.push((rng.below(1u64 << width) as u32, rng.bool()));
                }
                ps.sort_unstable();
                ps.dedup_by_key(|x| x.0);
                // two occurrences of the term whose positions differ by a boundary value
                if forced_delta || rng.chance(1, 2) {
                    let last = ps.last().map(|x| x.0).unwrap_or(0);
                    let a = last + 1 + rng.below(300) as u32;
                    let (k, o) = if forced_delta || rng.bool() { (dk, doff) } else { *rng.pick(&bounds) };
                    ps.push((a, true));
                    ps.push((a + bval(k, o), true));
                }
                let toks: Vec<(u32, u32, String)> = ps
                    .iter()
                    .map(|&(p, is_hot)| {
                        (p, *rng.pick(&[1u32, 1, 1, 2]), if is_hot { "rep".to_string() } else { filler(rng, Tok::White) })
                    })
                    .collect();
                b.pretok(0, &toks);
                if rng.chance(1, 3) {
                    b.text(0, "rep tail rep");
                }
                rep.observe("vint_position_route", "pre-tokenized-explicit-position");
            }
            1 => {
                // multi-valued: lengths and position gaps of the earlier values add up
                let i = rng.below(4) as u32;
                let base = target - i;
                let m = rng.range(1, 3) as u32;
                let mut parts: Vec<u32> = vec![];
                let mut left = base;
                for j in 0..m {
                    let part = if j + 1 == m {
                        left
                    } else {
                        // leave at least 2 per remaining part
                        let room = left - 2 * (m - j - 1);
                        let p = if rng.bool() { rng.range(2, room.min(60) as u64) } else { rng.range(2, room as u64) };
                        p as u32
                    };
                    parts.push(part);
                    left -= part;
                }
                for part in parts {
                    // a value whose end position is part - 1 (the gap to the next value is 1)
                    if part <= 40 && rng.bool() {
                        let words: Vec<String> = (0..part - 1).map(|_| filler(rng, Tok::White)).collect();
                        b.text(0, &words.join(" "));
                    } else {
                        let l = (*rng.pick(&[1u32, 1, 2, 3])).min(part - 1);
                        let r = part - 1 - l;
                        let mut toks = vec![];
                        if r > 0 && rng.bool() {
                            toks.push((0u32, 1u32, if rng.bool() { "rep".to_string() } else { filler(rng, Tok::White) }));
                        }
                        toks.push((r, l, if rng.bool() { "rep".to_string() } else { filler(rng, Tok::White) }));
                        b.pretok(0, &toks);
                    }
                }
                let extra = rng.below(3) as u32;
                let t = text_with_word_at(rng, Tok::White, i + 1 + extra, i, "rep");
                b.text(0, &t);
                rep.observe("vint_position_route", "multi-valued-sum-of-lengths-and-gaps");
            }
            _ => {
                let extra = rng.below(4) as u32;
                let t = text_with_word_at(rng, Tok::White, target + 1 + extra, target, "rep");
                b.text(0, &t);
                rep.observe("vint_position_route", "long-plain-text");
            }
        }
        // fields 1 and 2: plain long strings (only where that is cheap)
        if cheap {
            if rng.chance(2, 3) {
                let tok = b.specs[1].proto.tok;
                let extra = rng.below(4) as u32;
                let t = text_with_word_at(rng, tok, target + 1 + extra, target, "rep");
                if rng.chance(1, 3) && target > 10 {
                    // split into two values: words 0..cut, then the rest (the gap costs one position)
                    let cut = rng.range(1, (target - 2) as u64) as usize;
                    let words: Vec<&str> = t.split(' ').collect();
                    b.text(1, &words[..cut].join(" "));
                    b.text(1, &words[cut + 1..].join(" "));
                } else {
                    b.text(1, &t);
                }
                rep.observe("vint_position_route", "long-plain-text");
            }
            if rng.chance(1, 2) {
                let tok = b.specs[2].proto.tok;
                let extra = rng.below(4) as u32;
                let t = text_with_word_at(rng, tok, target + 1 + extra, target, "rep");
                b.json(2, &J::Obj(vec![("a".into(), J::Str(t)), ("n".into(), J::I(3))]));
                rep.observe("vint_position_route", "long-json-string");
            }
        }
        b.finish_doc()?;
    }
    let planted: Planted = vec![(0, b"rep".to_vec()), (1, b"rep".to_vec())];
    Ok((b.finish()?, planted))
}

// ------------------------------------------------------------------------------------------
// tf: term frequency on a boundary

/// `t` copies of `hot` (other words in between when `noise`), plus a needle word at each boundary
/// token index that exists; built without intermediate vectors (t may be 2^21 + 1)
fn repeated_text(rng: &mut Rng, hot: &str, t: u32, noise: bool) -> String {
    let mut needles: Vec<u32> = all_boundaries()
        .into_iter()
        .map(|(k, o)| bval(k, o) - 1)
        .filter(|&p| p < t && rng.chance(1, 2))
        .collect();
    needles.sort_unstable();
    needles.reverse();
    let mut s = String::with_capacity(t as usize * (hot.len() + 1) + 64);
    let mut written = 0u32;
    let mut idx = 0u32;
    while written < t {
        if needles.last() == Some(&idx) {
            needles.pop();
            s.push_str("needle");
        } else if noise && rng.chance(1, 3) {
            s.push_str(*rng.pick(&["x", "y", "zz"]));
        } else {
            s.push_str(hot);
            written += 1;
        }
        s.push(' ');
        idx += 1;
    }
    s.push_str("tail");
    s
}

/// `heavy`: Some(json field records positions) for the 2^21 documents
fn plan_tf(rng: &mut Rng, rep: &mut Report, k: u32, off: i64, field: usize, heavy: Option<bool>, last: bool) -> PlanResult {
    let t = bval(k, off);
    let tok_a = *rng.pick(&[Tok::Default, Tok::White]);
    let tok_b = *rng.pick(&[Tok::Default, Tok::White]);
    let tok_c = *rng.pick(&[Tok::Default, Tok::White]);
    let json_opt = match heavy {
        Some(true) if field == 2 => Opt::WithFreqsAndPositions,
        Some(false) if field == 2 => Opt::WithFreqs,
        _ => *rng.pick(&[Opt::WithFreqs, Opt::WithFreqsAndPositions]),
    };
    let protos = vec![
        Proto::text(tok_a, Opt::WithFreqs, rng.bool()),
        Proto::text(tok_b, Opt::WithFreqsAndPositions, rng.bool()),
        Proto::json(tok_c, json_opt, rng.bool()),
    ];
    let mut b = SegBuilder::create(protos, if heavy.is_some() { 400 * MB } else { budget(rng) })?;
    // which fields get the heavy document
    let targets: Vec<usize> = match heavy {
        Some(_) => vec![field],
        None => (0..3).filter(|&f| f == field || rng.chance(1, 3)).collect(),
    };
    let n = if heavy.is_some() { rng.urange(2, 4) } else { *rng.pick(&[2usize, 3, 5, 9, 130]) };
    // the heavy document is mostly followed by another document of the term: a recorder of a
    // field without positions writes the term frequency only then
    let hot_doc = if last { n - 1 } else { rng.usize_below(n - 1) };
    for d in 0..n {
        for f in 0..3usize {
            let tok = b.specs[f].proto.tok;
            let is_hot = d == hot_doc && targets.contains(&f);
            if is_hot {
                let noise = heavy.is_none() && rng.chance(1, 3);
                let text = repeated_text(rng, "rep", t, noise);
                if f == 2 {
                    if heavy.is_none() && rng.chance(1, 2) {
                        // the same path reached twice: the frequencies add up
                        let cut = text.len() / 2;
                        let cut = text[cut..].find(' ').map(|x| x + cut).unwrap_or(text.len());
                        let (a, z) = text.split_at(cut);
                        b.json(2, &J::Obj(vec![("a".into(), J::Arr(vec![J::Str(a.to_string()), J::I(1), J::Str(z.trim_start().to_string())]))]));
                    } else {
                        b.json(2, &J::Obj(vec![("a".into(), J::Str(text))]));
                    }
                } else if heavy.is_none() && rng.chance(1, 3) {
                    let cut = text.len() / 3;
                    let cut = text[cut..].find(' ').map(|x| x + cut).unwrap_or(text.len());
                    let (a, z) = text.split_at(cut);
                    b.text(f, a);
                    b.text(f, z.trim_start());
                } else {
                    b.text(f, &text);
                }
                rep.observe("vint_tf_route", format!("{}:{}", b.specs[f].proto.kind.name(), opt_name(b.specs[f].proto.opt)));
            } else if rng.chance(5, 6) || d == hot_doc + 1 {
                let mut words: Vec<String> = (0..rng.below(4)).map(|_| filler(rng, tok)).collect();
                for _ in 0..*rng.pick(&[1usize, 1, 2, 3]) {
                    words.push("rep".into());
                }
                rng.shuffle(&mut words);
                if f == 2 {
                    b.json(2, &J::Obj(vec![("a".into(), J::Str(words.join(" ")))]));
                } else {
                    b.text(f, &words.join(" "));
                }
            }
        }
        b.finish_doc()?;
    }
    let planted: Planted = vec![(0, b"rep".to_vec()), (1, b"rep".to_vec())];
    Ok((b.finish()?, planted))
}

// ------------------------------------------------------------------------------------------
// gap: doc-id deltas on a boundary

struct GapField {
    /// (doc, term number, term frequency)
    ev: Vec<(u32, u32, u8)>,
    nterms: u32,
}

/// Segment of `n` > 2^21 documents, nearly all of them without any value. For every boundary
/// value v < n - 300 each field gets a term whose first document is v, a term with documents a
/// and a + v (short list: the delta also ends up in the variable-length tail of the list on
/// disk), and a term with 128+ documents that contains such a pair (bit-packed block on disk).
fn plan_gap(rng: &mut Rng, rep: &mut Report, variant: u32, thorough: bool) -> PlanResult {
    let top = 1u32 << 21;
    let n: u32 = if variant >= 2 && thorough && rng.bool() {
        rng.range((top + 600) as u64, (3 * top) as u64) as u32
    } else {
        top + 600 + rng.below(300) as u32
    };
    let protos = match variant % 2 {
        0 => vec![
            Proto::text(Tok::White, Opt::Basic, rng.bool()),
            Proto::text(*rng.pick(&[Tok::White, Tok::Default]), Opt::WithFreqs, rng.bool()),
            Proto::text(Tok::White, Opt::WithFreqsAndPositions, rng.bool()),
        ],
        _ => vec![
            Proto::json(Tok::White, *rng.pick(&[Opt::WithFreqs, Opt::WithFreqsAndPositions]), rng.bool()),
            Proto::simple(Kind::U64, rng.bool()),
            Proto::text(Tok::Raw, ropt(rng), rng.bool()),
            Proto::text(Tok::White, *rng.pick(&[Opt::WithFreqs, Opt::WithFreqsAndPositions]), false),
        ],
    };
    let nf = protos.len();
    let mut b = SegBuilder::create(protos, 400 * MB)?;
    let mut values: Vec<u32> = vec![];
    for &k in &KS[..3] {
        for &o in &OFFS {
            values.push(bval(k, o));
        }
    }
    if n > top + 5000 {
        // beyond the last boundary a segment can hold: gaps of the 4-byte class
        for _ in 0..6 {
            values.push(rng.range((top + 2) as u64, (n - 400) as u64) as u32);
        }
    }
    let mut fields: Vec<GapField> = (0..nf).map(|_| GapField { ev: vec![], nterms: 0 }).collect();
    for gf in fields.iter_mut() {
        for &v in &values {
            let room = n - v - 1; // > 290
            let sizes = [0u32, 1, 2, 5, 126, 127, 128, 129, 140];
            let tf = |rng: &mut Rng| if rng.chance(1, 8) { 2u8 } else { 1 };
            // first document of the term = v
            {
                let id = gf.nterms;
                gf.nterms += 1;
                gf.ev.push((v, id, tf(rng)));
                let s = (*rng.pick(&sizes)).min(room);
                let mut d = v;
                for _ in 0..s {
                    d += 1 + (rng.chance(1, 6) as u32);
                    if d >= n {
                        break;
                    }
                    gf.ev.push((d, id, tf(rng)));
                }
            }
            // documents a and a + v, inside a list of p + 1 + s documents
            for long in [false, true] {
                let id = gf.nterms;
                gf.nterms += 1;
                let (p, s) = if long {
                    (*rng.pick(&[1u32, 60, 127, 128, 130]), *rng.pick(&[2u32, 70, 127, 128]))
                } else {
                    (*rng.pick(&[0u32, 0, 1, 3]), *rng.pick(&[0u32, 0, 1, 2]))
                };
                let (p, s) = (p.min(room / 2), s.min(room / 2 - 1));
                // a >= p so that p documents fit before it; a + v + s < n
                let a = p + rng.below((n - v - s - p) as u64) as u32;
                for j in (1..=p).rev() {
                    gf.ev.push((a - j, id, tf(rng)));
                }
                gf.ev.push((a, id, tf(rng)));
                for j in 0..=s {
                    gf.ev.push((a + v + j, id, tf(rng)));
                }
            }
        }
        gf.ev.sort_unstable();
    }
    let mut cur = vec![0usize; nf];
    let mut nonempty = 0u64;
    for d in 0..n {
        let mut any = false;
        for f in 0..nf {
            let gf = &fields[f];
            let start = cur[f];
            let mut e = start;
            while e < gf.ev.len() && gf.ev[e].0 == d {
                e += 1;
            }
            if e == start {
                continue;
            }
            cur[f] = e;
            any = true;
            let p = b.specs[f].proto.clone();
            let mut words: Vec<String> = vec![];
            for &(_, id, tf) in &gf.ev[start..e] {
                for _ in 0..tf {
                    words.push(format!("g{id}"));
                }
            }
            match p.kind {
                Kind::Text if p.tok == Tok::Raw => {
                    for w in &words {
                        b.text(f, w);
                    }
                }
                Kind::Text => b.text(f, &words.join(" ")),
                Kind::U64 => {
                    for &(_, id, _) in &gf.ev[start..e] {
                        b.u64(f, 1000 + id as u64);
                    }
                }
                _ => {
                    // text terms and, for every other term, a typed one (recorded without
                    // term frequency also in a field with frequencies)
                    let nums: Vec<J> = gf.ev[start..e].iter().filter(|x| x.1 % 2 == 1).map(|x| J::I(x.1 as i64)).collect();
                    b.json(f, &J::Obj(vec![("t".into(), J::Str(words.join(" "))), ("n".into(), J::Arr(nums))]));
                }
            }
        }
        if any {
            nonempty += 1;
        }
        b.finish_doc()?;
    }
    rep.count("vint_gap_segment_docs", n as u64);
    rep.count("vint_gap_segment_nonempty_docs", nonempty);
    Ok((b.finish()?, vec![]))
}
