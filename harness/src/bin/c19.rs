//! C19 — tokens and snippets always point inside the text, on character boundaries.
//!
//! Stream "tokens":  (text, tokenizer, filter chain) — every token of
//!   `TextAnalyzer::token_stream(text)` is checked against the statement:
//!   from <= to <= text.len(), both offsets on char boundaries, positions never decrease, and for
//!   chains without a normalising filter `token.text == &text[from..to]`.  In addition the
//!   documented rule of `Token` ("Offsets shall not be modified by token filters") is checked by
//!   driving the bare tokenizer in lock-step with the filtered chain.
//! Stream "regex":   RegexTokenizer over a generated pattern family (empty-matching, anchored,
//!   multi-byte) x texts with 0-4 byte characters between the matches; same checks.
//! Stream "reuse":   one analyzer instance and clones of it over a sequence of texts, streams
//!   dropped after 0..k tokens; per-token checks against the text of the stream plus equality
//!   with the tokens of a freshly built analyzer.
//! Stream "snippets": (analyzer, texts, query / term map, max_num_chars sweep) —
//!   `SnippetGenerator::{create,new}`, `snippet`, `snippet_from_doc`, `Snippet::{fragment,
//!   highlighted, to_html}` against a naive re-construction.
use std::collections::{BTreeMap, BTreeSet};
use std::ops::Range;
use std::sync::atomic::{AtomicU64, Ordering};

use serde_json::{json, Value};
use tantivy::query::{
    AllQuery, BooleanQuery, BoostQuery, ConstScoreQuery, DisjunctionMaxQuery, EmptyQuery,
    FuzzyTermQuery, Occur, PhrasePrefixQuery, PhraseQuery, Query, QueryParser, RegexQuery,
    TermQuery, TermSetQuery,
};
use tantivy::schema::{
    Facet, Field, IndexRecordOption, Schema, TextFieldIndexing, TextOptions, TEXT,
};
use tantivy::snippet::{collapse_overlapped_ranges, Snippet, SnippetGenerator};
use tantivy::tokenizer::{
    AlphaNumOnlyFilter, AsciiFoldingFilter, FacetTokenizer, Language, LowerCaser, NgramTokenizer,
    PreTokenizedStream, PreTokenizedString, RawTokenizer, RegexTokenizer, RemoveLongFilter,
    SimpleTokenizer, SplitCompoundWords, Stemmer, StopWordFilter, TextAnalyzer,
    TextAnalyzerBuilder, Token, TokenStream, TokenizerManager, WhitespaceTokenizer,
};
use tantivy::{Index, IndexWriter, TantivyDocument, Term};
use tvmon::report::*;
use tvmon::rng::Rng;

// ---------------------------------------------------------------------------------------------
// Defect classes of the unchanged tree have their own signatures (see the final report of this
// check / known_findings.txt).  They fire on a large share of the cases, so only the first few
// witnesses per run are recorded as violations (the rest is counted): otherwise they would fill
// the per-thread violation buffer and hide any other signature.

const SIG_FACET: &str = "token:text-ne-slice:facet-tokenizer-never-sets-offsets";
const SIG_OVER_SINGLE: &str = "snippet:fragment-exceeds-max_num_chars:single-token-longer-than-limit";
const SIG_OUTSIDE_OVERLAP: &str =
    "snippet:highlight-outside-fragment:stop_offset-is-last-token-end-not-max(overlapping-tokens)";
const SIG_HTML_PANIC_OVERLAP: &str = "snippet:to_html-panics:highlight-outside-fragment(overlapping-tokens)";
const SIG_EXTRA_LOWER: &str = "snippet:highlight-not-a-query-term:matched-only-by-extra-lowercasing";
const CLASS_SIGS: [&str; 5] =
    [SIG_FACET, SIG_OVER_SINGLE, SIG_OUTSIDE_OVERLAP, SIG_HTML_PANIC_OVERLAP, SIG_EXTRA_LOWER];
static CLASS_REPORTS: [AtomicU64; 5] =
    [AtomicU64::new(0), AtomicU64::new(0), AtomicU64::new(0), AtomicU64::new(0), AtomicU64::new(0)];
const CLASS_WITNESSES_PER_RUN: u64 = 6;

/// panic signature that is stable across inputs: source file + message up to the first digit/quote
fn panic_sig(p: &PanicInfo) -> String {
    let file = p.location.split(':').next().unwrap_or("?");
    let file = match file.find("/src/") {
        Some(i) => &file[i + 1..],
        None => file,
    };
    let msg: String = p
        .message
        .chars()
        .take_while(|c| !c.is_ascii_digit() && *c != '`' && *c != '\'' && *c != '"')
        .take(60)
        .collect();
    format!("{file}:{}", msg.trim())
}

fn class_violation(rep: &mut Report, sig: &'static str, witness: impl FnOnce() -> Value) {
    let i = CLASS_SIGS.iter().position(|s| *s == sig).expect("class signature");
    rep.count(&format!("class-finding:{sig}"), 1);
    if CLASS_REPORTS[i].fetch_add(1, Ordering::Relaxed) < CLASS_WITNESSES_PER_RUN {
        rep.violation(sig, witness());
    }
}

// ---------------------------------------------------------------------------------------------
// text generation

const ASCII: &[&str] = &[
    "hello", "World", "the", "quick", "brown", "Fox", "jumps", "running", "runner", "a", "is",
    "of", "and", "HTML", "x1", "42", "foo_bar", "don't", "e-mail", "C++", "searching", "searched",
    "libraries", "tokenizers", "The", "IS", "Hello", "HELLO", "b", "I",
];
const LATIN: &[&str] = &[
    "café", "Straße", "STRASSE", "naïve", "Ünïcödé", "İstanbul", "ısı", "ǅemal", "ǆ", "Ǆ", "ﬁn",
    "ẞ", "Ångström", "\u{212a}", "\u{2126}", "\u{212b}", "Ⱥ", "Ⱦ", "œuvre", "Æther", "ñandú",
    "İİİ", "ŉ", "ǰ", "İ", "ß", "DŽ", "ĲSSEL", "Łódź", "ÀÉÎÕÜ", "Ǆungla", "ẞtraẞe",
];
const GREEK: &[&str] = &["ΟΔΟΣ", "οδός", "ΣΊΣΥΦΟΣ", "ς", "Σ", "σ", "ΑΣ", "ΆΣΣΟΣ", "Ὀδυσσεύς", "ᾈ", "ΐ"];
const CYRILLIC: &[&str] = &["Привет", "мир", "бегущий", "книги", "ЁЖИК", "Київ", "ђ"];
const ARABIC: &[&str] = &["مرحبا", "العالم", "كتاب", "الكتب", "والكتاب", "٣٤"];
const HEBREW: &[&str] = &["שלום", "עולם", "סֵפֶר"];
const INDIC: &[&str] = &["नमस्ते", "दुनिया", "क्षत्रिय", "வணக்கம்", "உலகம்", "புத்தகங்கள்", "১২৩"];
const THAI: &[&str] = &["สวัสดี", "ครับ", "ภาษาไทย"];
const CJK: &[&str] = &["你好", "世界", "東京都", "馬", "こんにちは", "カタカナ", "ｶﾀｶﾅ", "안녕하세요", "세계", "１２３", "ＡＢＣ"];
const TURKISH: &[&str] = &["kitaplar", "gözlükçü", "IŞIK", "ışık", "İĞNE", "kitaplarımızdan"];
const GERMAN: &[&str] = &[
    "dampfschiff", "Donaudampfschifffahrt", "Fußballweltmeisterschaft", "dampf", "schiff",
    "fußball", "weltmeister",
];
const COMBINING: &[&str] = &[
    "e\u{301}", "a\u{308}\u{301}", "i\u{307}", "Z\u{351}\u{36b}\u{343}a\u{363}l\u{36f}g\u{34e}o",
    "\u{301}", "n\u{303}o", "क\u{94d}ष", "I\u{307}", "o\u{302}\u{323}", "\u{1ab0}x", "각",
];
const EMOJI: &[&str] = &[
    "😀", "👨\u{200d}👩\u{200d}👧\u{200d}👦", "👍🏽", "🇫🇷", "❤\u{fe0f}", "1\u{fe0f}\u{20e3}",
    "🏳\u{fe0f}\u{200d}🌈", "🧑🏿\u{200d}🚀", "©\u{fe0f}", "🇩🇪🇯🇵", "👩\u{200d}❤\u{fe0f}\u{200d}💋\u{200d}👨",
];
const CONTROL: &[&str] = &[
    "\0", "\u{1}", "\t", "\n", "\r\n", "\u{7f}", "\u{85}", "\u{a0}", "\u{2028}", "\u{200b}",
    "\u{feff}", "\u{3000}", "\u{1680}", "\u{200d}", "\u{202e}", "\u{1b}", "\u{b}", "\u{c}",
    "\u{1f}", "\u{2029}", "\u{ad}",
];
const ASTRAL: &[&str] = &["𝒜𝓑𝒞", "𐐏𐐷", "𝟘𝟙𝟚", "𠀋", "\u{10ffff}", "\u{e0001}", "𐐏", "𞤀𞤢", "🄰", "\u{1d173}"];
const HTMLISH: &[&str] = &[
    "<", ">", "&", "\"", "'", "<b>", "</b>", "&amp;", "<script>", "a<b", "--", "...", "!", "¿",
    "«»", "、", "。", "/", "\\", "&lt;", "'x'", "\"q\"", "<b>bold</b>", "a&b", "1<2>0",
];
const SEPS: &[&str] = &[
    " ", " ", " ", " ", "  ", "\t", "\n", ",", ", ", ".", "-", "", "\u{a0}", "\u{3000}", "'", "<",
    "&", "/", "\u{200b}", " & ", "> ",
];
const SCRIPTS: &[&[&str]] = &[CYRILLIC, ARABIC, HEBREW, INDIC, THAI, CJK, TURKISH, GERMAN];
const ALL_POOLS: &[&[&str]] = &[
    ASCII, LATIN, GREEK, CYRILLIC, ARABIC, HEBREW, INDIC, THAI, CJK, TURKISH, GERMAN, COMBINING,
    EMOJI, CONTROL, ASTRAL, HTMLISH,
];

fn random_scalar(rng: &mut Rng) -> char {
    loop {
        let cp = match rng.below(6) {
            0 => rng.below(0x80),
            1 => rng.below(0x800),
            2 | 3 => rng.below(0x10000),
            4 => 0x10000 + rng.below(0x10000),
            _ => rng.below(0x110000),
        } as u32;
        if let Some(c) = char::from_u32(cp) {
            return c;
        }
    }
}

fn join_pieces(rng: &mut Rng, pools: &[&[&str]], n: usize, seps: &[&str]) -> String {
    let mut s = String::new();
    for i in 0..n {
        if i > 0 {
            s.push_str(*rng.pick(seps));
        }
        let pool = *rng.pick(pools);
        s.push_str(*rng.pick(pool));
    }
    s
}

fn piece_count(rng: &mut Rng) -> usize {
    match rng.below(10) {
        0 => 1,
        1 => 2,
        2..=6 => rng.urange(3, 12),
        7 | 8 => rng.urange(12, 40),
        _ => rng.urange(40, 300),
    }
}

/// `long_ok`: allow the 10 KB – 1 MB single-token class; `huge_ok`: allow the 1 MB size.
fn gen_text(rng: &mut Rng, long_ok: bool, huge_ok: bool) -> (String, &'static str) {
    let class = rng.weighted(&[10, 10, 5, 10, 8, 8, 6, 5, 6, 22, 6, 1, 2, 1, 6, 4]);
    let n = piece_count(rng);
    match class {
        0 => (join_pieces(rng, &[ASCII], n, SEPS), "ascii"),
        1 => (join_pieces(rng, &[LATIN, ASCII, LATIN], n, SEPS), "latin-ext"),
        2 => (join_pieces(rng, &[GREEK], n, SEPS), "greek-sigma"),
        3 => {
            let script = *rng.pick(SCRIPTS);
            (join_pieces(rng, &[script], n, SEPS), "script")
        }
        4 => (join_pieces(rng, &[COMBINING, COMBINING, LATIN, ASCII], n, SEPS), "combining"),
        5 => (join_pieces(rng, &[EMOJI, EMOJI, ASCII], n, &[" ", "", "", "\u{200d}", ","]), "emoji-zwj"),
        6 => (join_pieces(rng, &[CONTROL, CONTROL, ASCII, LATIN], n, &["", "", " "]), "control"),
        7 => (join_pieces(rng, &[ASTRAL, ASTRAL, ASCII], n, SEPS), "astral"),
        8 => (join_pieces(rng, &[HTMLISH, HTMLISH, ASCII, LATIN], n, &[" ", "", " "]), "html-punct"),
        9 => (join_pieces(rng, ALL_POOLS, n, SEPS), "mixed"),
        10 => {
            let len = rng.urange(1, 60);
            let mut s = String::new();
            for _ in 0..len {
                if rng.chance(1, 6) {
                    s.push(' ');
                } else {
                    s.push(random_scalar(rng));
                }
            }
            (s, "random-scalars")
        }
        11 => (String::new(), "empty"),
        12 => {
            let ws = [" ", "\t", "\n", "\r", "\u{a0}", "\u{3000}", "\u{2028}", "\u{85}", "\u{b}"];
            let k = rng.urange(1, 8);
            (join_pieces(rng, &[&ws], k, &[""]), "whitespace-only")
        }
        13 if long_ok => {
            let base = *rng.pick(&["a", "é", "İ", "語", "😀", "ab1", "e\u{301}", "ß", "Σ", "ǅ"]);
            let target = if huge_ok && rng.chance(1, 12) {
                1_000_000 + rng.urange(0, 40)
            } else {
                match rng.below(6) {
                    0 => 10_000,
                    1 => 65_529 + rng.urange(0, 3),
                    2 => 65_535 + rng.urange(0, 2),
                    3 => 100_000,
                    _ => rng.urange(10_000, 120_000),
                }
            };
            let mut s = String::with_capacity(target + 64);
            if rng.bool() {
                s.push_str("start İ ");
            }
            let reps = target / base.len() + 1;
            for _ in 0..reps {
                s.push_str(base);
            }
            if rng.bool() {
                s.push_str(" end ß");
            }
            (s, "long-token")
        }
        13 => (join_pieces(rng, ALL_POOLS, n, SEPS), "mixed"),
        14 => {
            // case mappings that change the byte length, densely packed
            let pool: &[&str] = &["İ", "ẞ", "\u{212a}", "\u{212b}", "\u{2126}", "Ⱥ", "Ⱦ", "ǅ", "Σ", "ß", "ŉ", "ΐ", "ﬁ", "I", "i"];
            let words = rng.urange(1, 8);
            let mut s = String::new();
            for w in 0..words {
                if w > 0 {
                    s.push_str(*rng.pick(SEPS));
                }
                for _ in 0..rng.urange(1, 9) {
                    s.push_str(*rng.pick(pool));
                }
            }
            (s, "case-length-change")
        }
        _ => {
            let pool = *rng.pick(ALL_POOLS);
            let w = *rng.pick(pool);
            let k = rng.urange(2, 20);
            let mut s = String::new();
            for i in 0..k {
                if i > 0 {
                    s.push_str(*rng.pick(&[" ", " ", ",", ""]));
                }
                s.push_str(w);
                if rng.chance(1, 4) {
                    s.push(' ');
                    s.push_str(*rng.pick(ASCII));
                }
            }
            (s, "repeated-word")
        }
    }
}

/// words of a text by a deliberately naive split (used to derive stop words, dictionaries, queries)
fn naive_words(text: &str) -> Vec<&str> {
    text.split(|c: char| c.is_whitespace() || c == ',' || c == '.')
        .filter(|w| !w.is_empty() && w.len() < 200)
        .take(64)
        .collect()
}

fn has_multibyte(s: &str) -> bool {
    !s.is_ascii()
}

fn clip(s: &str, max_chars: usize) -> String {
    if s.chars().count() <= max_chars {
        s.to_string()
    } else {
        let head: String = s.chars().take(max_chars).collect();
        format!("{head}…[{} bytes total]", s.len())
    }
}

// ---------------------------------------------------------------------------------------------
// analyzer specifications

const LANGS: &[Language] = &[
    Language::Arabic, Language::Danish, Language::Dutch, Language::English, Language::Finnish,
    Language::French, Language::German, Language::Greek, Language::Hungarian, Language::Italian,
    Language::Norwegian, Language::Portuguese, Language::Romanian, Language::Russian,
    Language::Spanish, Language::Swedish, Language::Tamil, Language::Turkish,
];

const REGEXES: &[&str] = &[
    r"\w+", r"[^\s]+", r"\p{L}+", r".", r"(?s).{1,3}", r"'(?:\w*)'", r"\b\w+\b", r"[a-z]+|\d+",
    r"\A\w+\s?", r"\pL\pM*", r"[\p{Lu}\p{Lt}]\p{Ll}*", r"(?i)[a-zıſ\u{212a}]+", r"\S+\s*",
];

#[derive(Clone, Debug)]
enum Tok {
    Simple,
    Whitespace,
    Raw,
    Ngram(usize, usize, bool),
    Regex(String),
    Facet,
    /// an analyzer registered in `TokenizerManager::default()` (statically typed chains)
    Manager(&'static str),
}

#[derive(Clone, Debug)]
enum Filt {
    Lower,
    AsciiFold,
    RemoveLong(usize),
    AlphaNum,
    StopLang(Language),
    StopCustom(Vec<String>),
    Stem(Language),
    Split(Vec<String>),
}

impl Filt {
    fn normalising(&self) -> bool {
        matches!(self, Filt::Lower | Filt::AsciiFold | Filt::Stem(_) | Filt::Split(_))
    }
    fn name(&self) -> String {
        match self {
            Filt::Lower => "lc".into(),
            Filt::AsciiFold => "af".into(),
            Filt::RemoveLong(n) => {
                if *n == usize::MAX {
                    "rlMAX".into()
                } else {
                    format!("rl{n}")
                }
            }
            Filt::AlphaNum => "an".into(),
            Filt::StopLang(l) => format!("sw:{l:?}"),
            Filt::StopCustom(_) => "sw:custom".into(),
            Filt::Stem(l) => format!("st:{l:?}"),
            Filt::Split(_) => "sp".into(),
        }
    }
}

#[derive(Clone, Debug)]
struct Spec {
    tok: Tok,
    filters: Vec<Filt>,
}

impl Spec {
    fn tok_kind(&self) -> String {
        match &self.tok {
            Tok::Simple => "simple".into(),
            Tok::Whitespace => "whitespace".into(),
            Tok::Raw => "raw".into(),
            Tok::Ngram(a, b, p) => format!("ngram({a},{b},{})", if *p { "prefix" } else { "all" }),
            Tok::Regex(r) => format!("regex({r})"),
            Tok::Facet => "facet".into(),
            Tok::Manager(n) => format!("manager:{n}"),
        }
    }
    fn chain(&self) -> String {
        if self.filters.is_empty() {
            "-".into()
        } else {
            self.filters.iter().map(|f| f.name()).collect::<Vec<_>>().join(">")
        }
    }
    fn describe(&self) -> String {
        format!("{}|{}", self.tok_kind(), self.chain())
    }
    fn normalising(&self) -> bool {
        match self.tok {
            // "default" and "en_stem" contain a lower-caser / stemmer
            Tok::Manager(n) => n == "default" || n == "en_stem",
            _ => self.filters.iter().any(|f| f.normalising()),
        }
    }
    fn witness(&self) -> Value {
        let mut extra = vec![];
        for f in &self.filters {
            match f {
                Filt::StopCustom(w) => extra.push(json!({"stop_words": w})),
                Filt::Split(d) => extra.push(json!({"split_dictionary": d})),
                _ => {}
            }
        }
        json!({"analyzer": self.describe(), "filter_params": extra})
    }
}

fn build_bare(tok: &Tok) -> Result<TextAnalyzerBuilder, String> {
    Ok(match tok {
        Tok::Simple => TextAnalyzer::builder(SimpleTokenizer::default()).dynamic(),
        Tok::Whitespace => TextAnalyzer::builder(WhitespaceTokenizer::default()).dynamic(),
        Tok::Raw => TextAnalyzer::builder(RawTokenizer::default()).dynamic(),
        Tok::Ngram(a, b, p) => TextAnalyzer::builder(
            NgramTokenizer::new(*a, *b, *p).map_err(|e| format!("NgramTokenizer::new: {e}"))?,
        )
        .dynamic(),
        Tok::Regex(r) => TextAnalyzer::builder(
            RegexTokenizer::new(r).map_err(|e| format!("RegexTokenizer::new({r}): {e}"))?,
        )
        .dynamic(),
        Tok::Facet => TextAnalyzer::builder(FacetTokenizer::default()).dynamic(),
        Tok::Manager(_) => return Err("manager analyzers have no bare form".into()),
    })
}

fn build(spec: &Spec) -> Result<TextAnalyzer, String> {
    if let Tok::Manager(name) = spec.tok {
        return TokenizerManager::default()
            .get(name)
            .ok_or_else(|| format!("TokenizerManager::default().get({name}) is None"));
    }
    let mut b = build_bare(&spec.tok)?;
    for f in &spec.filters {
        b = match f {
            Filt::Lower => b.filter_dynamic(LowerCaser),
            Filt::AsciiFold => b.filter_dynamic(AsciiFoldingFilter),
            Filt::RemoveLong(n) => b.filter_dynamic(RemoveLongFilter::limit(*n)),
            Filt::AlphaNum => b.filter_dynamic(AlphaNumOnlyFilter),
            Filt::StopLang(l) => match StopWordFilter::new(*l) {
                Some(f) => b.filter_dynamic(f),
                None => b.filter_dynamic(StopWordFilter::remove(vec!["the".to_string()])),
            },
            Filt::StopCustom(w) => b.filter_dynamic(StopWordFilter::remove(w.clone())),
            Filt::Stem(l) => b.filter_dynamic(Stemmer::new(*l)),
            Filt::Split(d) => b.filter_dynamic(
                SplitCompoundWords::from_dictionary(d.iter().map(|s| s.as_str()))
                    .map_err(|e| format!("SplitCompoundWords::from_dictionary: {e}"))?,
            ),
        };
    }
    Ok(b.build())
}

fn gen_tok(rng: &mut Rng, allow_facet: bool) -> Tok {
    match rng.weighted(&[18, 12, 8, 30, 16, if allow_facet { 6 } else { 0 }, 4]) {
        0 => Tok::Simple,
        1 => Tok::Whitespace,
        2 => Tok::Raw,
        3 => {
            let a = rng.urange(1, 5);
            let b = rng.urange(a, 5);
            Tok::Ngram(a, b, rng.bool())
        }
        4 => Tok::Regex(rng.pick(REGEXES).to_string()),
        5 => Tok::Facet,
        _ => Tok::Manager(*rng.pick(&["default", "raw", "en_stem", "whitespace"])),
    }
}

fn split_points(word: &str, rng: &mut Rng) -> Vec<String> {
    let idx: Vec<usize> = word.char_indices().map(|(i, _)| i).skip(1).collect();
    if idx.is_empty() {
        return vec![word.to_string()];
    }
    let cut = *rng.pick(&idx);
    let mut out = vec![word[..cut].to_string(), word[cut..].to_string()];
    if rng.chance(1, 3) {
        let (h, t) = (out[0].clone(), out[1].clone());
        let idx2: Vec<usize> = t.char_indices().map(|(i, _)| i).skip(1).collect();
        if !idx2.is_empty() {
            let c2 = *rng.pick(&idx2);
            out = vec![h, t[..c2].to_string(), t[c2..].to_string()];
        }
    }
    out
}

fn lower(s: &str) -> String {
    s.chars().flat_map(|c| c.to_lowercase()).collect()
}

/// dictionary for the compound splitter: German parts plus `lo..=hi` words of the texts cut into
/// 2-3 parts (so that those words decompose completely), sometimes single characters / ""
fn gen_split_dict(rng: &mut Rng, words: &[String], lo: usize, hi: usize) -> Vec<String> {
    let mut d: Vec<String> = vec![];
    for g in ["dampf", "schiff", "donau", "fahrt", "fuß", "ball", "welt", "meister", "schaft"] {
        if rng.chance(2, 3) {
            d.push(g.to_string());
        }
    }
    for _ in 0..rng.urange(lo, hi) {
        if words.is_empty() {
            break;
        }
        let w = rng.pick(words).clone();
        let w = if rng.bool() { lower(&w) } else { w };
        d.extend(split_points(&w, rng));
    }
    if rng.chance(1, 3) {
        for p in ["İ", "ß", "a", "é", "語", "😀", "e", "\u{301}", "i", "\u{307}", "σ", "ς"] {
            if rng.bool() {
                d.push(p.to_string());
            }
        }
    }
    if rng.chance(1, 12) {
        d.push(String::new());
    }
    if d.is_empty() {
        d.push("foo".into());
    }
    d
}

/// random subset of the seven filters; canonical order most of the time, shuffled otherwise
fn gen_filters(rng: &mut Rng, texts: &[String]) -> Vec<Filt> {
    let mut words: Vec<String> = vec![];
    for t in texts {
        for w in naive_words(t) {
            words.push(w.to_string());
        }
    }
    let mask = match rng.below(8) {
        0 => 0,
        1 => 1u32 << rng.below(7),
        2 => 0x7f,
        _ => rng.below(128) as u32,
    };
    let mut fs = vec![];
    if mask & 1 != 0 {
        fs.push(Filt::RemoveLong(*rng.pick(&[0usize, 1, 2, 3, 4, 5, 8, 10, 40, 41, 255, 65_530, usize::MAX])));
    }
    if mask & 2 != 0 {
        fs.push(Filt::AlphaNum);
    }
    if mask & 4 != 0 {
        fs.push(Filt::Lower);
    }
    if mask & 8 != 0 {
        fs.push(Filt::AsciiFold);
    }
    if mask & 16 != 0 {
        if rng.bool() || words.is_empty() {
            fs.push(Filt::StopLang(*rng.pick(LANGS)));
        } else {
            let k = rng.urange(1, 4);
            let mut w: Vec<String> = vec![];
            for _ in 0..k {
                let x = rng.pick(&words).clone();
                w.push(if rng.bool() { lower(&x) } else { x });
            }
            if rng.chance(1, 8) {
                w.push(String::new());
            }
            fs.push(Filt::StopCustom(w));
        }
    }
    if mask & 32 != 0 {
        fs.push(Filt::Split(gen_split_dict(rng, &words, 0, 4)));
    }
    if mask & 64 != 0 {
        fs.push(Filt::Stem(*rng.pick(LANGS)));
    }
    if rng.chance(1, 4) {
        rng.shuffle(&mut fs);
    }
    fs
}

// ---------------------------------------------------------------------------------------------
// part 1: token streams

#[derive(Default, Debug, Clone)]
struct StreamFacts {
    tokens: u64,
    /// two tokens whose byte ranges overlap (n-grams, split compounds, facets)
    overlapping: bool,
    /// a token ends before an earlier token ended
    ends_not_monotone: bool,
    ok: bool,
}

fn tok_json(t: &Token) -> Value {
    json!({"from": t.offset_from, "to": t.offset_to, "position": t.position,
           "position_length": t.position_length, "text": clip(&t.text, 80)})
}

/// The per-token clauses of the statement (shared by every stream of this check): from <= to <=
/// text.len(), both offsets on char boundaries, positions never decrease, and for chains without
/// a normalising filter `token.text == &text[from..to]`.
struct TokenInv {
    normalising: bool,
    is_facet: bool,
    prev_pos: Option<usize>,
    facet_reported: bool,
}

impl TokenInv {
    fn new(spec: &Spec) -> TokenInv {
        TokenInv {
            normalising: spec.normalising(),
            is_facet: matches!(spec.tok, Tok::Facet),
            prev_pos: None,
            facet_reported: false,
        }
    }

    /// false: a violation was reported (stop driving this stream)
    fn check(&mut self, rep: &mut Report, text: &str, t: &Token, idx: u64, wit: &dyn Fn(&Token, u64) -> Value) -> bool {
        if t.offset_from > t.offset_to {
            rep.violation("token:offset_from>offset_to", wit(t, idx));
            return false;
        }
        if t.offset_to > text.len() {
            rep.violation("token:offset_to>text.len", wit(t, idx));
            return false;
        }
        if !text.is_char_boundary(t.offset_from) || !text.is_char_boundary(t.offset_to) {
            rep.violation("token:offset-not-on-char-boundary", wit(t, idx));
            return false;
        }
        if let Some(p) = self.prev_pos {
            if t.position < p {
                let mut w = wit(t, idx);
                w["previous_position"] = json!(p);
                rep.violation("token:position-decreased", w);
                return false;
            }
        }
        self.prev_pos = Some(t.position);
        if !self.normalising && t.text != text[t.offset_from..t.offset_to] {
            if self.is_facet && t.offset_from == 0 && t.offset_to == 0 {
                // FacetTokenizer never assigns offset_from/offset_to (they stay 0..0) while the
                // token text is the accumulated facet prefix; the other clauses stay checked
                if !self.facet_reported {
                    self.facet_reported = true;
                    class_violation(rep, SIG_FACET, || {
                        let mut w = wit(t, idx);
                        w["slice"] = json!("");
                        w
                    });
                }
            } else {
                let mut w = wit(t, idx);
                w["slice"] = json!(clip(&text[t.offset_from..t.offset_to], 80));
                rep.violation("token:text-ne-slice", w);
                return false;
            }
        }
        true
    }
}

/// Drives `an.token_stream(text)`; `bare` (same tokenizer, no filters) is advanced in lock-step
/// to check that filters did not modify offsets.
fn check_stream(
    rep: &mut Report,
    text: &str,
    an: &mut TextAnalyzer,
    mut bare: Option<&mut TextAnalyzer>,
    spec: &Spec,
    what: &str,
) -> StreamFacts {
    let mut facts = StreamFacts::default();
    let mut inv = TokenInv::new(spec);
    let cap = (text.len() as u64 + 2) * 64;
    let mut stream = an.token_stream(text);
    let mut bare_stream = bare.as_mut().map(|b| b.token_stream(text));
    let mut bare_cur: Option<(usize, usize)> = None;
    let mut max_end = 0usize;
    let mut idx = 0u64;
    let wit = |t: &Token, idx: u64| -> Value {
        let mut w = spec.witness();
        w["text"] = json!(clip(text, 200));
        w["text_len"] = json!(text.len());
        w["token_index"] = json!(idx);
        w["token"] = tok_json(t);
        w["api"] = json!(what);
        w
    };
    while stream.advance() {
        let t = stream.token();
        facts.tokens += 1;
        if facts.tokens > cap {
            rep.violation("token:stream-emits-more-than-64-tokens-per-byte", wit(t, idx));
            return facts;
        }
        if !inv.check(rep, text, t, idx, &wit) {
            return facts;
        }
        if idx > 0 && t.offset_from < max_end && t.offset_to > t.offset_from {
            facts.overlapping = true;
        }
        if t.offset_to < max_end {
            facts.ends_not_monotone = true;
        }
        max_end = max_end.max(t.offset_to);
        // "Offsets shall not be modified by token filters": the offsets must be those of a token
        // of the bare tokenizer, in the same order (filters drop, rewrite or split tokens).
        if let Some(bs) = bare_stream.as_mut() {
            let want = (t.offset_from, t.offset_to);
            let mut found = bare_cur == Some(want);
            while !found {
                if !bs.advance() {
                    break;
                }
                let b = bs.token();
                bare_cur = Some((b.offset_from, b.offset_to));
                found = bare_cur == Some(want);
            }
            if !found {
                rep.violation("token:filter-changed-offsets", wit(t, idx));
                return facts;
            }
        }
        idx += 1;
    }
    facts.ok = !inv.facet_reported;
    facts
}

fn facet_text(rng: &mut Rng) -> String {
    let depth = match rng.below(8) {
        0 => 0,
        1 => 1,
        _ => rng.urange(1, 6),
    };
    let mut segs: Vec<String> = vec![];
    for _ in 0..depth {
        let mut s = String::new();
        for _ in 0..rng.urange(1, 3) {
            let pool = *rng.pick(ALL_POOLS);
            s.push_str(*rng.pick(pool));
        }
        let s: String = s.chars().filter(|&c| c != '\0').collect();
        segs.push(if s.is_empty() { "x".to_string() } else { s });
    }
    Facet::from_path(segs.iter().map(|s| s.as_str())).encoded_str().to_string()
}

fn token_case(case: u64, rng: &mut Rng, rep: &mut Report) {
    if case % 4096 == 0 {
        // illegal n-gram settings must be refused with an error, not accepted / panicking
        for (a, b) in [(0usize, 0usize), (0, 3), (3, 2), (5, 1)] {
            if NgramTokenizer::new(a, b, false).is_ok() || NgramTokenizer::new(a, b, true).is_ok() {
                rep.violation("ngram:illegal-settings-accepted", json!({"min": a, "max": b}));
            }
        }
        for (a, b, p) in [(1usize, 1usize, true), (5, 5, false), (1, 5, true)] {
            if let Err(e) = NgramTokenizer::new(a, b, p) {
                rep.violation("api-error:NgramTokenizer::new", json!({"min": a, "max": b, "err": e.to_string()}));
            }
        }
    }
    let tok = gen_tok(rng, true);
    let ntexts = *rng.pick(&[1usize, 1, 2, 3]);
    let mut texts: Vec<(String, &'static str)> = vec![];
    for i in 0..ntexts {
        if matches!(tok, Tok::Facet) {
            texts.push((facet_text(rng), "facet-encoded"));
        } else {
            // long tokens: 1 in ~330 texts, 1 MB: 1 in ~4000
            let long_ok = i == 0 && rng.chance(1, 5);
            texts.push(gen_text(rng, long_ok, true));
        }
    }
    let plain: Vec<String> = texts.iter().map(|t| t.0.clone()).collect();
    let filters = if matches!(tok, Tok::Manager(_)) { vec![] } else { gen_filters(rng, &plain) };
    let spec = Spec { tok, filters };
    drive_spec(case, rep, &spec, &texts, "tokens", 2);
}

/// One analyzer (and a clone of it, used for the odd texts) over a sequence of texts; every
/// stream is consumed completely and checked token by token.  `min_tokens`: number of tokens a
/// stream over a multi-byte text must emit to count as non-trivial.
fn drive_spec(case: u64, rep: &mut Report, spec: &Spec, texts: &[(String, &'static str)], stream_name: &str, min_tokens: u64) {
    let mut an = match build(spec) {
        Ok(a) => a,
        Err(e) => {
            rep.violation("api-error:build-analyzer", json!({"spec": spec.describe(), "err": e}));
            return;
        }
    };
    let mut bare = if spec.filters.is_empty() {
        None
    } else {
        match build_bare(&spec.tok) {
            Ok(b) => Some(b.build()),
            Err(_) => None,
        }
    };
    // a cloned analyzer must behave like the original: use the clone for odd texts
    let mut an2 = an.clone();
    rep.observe("tokenizer", spec.tok_kind());
    rep.observe("filter_chain", spec.chain());
    let mut set: Vec<&'static str> = vec![];
    for f in &spec.filters {
        set.push(match f {
            Filt::Lower => "LowerCaser",
            Filt::AsciiFold => "AsciiFoldingFilter",
            Filt::RemoveLong(_) => "RemoveLongFilter",
            Filt::AlphaNum => "AlphaNumOnlyFilter",
            Filt::StopLang(_) | Filt::StopCustom(_) => "StopWordFilter",
            Filt::Stem(_) => "Stemmer",
            Filt::Split(_) => "SplitCompoundWords",
        });
    }
    for f in &set {
        rep.observe("filter", *f);
    }
    set.sort();
    rep.observe("filter_subset", set.join("+"));
    for (i, (text, class)) in texts.iter().enumerate() {
        let a = if i % 2 == 0 { &mut an } else { &mut an2 };
        let facts = match guarded(|| check_stream(rep, text, a, bare.as_mut(), spec, "TextAnalyzer::token_stream")) {
            Ok(f) => f,
            Err(p) if p.in_harness() => {
                rep.harness_error(format!("{stream_name}#{case}: panic in harness at {}: {}", p.location, p.message));
                return;
            }
            Err(p) => {
                let mut w = spec.witness();
                w["text"] = json!(clip(text, 200));
                w["text_len"] = json!(text.len());
                w["panic"] = json!({"at": p.location, "message": clip(&p.message, 300)});
                rep.violation(format!("token:token_stream-panics:{}", panic_sig(&p)), w);
                return;
            }
        };
        rep.eval();
        rep.observe("text_class", *class);
        rep.count("tokens_checked", facts.tokens);
        if facts.tokens == 0 {
            rep.count("streams_without_tokens", 1);
        }
        if text.len() >= 10_000 {
            rep.count("texts_10KB_or_more", 1);
        }
        if text.len() >= 1_000_000 {
            rep.count("texts_1MB_or_more", 1);
        }
        if !spec.normalising() {
            rep.count("streams_with_text_eq_slice_check", 1);
        }
        if has_multibyte(text) && facts.tokens >= min_tokens && facts.ok {
            rep.nontrivial(format!("{}|{}", spec.describe(), class));
        }
        if case < 4 && i == 0 {
            rep.sample(json!({"stream": stream_name, "analyzer": spec.describe(), "text": clip(text, 60),
                "class": class, "tokens": facts.tokens}));
        }
        // PreTokenizedString: the tokens of a built-in analyzer, replayed through
        // PreTokenizedStream, must come back unchanged (and therefore keep the invariants)
        if case % 16 == 0 && text.len() < 4096 && facts.ok {
            let mut toks: Vec<Token> = vec![];
            a.token_stream(text).process(&mut |t| toks.push(t.clone()));
            let pts = PreTokenizedString { text: text.clone(), tokens: toks.clone() };
            let mut s = PreTokenizedStream::from(pts);
            let mut back: Vec<Token> = vec![];
            while s.advance() {
                back.push(s.token().clone());
            }
            rep.count("pretokenized_roundtrips", 1);
            rep.observe("tokenizer", "PreTokenizedStream");
            if back != toks {
                rep.violation(
                    "pretokenized:stream-differs-from-tokens",
                    json!({"analyzer": spec.describe(), "text": clip(text, 200)}),
                );
            }
        }
    }
}

// ---------------------------------------------------------------------------------------------
// part 1b: RegexTokenizer over the pattern family (patterns that can match the empty string,
// match at every position, are anchored, or match multi-byte characters)

/// (regex atom, label, strings the atom matches — used to build texts around the pattern)
const RX_ATOMS: &[(&str, &str, &[&str])] = &[
    ("[a-z]", "ascii-class", &["ab", "cd", "x", "tax", "payer", "z"]),
    (r"\w", "w", &["tax", "a1", "x_y", "é1", "語", "naïve"]),
    (r"\d", "d", &["12", "7", "34", "٣٤", "１２"]),
    (r"\p{L}", "pL", &["ab", "été", "東京", "ß", "Σ"]),
    ("x", "ascii-literal", &["x", "xx", "xxx"]),
    ("(?:ab)", "ascii-group", &["ab", "abab", "ababab"]),
    ("é", "2-byte-literal", &["é", "éé"]),
    ("語", "3-byte-literal", &["語", "語語"]),
    ("😀", "4-byte-literal", &["😀", "😀😀"]),
    ("(?:é語)", "multibyte-group", &["é語", "é語é語"]),
    ("[à-ÿ]", "latin1-class", &["é", "ïà", "ÿ"]),
    (r"\p{Han}", "han-class", &["東京", "語", "馬"]),
    (r"[\u{1F600}-\u{1F64F}]", "emoji-class", &["😀", "😀🙏"]),
    (r"\pM", "mark-class", &["\u{301}", "\u{308}\u{301}"]),
    (".", "dot", &["a", "é", "語", "😀"]),
    (r"\s", "s", &[" ", "\u{a0}", "\u{3000}", "\n"]),
    (r"[^\s]", "S", &["ab", "語", "—", "😀"]),
    ("[^a-z]", "negated-ascii-class", &["、", "—", "1", " ", "É"]),
];
/// (quantifier, can match zero repetitions)
const RX_QUANTS: &[(&str, bool)] = &[
    ("*", true), ("*", true), ("?", true), ("+", false), ("", false), ("{0,2}", true), ("*?", true),
    ("??", true), ("{2}", false), ("{0}", true), ("+?", false), ("{1,3}", false),
];
/// patterns named in the property / documentation of the tokenizer, plus pure anchors
const RX_FIXED: &[(&str, bool)] = &[
    ("[a-z]*", true), (r"\w*", true), (r"\d*", true), ("x?", true), ("(?:ab)*", true),
    (r"\d*|[a-z]+", true), ("[a-z]+|", true), ("|[a-z]+", true), (r"\b", true), (r"\B", true),
    ("^", true), ("$", true), ("(?m)^", true), (r"\A[a-z]*", true), (r"[a-z]*\z", true),
    (r"\b\w*\b", true), (r"\pL*\pM*", true), ("(?i)[a-zıſ\u{212a}]*", true), ("(?s).*", true),
    (".*", true), (r"\S*\s?", true), (r"'(?:\w*)'", false), (r"\w+", false), (r"\A\w+\s?", false),
    (r"\p{Han}|[a-z]*", true), ("é*", true), ("語?", true), ("😀*", true), (r"(?:é|語|😀)*", true),
];
/// what stands between the matching pieces of a text: 0, 1, 2, 3 and 4 byte characters
const RX_SEPS: &[&str] = &[
    "", " ", ",", "\n", "-", "é", "ß", "\u{a0}", "\u{301}", "—", "、", "€", "。", "\u{3000}", "語", "😀", "𝒜",
    "\u{10ffff}", " — ", "€ ", "😀\u{200d}😀",
];

struct Pattern {
    regex: String,
    /// the pattern can match the empty string somewhere (by construction)
    nullable: bool,
    shape: String,
    /// strings matched by the atoms of the pattern
    matching: Vec<&'static str>,
}

fn gen_pattern(rng: &mut Rng) -> Pattern {
    if rng.chance(1, 3) {
        let (r, nullable) = *rng.pick(RX_FIXED);
        let matching = vec!["ab", "cd", "x", "12", "tax", "abab", "é", "語", "😀", "'aaa'", "東京"];
        return Pattern { regex: r.to_string(), nullable, shape: format!("fixed:{r}"), matching };
    }
    let mut matching: Vec<&'static str> = vec![];
    let mut shape_alts: Vec<String> = vec![];
    let mut alts: Vec<String> = vec![];
    let mut nullable = false;
    let nalts = *rng.pick(&[1usize, 1, 1, 2, 2, 3]);
    for _ in 0..nalts {
        let nseq = *rng.pick(&[1usize, 1, 2, 2, 3]);
        let mut seq = String::new();
        let mut seq_shape: Vec<String> = vec![];
        let mut seq_nullable = true;
        for _ in 0..nseq {
            let (atom, label, m) = *rng.pick(RX_ATOMS);
            let (q, zero) = *rng.pick(RX_QUANTS);
            seq.push_str(atom);
            seq.push_str(q);
            seq_shape.push(format!("{label}{q}"));
            seq_nullable &= zero;
            matching.extend_from_slice(m);
        }
        if rng.chance(1, 12) {
            // an empty alternative: `a|`, `|a`
            seq.clear();
            seq_shape = vec!["empty".into()];
            seq_nullable = true;
        }
        nullable |= seq_nullable;
        alts.push(seq);
        shape_alts.push(seq_shape.join(" "));
    }
    let mut regex = alts.join("|");
    let mut shape = shape_alts.join(" | ");
    // an alternation must be grouped before something is attached to it
    let mut grouped = nalts == 1;
    if !grouped && rng.bool() {
        regex = format!("(?:{regex})");
        grouped = true;
        if rng.chance(1, 3) {
            let (q, zero) = *rng.pick(RX_QUANTS);
            regex.push_str(q);
            shape = format!("({shape}){q}");
            nullable |= zero;
        }
    }
    if rng.chance(1, 4) {
        let a = *rng.pick(&["^", r"\A", "(?m)^", r"\b", r"\B"]);
        regex = if grouped { format!("{a}{regex}") } else { format!("{a}(?:{regex})") };
        grouped = true;
        shape = format!("{a} {shape}");
    }
    if rng.chance(1, 6) {
        let a = *rng.pick(&["$", r"\z", "(?m)$", r"\b"]);
        regex = if grouped { format!("{regex}{a}") } else { format!("(?:{regex}){a}") };
        shape = format!("{shape} {a}");
    }
    if rng.chance(1, 6) {
        // case-insensitive, dot-matches-newline, verbose, swapped greediness
        let f = *rng.pick(&["(?i)", "(?s)", "(?x)", "(?U)"]);
        regex = format!("{f}{regex}");
        shape = format!("{f} {shape}");
    }
    Pattern { regex, nullable, shape, matching }
}

/// pieces the pattern matches, separated by characters of every UTF-8 length
fn regex_text(rng: &mut Rng, pat: &Pattern) -> (String, &'static str) {
    if pat.matching.is_empty() || rng.chance(1, 4) {
        return gen_text(rng, false, false);
    }
    let n = match rng.below(8) {
        0 => 1,
        1 | 2 => 2,
        3..=6 => rng.urange(3, 8),
        _ => rng.urange(8, 40),
    };
    let mut s = String::new();
    if rng.chance(1, 5) {
        s.push_str(*rng.pick(RX_SEPS));
    }
    for i in 0..n {
        if i > 0 {
            s.push_str(*rng.pick(RX_SEPS));
            if rng.chance(1, 5) {
                s.push_str(*rng.pick(RX_SEPS));
            }
        }
        if rng.chance(1, 8) {
            let pool = *rng.pick(ALL_POOLS);
            s.push_str(*rng.pick(pool));
        } else {
            s.push_str(*rng.pick(&pat.matching));
        }
    }
    if rng.chance(1, 5) {
        s.push_str(*rng.pick(RX_SEPS));
    }
    (s, "regex-interleaved")
}

/// filters that do not rewrite the token text (the text == slice clause stays checked)
fn gen_plain_filters(rng: &mut Rng, texts: &[String]) -> Vec<Filt> {
    let mut fs = vec![];
    if rng.bool() {
        fs.push(Filt::RemoveLong(*rng.pick(&[1usize, 2, 3, 5, 40, usize::MAX])));
    }
    if rng.chance(1, 3) {
        fs.push(Filt::AlphaNum);
    }
    if rng.chance(1, 3) {
        let words: Vec<&str> = texts.iter().flat_map(|t| naive_words(t)).collect();
        if words.is_empty() {
            fs.push(Filt::StopLang(*rng.pick(LANGS)));
        } else {
            fs.push(Filt::StopCustom((0..rng.urange(1, 3)).map(|_| rng.pick(&words).to_string()).collect()));
        }
    }
    fs
}

fn regex_case(case: u64, rng: &mut Rng, rep: &mut Report) {
    let pat = gen_pattern(rng);
    if let Err(e) = RegexTokenizer::new(&pat.regex) {
        // construction is not the subject of C19; the generator is meant to emit valid patterns only
        rep.count("regex_patterns_rejected", 1);
        rep.note(format!("regex#{case}: pattern {:?} rejected: {e}", pat.regex));
        return;
    }
    let ntexts = rng.urange(1, 4);
    let texts: Vec<(String, &'static str)> = (0..ntexts).map(|_| regex_text(rng, &pat)).collect();
    let plain: Vec<String> = texts.iter().map(|t| t.0.clone()).collect();
    let filters = match rng.below(6) {
        0 | 1 => gen_plain_filters(rng, &plain),
        2 => gen_filters(rng, &plain),
        _ => vec![],
    };
    let spec = Spec { tok: Tok::Regex(pat.regex.clone()), filters };
    rep.observe("regex_pattern_shape", pat.shape.clone());
    rep.observe("regex_pattern_nullable", if pat.nullable { "can-match-empty" } else { "never-empty" });
    rep.count("regex_streams", texts.len() as u64);
    if pat.nullable {
        rep.count("regex_streams_pattern_can_match_empty", texts.len() as u64);
        rep.count(
            "regex_streams_pattern_can_match_empty_multibyte_text",
            texts.iter().filter(|t| has_multibyte(&t.0)).count() as u64,
        );
    }
    drive_spec(case, rep, &spec, &texts, "regex", 1);
}

// ---------------------------------------------------------------------------------------------
// part 1c: analyzer reuse — one analyzer instance (and clones of it) over a sequence of texts,
// streams dropped after 0..k tokens; every stream must satisfy the statement for ITS text and
// yield the tokens a fresh analyzer of the same configuration yields for that text

fn reuse_text(rng: &mut Rng) -> (String, &'static str) {
    match rng.below(10) {
        0..=3 => {
            // compound-friendly: few words, so that the dictionary (cut from the words) splits them
            let n = *rng.pick(&[1usize, 1, 2, 2, 3, 5, 9]);
            (join_pieces(rng, &[GERMAN, GERMAN, ASCII, LATIN, TURKISH, CJK], n, &[" ", " ", ", ", "-", "\u{3000}"]), "compounds")
        }
        4 => (rng.pick(&["été", "é", "a", "語", "", "😀", "ß ß"]).to_string(), "tiny"),
        _ => {
            let (t, c) = gen_text(rng, false, false);
            if t.len() > 600 {
                let mut cut = 100 + rng.urange(0, 400);
                while !t.is_char_boundary(cut) {
                    cut += 1;
                }
                (t[..cut].to_string(), c)
            } else {
                (t, c)
            }
        }
    }
}

fn reuse_spec(rng: &mut Rng, texts: &[String]) -> Spec {
    let tok = if rng.chance(1, 8) { Tok::Regex(gen_pattern(rng).regex) } else { gen_tok(rng, false) };
    if let Tok::Regex(r) = &tok {
        if RegexTokenizer::new(r).is_err() {
            return Spec { tok: Tok::Simple, filters: vec![] };
        }
    }
    if matches!(tok, Tok::Manager(_)) {
        return Spec { tok, filters: vec![] };
    }
    let mut filters = gen_filters(rng, texts);
    if rng.bool() {
        // a compound splitter whose dictionary decomposes several words of the texts
        let words: Vec<String> = texts.iter().flat_map(|t| naive_words(t)).map(|w| w.to_string()).collect();
        let dict = gen_split_dict(rng, &words, 2, 8);
        filters.retain(|f| !matches!(f, Filt::Split(_)));
        let at = rng.urange(0, filters.len());
        filters.insert(at, Filt::Split(dict));
    }
    Spec { tok, filters }
}

fn fresh_tokens(spec: &Spec, text: &str) -> Result<Vec<Token>, String> {
    let mut an = build(spec)?;
    let mut out = vec![];
    let mut s = an.token_stream(text);
    while s.advance() {
        out.push(s.token().clone());
        if out.len() as u64 > (text.len() as u64 + 2) * 64 {
            break;
        }
    }
    Ok(out)
}

/// where a stream is abandoned: `k` = number of tokens pulled before the drop
fn drop_point(rng: &mut Rng, expected: &[Token]) -> (usize, &'static str) {
    let len = expected.len();
    // "inside a group": the next token starts where the last pulled one started (the unread
    // parts of a split compound, the rest of an n-gram window, the deeper facet prefixes)
    let inside: Vec<usize> = (1..len).filter(|&i| expected[i].offset_from == expected[i - 1].offset_from).collect();
    match rng.weighted(&[30, 30, 6, 8, 8, 18]) {
        0 => (len, "fully-consumed"),
        1 if !inside.is_empty() => (*rng.pick(&inside), "inside-a-group-of-tokens-with-equal-start"),
        2 => (0, "nothing-pulled"),
        3 if len >= 1 => (1, "after-first-token"),
        4 if len >= 1 => (len - 1, "before-last-token"),
        _ => {
            if len == 0 {
                (0, "nothing-pulled")
            } else {
                (rng.urange(0, len), "random")
            }
        }
    }
}

struct ReuseStep {
    instance: usize,
    text: String,
    pulled: usize,
    of: usize,
}

/// one token stream of a reused instance, pulled token by token up to its drop point
struct Drive<'a> {
    stream: tantivy::tokenizer::BoxTokenStream<'a>,
    text: &'a str,
    expected: &'a [Token],
    k: usize,
    i: usize,
    inv: TokenInv,
    use_next: bool,
}

#[derive(PartialEq)]
enum DriveState {
    More,
    Done,
    Failed,
}

impl Drive<'_> {
    fn step(&mut self, rep: &mut Report, wit: &dyn Fn(&Token, u64) -> Value) -> DriveState {
        if self.i >= self.k {
            if self.k == self.expected.len() {
                // fully consumed: the stream must end here as well
                if self.stream.advance() {
                    let t = self.stream.token().clone();
                    if self.inv.check(rep, self.text, &t, self.i as u64, wit) {
                        rep.violation("reuse:stream-emits-more-tokens-than-a-fresh-analyzer", wit(&t, self.i as u64));
                    }
                    return DriveState::Failed;
                }
            }
            return DriveState::Done;
        }
        let got: Option<Token> = if self.use_next {
            self.stream.next().cloned()
        } else if self.stream.advance() {
            Some(self.stream.token().clone())
        } else {
            None
        };
        let Some(t) = got else {
            let mut w = wit(&self.expected[self.i], self.i as u64);
            w["note"] = json!("`token` is the token a fresh analyzer emits at this index; the reused one ended");
            rep.violation("reuse:stream-ends-before-that-of-a-fresh-analyzer", w);
            return DriveState::Failed;
        };
        // the statement itself, for THIS text
        if !self.inv.check(rep, self.text, &t, self.i as u64, wit) {
            return DriveState::Failed;
        }
        if t != self.expected[self.i] {
            let mut w = wit(&t, self.i as u64);
            w["fresh_analyzer_token"] = tok_json(&self.expected[self.i]);
            rep.violation("reuse:token-differs-from-that-of-a-fresh-analyzer", w);
            return DriveState::Failed;
        }
        rep.count("reuse_tokens_checked", 1);
        self.i += 1;
        DriveState::More
    }
}

fn reuse_case(case: u64, rng: &mut Rng, rep: &mut Report) {
    let facet = rng.chance(1, 16);
    let nsteps = rng.urange(3, 9);
    let texts: Vec<(String, &'static str)> =
        (0..nsteps).map(|_| if facet { (facet_text(rng), "facet-encoded") } else { reuse_text(rng) }).collect();
    let plain: Vec<String> = texts.iter().map(|t| t.0.clone()).collect();
    let spec = if facet { Spec { tok: Tok::Facet, filters: gen_filters(rng, &plain) } } else { reuse_spec(rng, &plain) };
    let first = match build(&spec) {
        Ok(a) => a,
        Err(e) => {
            rep.violation("api-error:build-analyzer", json!({"spec": spec.describe(), "err": e}));
            return;
        }
    };
    rep.observe("reuse_tokenizer", spec.tok_kind());
    let has_split = spec.filters.iter().any(|f| matches!(f, Filt::Split(_)));
    // what a fresh analyzer of the same configuration yields for each text
    let mut expected: Vec<Vec<Token>> = vec![];
    for (t, _) in &texts {
        match guarded(|| fresh_tokens(&spec, t)) {
            Ok(Ok(v)) => expected.push(v),
            Ok(Err(e)) => {
                rep.violation("api-error:build-analyzer", json!({"spec": spec.describe(), "err": e}));
                return;
            }
            Err(p) if p.in_harness() => {
                rep.harness_error(format!("reuse#{case}: panic in harness at {}: {}", p.location, p.message));
                return;
            }
            Err(p) => {
                let mut w = spec.witness();
                w["text"] = json!(clip(t, 200));
                w["panic"] = json!({"at": p.location, "message": clip(&p.message, 300)});
                rep.violation(format!("token:token_stream-panics:{}", panic_sig(&p)), w);
                return;
            }
        }
    }
    // instance 0: the analyzer; 1: a clone made before any use; 2..: clones made later, right
    // after a stream of the cloned instance was dropped
    let clone0 = first.clone();
    let mut instances: Vec<TextAnalyzer> = vec![first, clone0];
    let mut kinds: Vec<&'static str> = vec!["original", "clone-made-before-use"];
    let mut history: Vec<ReuseStep> = vec![];
    let mut last_partial: Vec<Option<&'static str>> = vec![None, None];
    let mut last_used = 0usize;
    let mut step = 0usize;
    while step < nsteps {
        if history.len() >= 1 && instances.len() < 4 && rng.chance(1, 5) {
            let c = instances[last_used].clone();
            instances.push(c);
            kinds.push("clone-made-after-a-dropped-stream");
            last_partial.push(last_partial[last_used]);
        }
        let interleaved = step + 1 < nsteps && rng.chance(1, 5);
        let ia = match rng.below(4) {
            0 | 1 => 0,
            2 => 1,
            _ => rng.usize_below(instances.len()),
        };
        let ib = if interleaved { (ia + 1 + rng.usize_below(instances.len() - 1)) % instances.len() } else { ia };
        let mut jobs: Vec<(usize, usize)> = vec![(ia, step)];
        if interleaved {
            jobs.push((ib, step + 1));
        }
        let drops: Vec<(usize, &'static str)> = jobs.iter().map(|&(_, s)| drop_point(rng, &expected[s])).collect();
        let use_next: Vec<bool> = jobs.iter().map(|_| rng.chance(1, 3)).collect();
        let order_seed = rng.next_u64();
        rep.observe("reuse_stream_mode", if interleaved { "two-instances-interleaved" } else { "sequential" });
        let hist_json: Vec<Value> = history
            .iter()
            .rev()
            .take(6)
            .rev()
            .map(|h| json!({"instance": h.instance, "text": clip(&h.text, 80), "tokens_pulled": h.pulled, "of": h.of}))
            .collect();
        let kinds_json = json!(kinds);
        let result = guarded(|| {
            // two &mut out of the vector
            let mut refs: Vec<Option<&mut TextAnalyzer>> = instances.iter_mut().map(Some).collect();
            let mut drives: Vec<Drive> = vec![];
            for (j, &(inst, s)) in jobs.iter().enumerate() {
                let an = refs[inst].take().expect("distinct instances");
                let text: &str = &texts[s].0;
                drives.push(Drive {
                    stream: an.token_stream(text),
                    text,
                    expected: &expected[s],
                    k: drops[j].0,
                    i: 0,
                    inv: TokenInv::new(&spec),
                    use_next: use_next[j],
                });
            }
            let mut order = Rng::new(order_seed);
            let mut live: Vec<bool> = vec![true; drives.len()];
            let mut ok = true;
            while live.iter().any(|&l| l) {
                let mut j = order.usize_below(drives.len());
                if !live[j] {
                    j = live.iter().position(|&l| l).unwrap();
                }
                let (inst, s) = jobs[j];
                let text: &str = &texts[s].0;
                let hist_json = &hist_json;
                let kinds_json = &kinds_json;
                let spec = &spec;
                let drop_kind = drops[j].1;
                let kind = kinds[inst];
                let wit = move |t: &Token, idx: u64| -> Value {
                    let mut w = spec.witness();
                    w["api"] = json!("TextAnalyzer::token_stream on a reused / cloned analyzer");
                    w["text"] = json!(clip(text, 200));
                    w["text_len"] = json!(text.len());
                    w["token_index"] = json!(idx);
                    w["token"] = tok_json(t);
                    w["instance"] = json!(inst);
                    w["instance_kind"] = json!(kind);
                    w["instances"] = kinds_json.clone();
                    w["planned_drop"] = json!(drop_kind);
                    w["earlier_streams"] = json!(hist_json);
                    w["interleaved_with_other_instance"] = json!(interleaved);
                    w
                };
                match drives[j].step(rep, &wit) {
                    DriveState::More => {}
                    DriveState::Done => live[j] = false,
                    DriveState::Failed => {
                        ok = false;
                        break;
                    }
                }
            }
            ok
        });
        match result {
            Ok(true) => {}
            Ok(false) => return,
            Err(p) if p.in_harness() => {
                rep.harness_error(format!("reuse#{case}: panic in harness at {}: {}", p.location, p.message));
                return;
            }
            Err(p) => {
                let mut w = spec.witness();
                w["texts"] = json!(jobs.iter().map(|&(_, s)| clip(&texts[s].0, 200)).collect::<Vec<_>>());
                w["earlier_streams"] = json!(hist_json);
                w["panic"] = json!({"at": p.location, "message": clip(&p.message, 300)});
                rep.violation(format!("reuse:token_stream-panics:{}", panic_sig(&p)), w);
                return;
            }
        }
        for (j, &(inst, s)) in jobs.iter().enumerate() {
            let (text, class) = &texts[s];
            let (k, drop_kind) = drops[j];
            let of = expected[s].len();
            rep.eval();
            rep.count("reuse_streams", 1);
            rep.observe("reuse_drop_point", drop_kind);
            rep.observe("reuse_instance", kinds[inst]);
            rep.observe("reuse_text_class", *class);
            if k < of {
                rep.count("reuse_streams_dropped_early", 1);
            }
            let in_compound = k >= 1
                && k < of
                && has_split
                && (expected[s][k].offset_from, expected[s][k].offset_to, expected[s][k].position)
                    == (expected[s][k - 1].offset_from, expected[s][k - 1].offset_to, expected[s][k - 1].position);
            if in_compound {
                rep.count("reuse_streams_dropped_inside_a_split_compound", 1);
            }
            // non-trivial: the instance's previous stream was abandoned before its end, and this
            // text is multi-byte with >= 2 tokens to compare
            if let Some(prev) = last_partial[inst] {
                rep.count("reuse_streams_after_an_abandoned_stream", 1);
                if has_multibyte(text) && of >= 2 {
                    rep.nontrivial(format!("reuse|{}|after:{}|{}|{}", spec.describe(), prev, kinds[inst], class));
                }
            }
            last_partial[inst] = if k < of {
                Some(if in_compound { "dropped-inside-split-compound" } else { drop_kind })
            } else {
                None
            };
            history.push(ReuseStep { instance: inst, text: text.clone(), pulled: k, of });
            last_used = inst;
        }
        if case < 2 && step == 0 {
            rep.sample(json!({"stream": "reuse", "analyzer": spec.describe(), "steps": nsteps,
                "first_text": clip(&texts[0].0, 60), "first_drop": drops[0].1}));
        }
        step += jobs.len();
    }
}

// ---------------------------------------------------------------------------------------------
// part 2: snippets

fn esc(s: &str, out: &mut String) {
    for c in s.chars() {
        match c {
            '&' => out.push_str("&amp;"),
            '<' => out.push_str("&lt;"),
            '>' => out.push_str("&gt;"),
            '"' => out.push_str("&quot;"),
            '\'' => out.push_str("&#x27;"),
            c => out.push(c),
        }
    }
}

/// naive rendering: sort + dedup, merge truly overlapping ranges (and, if `merge_adjacent`,
/// touching ones — the documentation of collapse_overlapped_ranges promises the latter, the
/// code does the former; both renderings escape everything outside the tags, so both are accepted)
fn render(fragment: &str, hl: &[Range<usize>], pre: &str, post: &str, merge_adjacent: bool) -> String {
    let mut rs: Vec<(usize, usize)> = hl.iter().map(|r| (r.start, r.end)).collect();
    rs.sort();
    rs.dedup();
    let mut merged: Vec<(usize, usize)> = vec![];
    for (s, e) in rs {
        if let Some(last) = merged.last_mut() {
            if last.1 > s || (merge_adjacent && last.1 == s) {
                last.1 = last.1.max(e);
                continue;
            }
        }
        merged.push((s, e));
    }
    let mut out = String::new();
    let mut at = 0usize;
    for (s, e) in merged {
        esc(&fragment[at..s], &mut out);
        out.push_str(pre);
        esc(&fragment[s..e], &mut out);
        out.push_str(post);
        at = e;
    }
    esc(&fragment[at..], &mut out);
    out
}

struct SnipCtx<'a> {
    spec: &'a Spec,
    analyzer: &'a TextAnalyzer,
    terms: &'a BTreeSet<String>,
    mode: &'a str,
    qkind: &'a str,
}

#[derive(Default)]
struct SnipFacts {
    highlights: usize,
    /// false: a violation outside the known defect classes was reported (stop the sweep)
    ok: bool,
    /// a violation of one of the defect classes was seen on this snippet
    class_finding: bool,
}

fn token_facts(an: &mut TextAnalyzer, text: &str) -> StreamFacts {
    let mut f = StreamFacts::default();
    let mut max_end = 0usize;
    let mut s = an.token_stream(text);
    while s.advance() {
        let t = s.token();
        if f.tokens > 0 && t.offset_from < max_end && t.offset_to > t.offset_from {
            f.overlapping = true;
        }
        if t.offset_to < max_end {
            f.ends_not_monotone = true;
        }
        max_end = max_end.max(t.offset_to);
        f.tokens += 1;
    }
    f.ok = true;
    f
}

/// all checks of the statement on one snippet
fn check_snippet(
    rep: &mut Report,
    cx: &SnipCtx,
    text: &str,
    tfacts: &StreamFacts,
    n: usize,
    snippet: &mut Snippet,
    api: &str,
    rng: &mut Rng,
) -> SnipFacts {
    let mut facts = SnipFacts::default();
    let frag = snippet.fragment().to_string();
    let hl: Vec<Range<usize>> = snippet.highlighted().to_vec();
    facts.highlights = hl.len();
    let wit = |extra: Value| -> Value {
        let mut w = cx.spec.witness();
        w["api"] = json!(api);
        w["mode"] = json!(cx.mode);
        w["query_kind"] = json!(cx.qkind);
        w["text"] = json!(clip(text, 300));
        w["text_len"] = json!(text.len());
        w["max_num_chars"] = json!(n);
        w["query_terms"] = json!(cx.terms.iter().take(12).map(|t| clip(t, 60)).collect::<Vec<_>>());
        w["fragment"] = json!(clip(&frag, 300));
        w["fragment_len"] = json!(frag.len());
        w["highlighted"] = json!(hl.iter().take(12).map(|r| vec![r.start, r.end]).collect::<Vec<_>>());
        w["detail"] = extra;
        w
    };
    // fragment: substring of the text, at most max_num_chars characters
    if !text.contains(frag.as_str()) {
        rep.violation("snippet:fragment-not-a-substring-of-text", wit(json!(null)));
        return facts;
    }
    let nchars = frag.chars().count();
    if nchars > n {
        // the documented unit is characters (search_fragments: "at most `max_num_chars`
        // characters (not bytes)")
        // the whole fragment is ONE token of the field's analysis that alone is longer than the
        // limit (it opened a new fragment and was kept); with overlapping tokenizers such as
        // n-grams that token need not be a highlighted one
        let single = hl.iter().any(|r| *r == (0..frag.len())) || {
            let mut an = cx.analyzer.clone();
            let mut st = an.token_stream(text);
            let mut found = false;
            while st.advance() {
                let t = st.token();
                if t.offset_from <= t.offset_to
                    && t.offset_to <= text.len()
                    && text.is_char_boundary(t.offset_from)
                    && text.is_char_boundary(t.offset_to)
                    && text[t.offset_from..t.offset_to] == frag
                {
                    found = true;
                    break;
                }
            }
            found
        };
        if single {
            // a matching token that alone is longer than the limit becomes the whole fragment;
            // keep checking the rest: the other clauses are independent
            facts.class_finding = true;
            class_violation(rep, SIG_OVER_SINGLE, || wit(json!({"fragment_chars": nchars})));
        } else {
            rep.violation("snippet:fragment-exceeds-max_num_chars", wit(json!({"fragment_chars": nchars})));
            return facts;
        }
    }
    // highlighted ranges
    let mut inside = true;
    for r in &hl {
        if r.start > r.end {
            rep.violation("snippet:highlight-start>end", wit(json!(null)));
            return facts;
        }
        if r.end > frag.len() {
            inside = false;
        }
    }
    if !inside {
        // user-visible consequence: does to_html survive?
        let r = guarded(|| snippet.to_html());
        if tfacts.ends_not_monotone {
            // FragmentCandidate.stop_offset is the end of the *last* token, not the maximum end;
            // with overlapping tokens (n-grams) a later, shorter token pulls it back
            facts.class_finding = true;
            class_violation(rep, SIG_OUTSIDE_OVERLAP, || wit(json!(null)));
            if let Err(p) = r {
                class_violation(rep, SIG_HTML_PANIC_OVERLAP, || wit(json!({"panic": p.message, "at": p.location})));
            }
            facts.ok = true; // nothing else can be checked on this snippet; the sweep goes on
        } else {
            rep.violation("snippet:highlight-outside-fragment", wit(json!(null)));
            if let Err(p) = r {
                rep.violation(format!("snippet:to_html-panics:{}", panic_sig(&p)), wit(json!({"panic": p.message, "at": p.location})));
            }
        }
        return facts;
    }
    for r in &hl {
        if !frag.is_char_boundary(r.start) || !frag.is_char_boundary(r.end) {
            rep.violation("snippet:highlight-not-on-char-boundary", wit(json!(null)));
            return facts;
        }
    }
    for w in hl.windows(2) {
        if w[0].start > w[1].start {
            rep.violation("snippet:highlights-not-sorted", wit(json!(null)));
            return facts;
        }
        if w[0].end > w[1].start && !(w[0].start == w[0].end || w[1].start == w[1].end) {
            if tfacts.overlapping {
                // the analyzer itself emits overlapping tokens (n-grams, split compounds):
                // the raw list mirrors them; disjointness is then demanded of the collapsed list
                rep.count("raw_highlights_overlap_because_tokens_overlap", 1);
            } else {
                rep.violation("snippet:highlights-overlap", wit(json!(null)));
                return facts;
            }
        }
    }
    // the ranges that are rendered: collapse_overlapped_ranges(highlighted) — sorted, disjoint,
    // covering exactly the same bytes
    let collapsed = match guarded(|| collapse_overlapped_ranges(&hl)) {
        Ok(c) => c,
        Err(p) => {
            rep.violation(format!("snippet:collapse:{}", panic_sig(&p)), wit(json!({"panic": p.message})));
            return facts;
        }
    };
    for w in collapsed.windows(2) {
        if w[0].end > w[1].start || w[0].start > w[1].start {
            rep.violation(
                "snippet:collapsed-ranges-not-sorted-disjoint",
                wit(json!({"collapsed": collapsed.iter().map(|r| vec![r.start, r.end]).collect::<Vec<_>>()})),
            );
            return facts;
        }
    }
    {
        let mut a = vec![false; frag.len()];
        let mut b = vec![false; frag.len()];
        for r in &hl {
            for x in a[r.start..r.end].iter_mut() {
                *x = true;
            }
        }
        let mut bad = false;
        for r in &collapsed {
            if r.start > r.end || r.end > frag.len() {
                bad = true;
                break;
            }
            for x in b[r.start..r.end].iter_mut() {
                *x = true;
            }
        }
        if bad || a != b {
            rep.violation(
                "snippet:collapsed-ranges-cover-different-bytes",
                wit(json!({"collapsed": collapsed.iter().map(|r| vec![r.start, r.end]).collect::<Vec<_>>()})),
            );
            return facts;
        }
    }
    // each highlighted range covers text whose analysis yields a query term
    let mut an = cx.analyzer.clone();
    let mut seen: BTreeSet<(usize, usize)> = BTreeSet::new();
    let mut lower_reported = false;
    for r in &hl {
        if !seen.insert((r.start, r.end)) {
            continue;
        }
        let piece = &frag[r.clone()];
        let mut exact = false;
        let mut lowered = false;
        let mut got: Vec<String> = vec![];
        let mut s = an.token_stream(piece);
        while s.advance() {
            let t = &s.token().text;
            if cx.terms.contains(t) {
                exact = true;
                break;
            }
            if cx.terms.contains(&t.to_lowercase()) {
                lowered = true;
            }
            if got.len() < 6 {
                got.push(clip(t, 40));
            }
        }
        drop(s);
        if !exact {
            let d = json!({"range": [r.start, r.end], "covered": clip(piece, 80), "analysis": got});
            if lowered {
                // FragmentCandidate::try_add_token looks tokens up with an extra
                // `.to_lowercase()`; with an analyzer that does not lower-case, text that does
                // not analyse to the query term (and that the query does not match) is highlighted
                if !lower_reported {
                    lower_reported = true;
                    class_violation(rep, SIG_EXTRA_LOWER, || wit(d));
                }
                facts.class_finding = true;
            } else {
                rep.violation("snippet:highlight-not-a-query-term", wit(d));
                return facts;
            }
        }
    }
    // HTML rendering
    let (pre, post) = match rng.below(6) {
        0 => {
            snippet.set_snippet_prefix_postfix("<em>", "</em>");
            ("<em>", "</em>")
        }
        1 => {
            snippet.set_snippet_prefix_postfix("<mark class=\"h\">", "</mark>");
            ("<mark class=\"h\">", "</mark>")
        }
        2 => {
            snippet.set_snippet_prefix_postfix("", "");
            ("", "")
        }
        _ => {
            if hl.is_empty() && frag.is_empty() {
                ("", "") // Snippet::empty(): nothing to wrap
            } else {
                ("<b>", "</b>")
            }
        }
    };
    let html = match guarded(|| snippet.to_html()) {
        Ok(h) => h,
        Err(p) => {
            rep.violation(format!("snippet:to_html-panics:{}", panic_sig(&p)), wit(json!({"panic": p.message, "at": p.location})));
            return facts;
        }
    };
    let e1 = render(&frag, &hl, pre, post, false);
    if html != e1 {
        let e2 = render(&frag, &hl, pre, post, true);
        if html != e2 {
            rep.violation(
                "snippet:to_html-differs-from-escaped-fragment-with-tags",
                wit(json!({"html": clip(&html, 300), "expected": clip(&e1, 300), "prefix": pre, "postfix": post})),
            );
            return facts;
        }
        rep.count("html_adjacent_ranges_merged", 1);
    }
    facts.ok = true;
    facts
}

fn n_values(rng: &mut Rng, text: &str) -> Vec<usize> {
    let len = text.len();
    let chars = text.chars().count();
    let mut v: Vec<usize> = vec![];
    if len <= 70 {
        v.extend(0..=len + 10);
    } else {
        v.extend(0..=12);
        for _ in 0..30 {
            v.push(rng.urange(0, len + 10));
        }
        for _ in 0..10 {
            v.push(rng.urange(0, 200.min(len)));
        }
        for x in [chars.saturating_sub(1), chars, chars + 1, len.saturating_sub(1), len, len + 1, len + 10, 150] {
            v.push(x);
        }
    }
    v.push(usize::MAX);
    v.sort();
    v.dedup();
    v
}

fn snippet_text(rng: &mut Rng) -> (String, &'static str) {
    if rng.chance(1, 300) {
        return gen_text(rng, true, false);
    }
    // shorter, word-like texts so that the full sweep over max_num_chars is affordable
    let (t, c) = gen_text(rng, false, false);
    if t.len() > 400 && rng.chance(3, 4) {
        let mut cut = 60 + rng.urange(0, 200);
        while !t.is_char_boundary(cut) {
            cut += 1;
        }
        (t[..cut].to_string(), c)
    } else {
        (t, c)
    }
}

fn snippet_spec(rng: &mut Rng, texts: &[String]) -> Spec {
    match rng.below(14) {
        0 => Spec { tok: Tok::Manager("default"), filters: vec![] },
        1 => Spec { tok: Tok::Manager("en_stem"), filters: vec![] },
        2 => Spec { tok: Tok::Manager(*rng.pick(&["raw", "whitespace"])), filters: vec![] },
        3 => Spec { tok: Tok::Simple, filters: vec![] },
        4 => Spec { tok: Tok::Simple, filters: vec![Filt::Lower, Filt::AsciiFold] },
        5 => Spec { tok: Tok::Simple, filters: vec![Filt::RemoveLong(40), Filt::Lower, Filt::Stem(*rng.pick(LANGS))] },
        6 | 7 => {
            let a = rng.urange(1, 4);
            let b = rng.urange(a, 5);
            let f = if rng.bool() { vec![Filt::Lower] } else { vec![] };
            Spec { tok: Tok::Ngram(a, b, rng.chance(1, 4)), filters: f }
        }
        8 => Spec { tok: Tok::Whitespace, filters: vec![Filt::Lower] },
        9 => Spec { tok: Tok::Regex(rng.pick(&[r"\w+", r"[^\s]+", r"\p{L}+", r"\pL\pM*", r"'(?:\w*)'"]).to_string()), filters: if rng.bool() { vec![Filt::Lower] } else { vec![] } },
        _ => {
            let tok = gen_tok(rng, false);
            let filters = if matches!(tok, Tok::Manager(_)) { vec![] } else { gen_filters(rng, texts) };
            Spec { tok, filters }
        }
    }
}

/// picks query term strings: present tokens, case variants, absent ones
fn pick_terms(rng: &mut Rng, candidates: &[String], want: usize) -> Vec<String> {
    let mut out = vec![];
    for _ in 0..want {
        let r = rng.below(10);
        if candidates.is_empty() || r == 0 {
            out.push(rng.pick(&["zzzabsent", "İabsent", "q", ""]).to_string());
        } else {
            let c = rng.pick(candidates).clone();
            out.push(match r {
                1 => lower(&c),
                2 => c.to_uppercase(),
                _ => c,
            });
        }
    }
    out
}

fn snippet_case(case: u64, rng: &mut Rng, rep: &mut Report) {
    let ntexts = rng.urange(1, 3);
    let mut texts: Vec<(String, &'static str)> = (0..ntexts).map(|_| snippet_text(rng)).collect();
    let plain: Vec<String> = texts.iter().map(|t| t.0.clone()).collect();
    let spec = snippet_spec(rng, &plain);
    let analyzer = match build(&spec) {
        Ok(a) => a,
        Err(e) => {
            rep.violation("api-error:build-analyzer", json!({"spec": spec.describe(), "err": e}));
            return;
        }
    };
    // the analyzer must survive the texts at all (stable signature instead of the generic one)
    for (t, _) in &texts {
        let mut an = analyzer.clone();
        if let Err(p) = guarded(|| token_facts(&mut an, t)) {
            let mut w = spec.witness();
            w["text"] = json!(clip(t, 200));
            w["panic"] = json!({"at": p.location, "message": clip(&p.message, 300)});
            rep.violation(format!("token:token_stream-panics:{}", panic_sig(&p)), w);
            return;
        }
    }
    // candidate terms: what the analyzer emits for the texts (bounded)
    let mut candidates: Vec<String> = vec![];
    {
        let mut an = analyzer.clone();
        for (t, _) in &texts {
            let mut s = an.token_stream(t);
            let mut k = 0;
            while s.advance() && k < 400 {
                let tt = &s.token().text;
                if tt.len() < 1000 || rng.chance(1, 4) {
                    candidates.push(tt.clone());
                }
                k += 1;
            }
        }
    }
    candidates.sort();
    candidates.dedup();
    let use_index = rng.bool();
    let mode = if use_index { "SnippetGenerator::create" } else { "SnippetGenerator::new" };
    rep.observe("snippet_constructor", mode);
    rep.observe("snippet_analyzer", spec.describe());
    let mut terms: BTreeSet<String> = BTreeSet::new();
    let qkind: String;
    let mut generator: SnippetGenerator;
    let field: Field;
    if !use_index {
        field = Field::from_field_id(0);
        let k = *rng.pick(&[0usize, 1, 1, 2, 3, 5, 12]);
        let mut map: BTreeMap<String, f32> = BTreeMap::new();
        for t in pick_terms(rng, &candidates, k) {
            let score = match rng.below(8) {
                0 => 0.0,
                1 => 1e-30,
                2 => 1e30,
                _ => 1.0 / (1.0 + rng.below(5) as f32),
            };
            map.insert(t.clone(), score);
            terms.insert(t);
        }
        qkind = format!("term-map({})", match k { 0 => "0", 1 => "1", 2 | 3 => "2-3", _ => "many" });
        generator = SnippetGenerator::new(map, analyzer.clone(), field, 150);
    } else {
        let mut sb = Schema::builder();
        let indexing = TextFieldIndexing::default()
            .set_tokenizer("c19")
            .set_index_option(IndexRecordOption::WithFreqsAndPositions);
        let body = sb.add_text_field("body", TextOptions::default().set_indexing_options(indexing).set_stored());
        let other = sb.add_text_field("other", TEXT);
        let index = Index::create_in_ram(sb.build());
        index.tokenizers().register("c19", analyzer.clone());
        field = body;
        let mut writer: IndexWriter = match index.writer_with_num_threads(1, 15_000_000) {
            Ok(w) => w,
            Err(e) => {
                rep.violation("api-error:writer", json!(e.to_string()));
                return;
            }
        };
        for (t, _) in &texts {
            if t.len() > 200_000 {
                continue;
            }
            let mut d = TantivyDocument::default();
            d.add_text(body, t);
            d.add_text(other, "hello other field");
            if let Err(e) = writer.add_document(d) {
                rep.violation("api-error:add_document", json!(e.to_string()));
                return;
            }
        }
        if rng.chance(1, 4) {
            // a pre-tokenized value with the analyzer's own tokens in the same field
            let (t, _) = &texts[0];
            if t.len() < 5000 {
                let mut toks = vec![];
                analyzer.clone().token_stream(t).process(&mut |tk| toks.push(tk.clone()));
                let mut d = TantivyDocument::default();
                d.add_pre_tokenized_text(body, PreTokenizedString { text: t.clone(), tokens: toks });
                if let Err(e) = writer.add_document(d) {
                    rep.violation("api-error:add_document-pretokenized", json!(e.to_string()));
                    return;
                }
                rep.count("pretokenized_docs_indexed", 1);
            }
        }
        if let Err(e) = writer.commit() {
            rep.violation("api-error:commit", json!(e.to_string()));
            return;
        }
        let reader = match index.reader() {
            Ok(r) => r,
            Err(e) => {
                rep.violation("api-error:reader", json!(e.to_string()));
                return;
            }
        };
        let searcher = reader.searcher();
        let tq = |s: &str| -> Box<dyn Query> {
            Box::new(TermQuery::new(Term::from_field_text(body, s), IndexRecordOption::WithFreqsAndPositions))
        };
        let kind = rng.below(16);
        let query: Box<dyn Query> = match kind {
            0 | 1 => {
                let t = pick_terms(rng, &candidates, 1);
                terms.extend(t.iter().cloned());
                qkind = "term".into();
                tq(&t[0])
            }
            2 => {
                terms.insert("zzzabsent".into());
                qkind = "term-absent".into();
                tq("zzzabsent")
            }
            3 | 4 | 5 => {
                let k = rng.urange(2, 8);
                let t = pick_terms(rng, &candidates, k);
                terms.extend(t.iter().cloned());
                qkind = "boolean".into();
                let occurs = [Occur::Should, Occur::Should, Occur::Must, Occur::MustNot];
                Box::new(BooleanQuery::new(t.iter().map(|s| (*rng.pick(&occurs), tq(s))).collect()))
            }
            6 | 7 => {
                let k = rng.urange(2, 4);
                let t = pick_terms(rng, &candidates, k);
                terms.extend(t.iter().cloned());
                qkind = "phrase".into();
                let ts: Vec<Term> = t.iter().map(|s| Term::from_field_text(body, s)).collect();
                if rng.bool() {
                    Box::new(PhraseQuery::new(ts))
                } else {
                    Box::new(PhraseQuery::new_with_offset_and_slop(
                        ts.into_iter().enumerate().map(|(i, t)| (i * 2, t)).collect(),
                        rng.below(3) as u32,
                    ))
                }
            }
            8 => {
                let t = pick_terms(rng, &candidates, 1);
                qkind = "fuzzy(no-terms)".into();
                Box::new(FuzzyTermQuery::new(Term::from_field_text(body, &t[0]), rng.below(3) as u8, true))
            }
            9 => {
                qkind = "regex(no-terms)".into();
                match RegexQuery::from_pattern(*rng.pick(&["h.*", ".*", "[a-z]+", "İ.*"]), body) {
                    Ok(q) => Box::new(q),
                    Err(_) => Box::new(EmptyQuery),
                }
            }
            10 | 11 => {
                // the query parser analyses raw words of the texts with the field's tokenizer
                let mut words: Vec<&str> = vec![];
                for (t, _) in &texts {
                    words.extend(naive_words(t));
                }
                let k = rng.urange(1, 3);
                let mut qs = String::new();
                for i in 0..k {
                    if i > 0 {
                        qs.push(' ');
                    }
                    if words.is_empty() {
                        qs.push_str("hello");
                    } else {
                        let w: String = rng.pick(&words).chars().filter(|c| c.is_alphanumeric() || *c == '\u{301}' || *c == '\u{307}').collect();
                        qs.push_str(if w.is_empty() { "x" } else { &w });
                    }
                }
                if rng.chance(1, 3) {
                    qs = format!("\"{qs}\"");
                }
                let qp = QueryParser::for_index(&index, vec![body]);
                let (q, _errs) = qp.parse_query_lenient(&qs);
                qkind = "query-parser".into();
                // the parser chooses the terms: read them back from the query
                let mut found: Vec<String> = vec![];
                q.query_terms(&mut |t, _| {
                    if t.field() == body {
                        if let Some(s) = t.value().as_str() {
                            found.push(s.to_string());
                        }
                    }
                });
                terms.extend(found);
                q
            }
            12 => {
                let t = pick_terms(rng, &candidates, 2);
                terms.extend(t.iter().cloned());
                qkind = "boost+const+dismax".into();
                Box::new(DisjunctionMaxQuery::new(vec![
                    Box::new(BoostQuery::new(tq(&t[0]), 2.5)),
                    Box::new(ConstScoreQuery::new(tq(&t[1]), 0.5)),
                ]))
            }
            13 => {
                let k = rng.urange(1, 6);
                let t = pick_terms(rng, &candidates, k);
                terms.extend(t.iter().cloned());
                qkind = "term-set".into();
                Box::new(TermSetQuery::new(t.iter().map(|s| Term::from_field_text(body, s))))
            }
            14 => {
                let t = pick_terms(rng, &candidates, 2);
                terms.extend(t.iter().cloned());
                qkind = "phrase-prefix".into();
                Box::new(PhrasePrefixQuery::new(t.iter().map(|s| Term::from_field_text(body, s)).collect()))
            }
            _ => {
                qkind = "all/other-field(no-terms)".into();
                if rng.bool() {
                    Box::new(AllQuery)
                } else {
                    Box::new(TermQuery::new(Term::from_field_text(other, "hello"), IndexRecordOption::Basic))
                }
            }
        };
        generator = match SnippetGenerator::create(&searcher, &*query, body) {
            Ok(g) => g,
            Err(e) => {
                rep.violation("api-error:SnippetGenerator::create", json!({"err": e.to_string(), "query_kind": qkind}));
                return;
            }
        };
    }
    rep.observe("snippet_query_kind", qkind.clone());
    // sometimes also a text that is not in the index but shares words
    if rng.chance(1, 4) {
        let mut t = texts[0].0.clone();
        if let Some(c) = candidates.first() {
            if c.len() < 200 {
                t = format!("<{c}> & {t} '{c}'");
            }
        }
        texts.push((t, "derived"));
    }
    let cx = SnipCtx { spec: &spec, analyzer: &analyzer, terms: &terms, mode, qkind: &qkind };
    let mut an = analyzer.clone();
    for (ti, (text, class)) in texts.iter().enumerate() {
        rep.eval();
        rep.observe("snippet_text_class", *class);
        let tfacts = token_facts(&mut an, text);
        let first_tok_end = {
            let mut s = an.token_stream(text);
            if s.advance() { s.token().offset_to } else { 0 }
        };
        let ns = n_values(rng, text);
        let mut any_hl = false;
        let mut buckets: BTreeSet<&'static str> = BTreeSet::new();
        let mut failed = false;
        for &n in &ns {
            generator.set_max_num_chars(n);
            rep.count("snippet_calls", 1);
            let mut snippet = match guarded(|| generator.snippet(text)) {
                Ok(s) => s,
                Err(p) => {
                    let mut w = spec.witness();
                    w["text"] = json!(clip(text, 300));
                    w["max_num_chars"] = json!(n);
                    w["query_terms"] = json!(terms.iter().take(12).collect::<Vec<_>>());
                    w["panic"] = json!({"at": p.location, "message": p.message});
                    rep.violation(format!("snippet:snippet()-panics:{}", panic_sig(&p)), w);
                    failed = true;
                    break;
                }
            };
            let f = check_snippet(rep, &cx, text, &tfacts, n, &mut snippet, "snippet", rng);
            if f.highlights > 0 {
                any_hl = true;
                rep.count("snippets_with_highlights", 1);
                buckets.insert(if n < first_tok_end {
                    "n<first-token"
                } else if n < text.len() {
                    "n<text"
                } else {
                    "n>=text"
                });
                if f.highlights >= 2 {
                    rep.count("snippets_with_2+_highlights", 1);
                }
            } else {
                rep.count("snippets_empty", 1);
            }
            if !f.ok {
                failed = true;
                break; // one report per (text, query) is enough
            }
        }
        // snippet_from_doc: values of the field joined by ' ' and trimmed
        if !failed && ti == 0 {
            let mut doc = TantivyDocument::default();
            let mut joined = String::new();
            let nvals = rng.urange(1, 3);
            for v in 0..nvals {
                let val = &texts[v % texts.len()].0;
                if val.len() > 20_000 {
                    continue;
                }
                doc.add_text(field, val);
                joined.push(' ');
                joined.push_str(val);
            }
            doc.add_text(Field::from_field_id(field.field_id() + 1), "ignored value of another field");
            let expect_text = joined.trim().to_string();
            let tf = token_facts(&mut an, &expect_text);
            for &n in &[0usize, 1, 3, 10, 40, 150, expect_text.len(), expect_text.len() + 10] {
                generator.set_max_num_chars(n);
                rep.count("snippet_from_doc_calls", 1);
                let mut snippet = match guarded(|| generator.snippet_from_doc(&doc)) {
                    Ok(s) => s,
                    Err(p) => {
                        let mut w = spec.witness();
                        w["text"] = json!(clip(&expect_text, 300));
                        w["max_num_chars"] = json!(n);
                        w["panic"] = json!({"at": p.location, "message": p.message});
                        rep.violation(format!("snippet:snippet_from_doc()-panics:{}", panic_sig(&p)), w);
                        break;
                    }
                };
                let f = check_snippet(rep, &cx, &expect_text, &tf, n, &mut snippet, "snippet_from_doc", rng);
                if !f.ok {
                    break;
                }
            }
        }
        if any_hl && has_multibyte(text) && !failed {
            for b in buckets {
                rep.nontrivial(format!("snippet|{}|{}|{}|{}|{}", spec.describe(), mode, qkind, class, b));
            }
        }
        if case < 3 && ti == 0 {
            rep.sample(json!({"stream": "snippets", "analyzer": spec.describe(), "mode": mode, "query_kind": qkind,
                "text": clip(text, 60), "terms": terms.iter().take(5).collect::<Vec<_>>(), "max_num_chars_values": ns.len()}));
        }
    }
}

fn main() {
    let ctx = Ctx::from_env("C19", "exploration");
    let mut rep = run_cases(&ctx, "tokens", ctx.scale(12_000, 600_000) as u64, token_case);
    let regex = run_cases(&ctx, "regex", ctx.scale(6_000, 120_000) as u64, regex_case);
    rep.merge(regex);
    let reuse = run_cases(&ctx, "reuse", ctx.scale(5_000, 100_000) as u64, reuse_case);
    rep.merge(reuse);
    let snip = run_cases(&ctx, "snippets", ctx.scale(3_000, 100_000) as u64, snippet_case);
    rep.merge(snip);
    simple_finish(
        &ctx,
        rep,
        "tokens: one evaluation = (generated text, tokenizer, filter chain); non-trivial = text has a multi-byte \
         character and the chain emitted >= 2 tokens with every check passing; distinct = (tokenizer incl. parameters, filter chain \
         incl. parameters, text class). regex: RegexTokenizer with patterns generated from a grammar (atoms x quantifiers incl. \
         zero-width ones, alternations with empty branches, anchors, flags; patterns that can match the empty string, match at \
         every position or match multi-byte characters) over texts whose matching pieces are separated by 0-4 byte characters, bare \
         or with filters; same checks as tokens, non-trivial = multi-byte text with >= 1 token. reuse: one evaluation = one token \
         stream of an analyzer instance that is used for 3-9 texts in sequence (the original, a clone made before use, clones \
         made after a dropped stream; sometimes two instances interleaved), dropped after 0..k tokens (inside a group of tokens \
         with equal start = split compound / n-gram window, after the first, before the last, random, fully consumed); every pulled \
         token must satisfy the statement for the text of ITS stream and equal the token a fresh analyzer of the same \
         configuration emits; non-trivial = stream on an instance whose previous stream was abandoned early, multi-byte text with \
         >= 2 tokens; distinct = (analyzer, kind of the previous drop, instance kind, text class). snippets: one evaluation = (analyzer, query/term map, text) swept over \
         max_num_chars 0..=len+10 (sampled for long texts); non-trivial = multi-byte text with >= 1 highlighted range; \
         distinct = (analyzer, constructor, query kind, text class, limit bucket)",
        ctx.scale(2_000, 60_000),
        &[
            "the analyzer of the field is used to re-analyse highlighted text; analysis of a token's own slice is assumed to reproduce the token (true for the built-in tokenizers used for snippets)",
            "raw Snippet::highlighted() may contain overlapping ranges when the field's analyzer itself emits overlapping tokens (n-grams, split compounds); sorted+disjoint is then required of collapse_overlapped_ranges(highlighted), which is what to_html renders",
            "to_html may or may not merge touching ranges (documentation and code of collapse_overlapped_ranges disagree); both renderings are accepted",
            "SplitCompoundWords dictionaries and stop-word lists are valid UTF-8 strings",
            "the tokens of a text are a function of (analyzer configuration, text): a reused or cloned analyzer must emit, for each text, the tokens a freshly built analyzer of the same configuration emits (signatures reuse:*); which tokens a RegexTokenizer emits around empty matches is NOT prescribed (only the per-token clauses are checked there)",
            "completeness of highlighting (every occurrence of a term is highlighted, best fragment chosen) is not part of the statement and is not checked",
        ],
    );
}
