//! Shared by c03.rs and c13.rs: model corpus generator, index builder, query-tree generator,
//! naive query evaluator (no tantivy code beyond public constructors).
#![allow(dead_code)]

use std::cmp::Ordering;
use std::collections::BTreeSet;
use std::net::Ipv6Addr;
use std::ops::Bound;

use serde_json::{json, Value};
use tantivy::indexer::NoMergePolicy;
use tantivy::query::{
    AllQuery, BooleanQuery, BoostQuery, ConstScoreQuery, DisjunctionMaxQuery, EmptyQuery,
    ExistsQuery, FastFieldRangeQuery, FuzzyTermQuery, InvertedIndexRangeQuery, Occur,
    PhrasePrefixQuery, PhraseQuery, Query, RangeQuery, RegexPhraseQuery, RegexQuery, TermQuery,
    TermSetQuery,
};
use tantivy::schema::{
    BytesOptions, DateOptions, Field, IndexRecordOption, IpAddrOptions, NumericOptions, Schema,
    TextFieldIndexing, TextOptions, FAST, INDEXED, STRING, TEXT,
};
use tantivy::{
    DateTime, DocAddress, Index, IndexReader, IndexSettings, IndexSortByField, IndexWriter, Order,
    ReloadPolicy, Searcher, TantivyDocument, Term,
};
use tvmon::rng::Rng;

// ---------------------------------------------------------------------------------------------
// vocabularies (lowercase ascii words: the default tokenizer yields exactly these tokens)

/// body vocabulary; the first 8 entries are the boundary-frequency markers
pub const BODY: &[&str] = &[
    "tall", "tnone", "tone", "tsev", "teig", "tnin", "tbig", "thalf", // markers
    "a", "b", "c", "d", "ab", "abc", "abd", "abcd", "abcde", "bcd", "cab", "ba", "aa", "aaa",
    "alpha", "alpine", "alps", "beta", "bet", "bets", "gamma", "gama", "delta", "delt", "dealt",
    "omega", "omeg", "x", "xy", "xyz", "yx", "zz", "zzz", "kappa", "kapa",
];
pub const W_ALL: u8 = 0;
pub const W_NONE: u8 = 1;
pub const W_ONE: u8 = 2;
pub const W_127: u8 = 3;
pub const W_128: u8 = 4;
pub const W_129: u8 = 5;
pub const W_BIG: u8 = 6;
pub const W_HALF: u8 = 7;
pub const N_MARK: usize = 8;

/// vocabulary of the `basic` (no freqs) and `freq` (freqs, no positions) text fields
pub const SMALL: &[&str] = &["p", "q", "r", "s", "pq", "qr", "pp", "sall", "snone"];
pub const S_ALL: u8 = 7;
pub const S_NONE: u8 = 8;
/// vocabulary of the raw-tokenized `tag` field (STRING | FAST)
pub const TAGS: &[&str] = &[
    "t00", "t01", "t02", "t10", "t11", "t2", "ta", "tab", "tabc", "u", "ua", "zz",
];

#[derive(Clone, Copy, Debug, PartialEq, Eq, PartialOrd, Ord)]
pub enum TF {
    Body,
    Basic,
    Freq,
    Tag,
}

impl TF {
    pub fn vocab(self) -> &'static [&'static str] {
        match self {
            TF::Body => BODY,
            TF::Basic | TF::Freq => SMALL,
            TF::Tag => TAGS,
        }
    }
    pub fn name(self) -> &'static str {
        match self {
            TF::Body => "body",
            TF::Basic => "basic",
            TF::Freq => "freq",
            TF::Tag => "tag",
        }
    }
}

// ---------------------------------------------------------------------------------------------
// typed values

pub const NTY: usize = 7;
pub const TY_NAMES: [&str; NTY] = ["u", "i", "f", "b", "d", "ip", "by"];
pub const T_U: usize = 0;
pub const T_I: usize = 1;
pub const T_F: usize = 2;
pub const T_B: usize = 3;
pub const T_D: usize = 4;
pub const T_IP: usize = 5;
pub const T_BY: usize = 6;
pub const V_IDX: usize = 0;
pub const V_FAST: usize = 1;
pub const V_BOTH: usize = 2;
pub const VAR_NAMES: [&str; 3] = ["idx", "fast", "both"];

#[derive(Clone, Debug, PartialEq)]
pub enum Val {
    U(u64),
    I(i64),
    F(f64),
    B(bool),
    /// whole seconds since the epoch
    D(i64),
    Ip(u128),
    By(Vec<u8>),
}

impl Val {
    pub fn ty(&self) -> usize {
        match self {
            Val::U(_) => T_U,
            Val::I(_) => T_I,
            Val::F(_) => T_F,
            Val::B(_) => T_B,
            Val::D(_) => T_D,
            Val::Ip(_) => T_IP,
            Val::By(_) => T_BY,
        }
    }
    /// comparison on the typed value (same type on both sides)
    pub fn cmp_val(&self, o: &Val) -> Ordering {
        match (self, o) {
            (Val::U(a), Val::U(b)) => a.cmp(b),
            (Val::I(a), Val::I(b)) => a.cmp(b),
            (Val::F(a), Val::F(b)) => a.partial_cmp(b).expect("no NaN generated"),
            (Val::B(a), Val::B(b)) => a.cmp(b),
            (Val::D(a), Val::D(b)) => a.cmp(b),
            (Val::Ip(a), Val::Ip(b)) => a.cmp(b),
            (Val::By(a), Val::By(b)) => a.cmp(b),
            _ => panic!("type confusion in the harness"),
        }
    }
    pub fn json(&self) -> Value {
        match self {
            Val::U(v) => json!({"u64": v.to_string()}),
            Val::I(v) => json!({"i64": v.to_string()}),
            Val::F(v) => json!({"f64": format!("{v:e}")}),
            Val::B(v) => json!({"bool": v}),
            Val::D(v) => json!({"date_secs": v}),
            Val::Ip(v) => json!({"ip": Ipv6Addr::from(*v).to_string()}),
            Val::By(v) => json!({"bytes": v}),
        }
    }
    pub fn term(&self, field: Field) -> Term {
        match self {
            Val::U(v) => Term::from_field_u64(field, *v),
            Val::I(v) => Term::from_field_i64(field, *v),
            Val::F(v) => Term::from_field_f64(field, *v),
            Val::B(v) => Term::from_field_bool(field, *v),
            Val::D(v) => Term::from_field_date(field, DateTime::from_timestamp_secs(*v)),
            Val::Ip(v) => Term::from_field_ip_addr(field, Ipv6Addr::from(*v)),
            Val::By(v) => Term::from_field_bytes(field, v),
        }
    }
    pub fn add_to(&self, doc: &mut TantivyDocument, field: Field) {
        match self {
            Val::U(v) => doc.add_u64(field, *v),
            Val::I(v) => doc.add_i64(field, *v),
            Val::F(v) => doc.add_f64(field, *v),
            Val::B(v) => doc.add_bool(field, *v),
            Val::D(v) => doc.add_date(field, DateTime::from_timestamp_secs(*v)),
            Val::Ip(v) => doc.add_ip_addr(field, Ipv6Addr::from(*v)),
            Val::By(v) => doc.add_bytes(field, v),
        }
    }
}

fn in_bounds(v: &Val, lo: &Bound<Val>, hi: &Bound<Val>) -> bool {
    let lo_ok = match lo {
        Bound::Unbounded => true,
        Bound::Included(b) => v.cmp_val(b) != Ordering::Less,
        Bound::Excluded(b) => v.cmp_val(b) == Ordering::Greater,
    };
    let hi_ok = match hi {
        Bound::Unbounded => true,
        Bound::Included(b) => v.cmp_val(b) != Ordering::Greater,
        Bound::Excluded(b) => v.cmp_val(b) == Ordering::Less,
    };
    lo_ok && hi_ok
}

fn str_in_bounds(v: &str, lo: &Bound<String>, hi: &Bound<String>) -> bool {
    let v = v.as_bytes();
    let lo_ok = match lo {
        Bound::Unbounded => true,
        Bound::Included(b) => v >= b.as_bytes(),
        Bound::Excluded(b) => v > b.as_bytes(),
    };
    let hi_ok = match hi {
        Bound::Unbounded => true,
        Bound::Included(b) => v <= b.as_bytes(),
        Bound::Excluded(b) => v < b.as_bytes(),
    };
    lo_ok && hi_ok
}

fn bound_json<T>(b: &Bound<T>, f: impl Fn(&T) -> Value) -> Value {
    match b {
        Bound::Unbounded => json!("unbounded"),
        Bound::Included(v) => json!({"incl": f(v)}),
        Bound::Excluded(v) => json!({"excl": f(v)}),
    }
}

fn bound_kind<T>(b: &Bound<T>) -> &'static str {
    match b {
        Bound::Unbounded => "u",
        Bound::Included(_) => "i",
        Bound::Excluded(_) => "e",
    }
}

fn map_bound<T, U>(b: &Bound<T>, f: impl Fn(&T) -> U) -> Bound<U> {
    match b {
        Bound::Unbounded => Bound::Unbounded,
        Bound::Included(v) => Bound::Included(f(v)),
        Bound::Excluded(v) => Bound::Excluded(f(v)),
    }
}

// ---------------------------------------------------------------------------------------------
// schema

#[derive(Clone)]
pub struct Fields {
    pub schema: Schema,
    pub id: Field,
    pub sortkey: Field,
    pub body: Field,
    pub basic: Field,
    pub freq: Field,
    pub tag: Field,
    /// [type][variant]
    pub typed: Vec<[Field; 3]>,
}

pub fn typed_name(ty: usize, var: usize) -> String {
    format!("{}_{}", TY_NAMES[ty], VAR_NAMES[var])
}

impl Fields {
    pub fn new() -> Fields {
        let mut b = Schema::builder();
        let id = b.add_u64_field("id", INDEXED | FAST);
        let sortkey = b.add_u64_field("sortkey", FAST);
        let body = b.add_text_field("body", TEXT);
        let basic = b.add_text_field(
            "basic",
            TextOptions::default().set_indexing_options(
                TextFieldIndexing::default()
                    .set_tokenizer("default")
                    .set_index_option(IndexRecordOption::Basic),
            ),
        );
        let freq = b.add_text_field(
            "freq",
            TextOptions::default().set_indexing_options(
                TextFieldIndexing::default()
                    .set_tokenizer("default")
                    .set_index_option(IndexRecordOption::WithFreqs),
            ),
        );
        let tag = b.add_text_field("tag", STRING | FAST);
        let mut typed = vec![];
        for ty in 0..NTY {
            let mut fs = [id; 3];
            for var in 0..3 {
                let name = typed_name(ty, var);
                let (ix, fa) = (var != V_FAST, var != V_IDX);
                fs[var] = match ty {
                    T_U | T_I | T_F | T_B => {
                        let mut o = NumericOptions::default();
                        if ix {
                            o = o.set_indexed();
                        }
                        if fa {
                            o = o.set_fast();
                        }
                        match ty {
                            T_U => b.add_u64_field(&name, o),
                            T_I => b.add_i64_field(&name, o),
                            T_F => b.add_f64_field(&name, o),
                            _ => b.add_bool_field(&name, o),
                        }
                    }
                    T_D => {
                        let mut o = DateOptions::default();
                        if ix {
                            o = o.set_indexed();
                        }
                        if fa {
                            o = o.set_fast();
                        }
                        b.add_date_field(&name, o)
                    }
                    T_IP => {
                        let mut o = IpAddrOptions::default();
                        if ix {
                            o = o.set_indexed();
                        }
                        if fa {
                            o = o.set_fast();
                        }
                        b.add_ip_addr_field(&name, o)
                    }
                    _ => {
                        let mut o = BytesOptions::default();
                        if ix {
                            o = o.set_indexed();
                        }
                        if fa {
                            o = o.set_fast();
                        }
                        b.add_bytes_field(&name, o)
                    }
                };
            }
            typed.push(fs);
        }
        Fields { schema: b.build(), id, sortkey, body, basic, freq, tag, typed }
    }
    pub fn text(&self, f: TF) -> Field {
        match f {
            TF::Body => self.body,
            TF::Basic => self.basic,
            TF::Freq => self.freq,
            TF::Tag => self.tag,
        }
    }
}

// ---------------------------------------------------------------------------------------------
// model documents

#[derive(Clone, Debug)]
pub struct MDoc {
    pub id: u64,
    pub sortkey: u64,
    /// multi-valued: one token list per value
    pub body: Vec<Vec<u8>>,
    pub basic: Vec<u8>,
    pub freq: Vec<u8>,
    pub tag: Option<u8>,
    pub vals: Vec<Vec<Val>>,
    // derived
    pub body_mask: u64,
    pub basic_mask: u64,
    pub freq_mask: u64,
    /// (word, position) with the documented position gap of 1 between values
    pub body_pos: Vec<(u8, u32)>,
}

impl MDoc {
    pub fn finish(&mut self) {
        self.body_mask = 0;
        self.body_pos.clear();
        let mut base = 0u32;
        for v in &self.body {
            for (i, &w) in v.iter().enumerate() {
                self.body_mask |= 1u64 << w;
                self.body_pos.push((w, base + i as u32));
            }
            base += v.len() as u32 + 1;
        }
        self.basic_mask = self.basic.iter().fold(0, |m, &w| m | 1u64 << w);
        self.freq_mask = self.freq.iter().fold(0, |m, &w| m | 1u64 << w);
    }
    pub fn mask(&self, f: TF) -> u64 {
        match f {
            TF::Body => self.body_mask,
            TF::Basic => self.basic_mask,
            TF::Freq => self.freq_mask,
            TF::Tag => self.tag.map(|t| 1u64 << t).unwrap_or(0),
        }
    }
    pub fn to_doc(&self, fs: &Fields) -> TantivyDocument {
        let mut d = TantivyDocument::new();
        d.add_u64(fs.id, self.id);
        d.add_u64(fs.sortkey, self.sortkey);
        for v in &self.body {
            let words: Vec<&str> = v.iter().map(|&w| BODY[w as usize]).collect();
            d.add_text(fs.body, words.join(" "));
        }
        if !self.basic.is_empty() {
            let words: Vec<&str> = self.basic.iter().map(|&w| SMALL[w as usize]).collect();
            d.add_text(fs.basic, words.join(" "));
        }
        if !self.freq.is_empty() {
            let words: Vec<&str> = self.freq.iter().map(|&w| SMALL[w as usize]).collect();
            d.add_text(fs.freq, words.join(" "));
        }
        if let Some(t) = self.tag {
            d.add_text(fs.tag, TAGS[t as usize]);
        }
        for ty in 0..NTY {
            for v in &self.vals[ty] {
                for var in 0..3 {
                    v.add_to(&mut d, fs.typed[ty][var]);
                }
            }
        }
        d
    }
    pub fn json(&self) -> Value {
        json!({
            "id": self.id,
            "body": self.body.iter().map(|v| v.iter().map(|&w| BODY[w as usize]).collect::<Vec<_>>().join(" ")).collect::<Vec<_>>(),
            "basic": self.basic.iter().map(|&w| SMALL[w as usize]).collect::<Vec<_>>().join(" "),
            "freq": self.freq.iter().map(|&w| SMALL[w as usize]).collect::<Vec<_>>().join(" "),
            "tag": self.tag.map(|t| TAGS[t as usize]),
            "vals": self.vals.iter().map(|vs| vs.iter().map(|v| v.json()).collect::<Vec<_>>()).collect::<Vec<_>>(),
        })
    }
}

// ---------------------------------------------------------------------------------------------
// corpus

#[derive(Clone, Debug)]
pub struct Corpus {
    pub class: &'static str,
    pub docs: Vec<MDoc>,
    /// sizes of the commit groups (one segment each with a single indexing thread)
    pub groups: Vec<usize>,
    /// (group index before whose commit the delete is issued, id); group == groups.len() means a
    /// final delete-only commit
    pub deletes: Vec<(usize, u64)>,
    pub sorted: Option<bool>,
    /// value pools the documents (and the queries) draw from
    pub pools: Vec<Vec<Val>>,
    /// 0 = no values, 1 = exactly one per doc, 2 = optional, 3 = multi
    pub card: Vec<u8>,
    pub deleted_ids: BTreeSet<u64>,
}

fn pool_for(ty: usize, rng: &mut Rng) -> Vec<Val> {
    let n = rng.urange(2, 9);
    let mut out = vec![];
    for _ in 0..n {
        let v = match ty {
            T_U => Val::U(match rng.below(10) {
                0 => 0,
                1 => u64::MAX,
                2 => u64::MAX - 1,
                3 => 1 << 63,
                4 => (1 << 63) - 1,
                5 => *rng.pick(&[127u64, 128, 129, 255, 256, 1000, 65535, 65536]),
                _ => rng.below(20),
            }),
            T_I => Val::I(match rng.below(10) {
                0 => i64::MIN,
                1 => i64::MAX,
                2 => i64::MIN + 1,
                3 => i64::MAX - 1,
                4 => *rng.pick(&[-1000i64, 1000, -65536, 65536]),
                _ => rng.irange(-10, 10),
            }),
            T_F => Val::F(match rng.below(12) {
                0 => f64::MAX,
                1 => f64::MIN,
                2 => f64::MIN_POSITIVE,
                3 => -f64::MIN_POSITIVE,
                4 => 1e10,
                5 => -1e10,
                6 => f64::INFINITY,
                7 => f64::NEG_INFINITY,
                _ => {
                    // avoid -0.0: its order against 0.0 is not defined by the typed comparison
                    let k = rng.irange(-8, 8);
                    if k == 0 {
                        0.0
                    } else {
                        k as f64 / 2.0
                    }
                }
            }),
            T_B => Val::B(rng.bool()),
            T_D => Val::D(match rng.below(8) {
                0 => 0,
                1 => -1,
                2 => 1,
                3 => 4_000_000_000,
                4 => -4_000_000_000,
                _ => 1_600_000_000 + rng.irange(-5, 5),
            }),
            T_IP => Val::Ip(match rng.below(12) {
                0 => 0,
                1 => u128::MAX,
                2 => 1,
                3 => u128::MAX - 1,
                4 => 1u128 << 64,
                5 => (1u128 << 64) - 1,
                // ipv4-mapped
                6 | 7 | 8 => 0xFFFF_0000_0000u128 + rng.below(6) as u128,
                _ => rng.below(8) as u128 + 2,
            }),
            _ => Val::By(match rng.below(10) {
                0 => vec![],
                1 => vec![0],
                2 => vec![0, 0],
                3 => vec![255],
                4 => vec![255, 255],
                _ => {
                    let n = rng.urange(1, 3);
                    (0..n).map(|_| *rng.pick(&[0u8, 1, 2, 97, 98, 255])).collect()
                }
            }),
        };
        if !out.contains(&v) {
            out.push(v);
        }
    }
    out
}

pub struct CorpusCfg {
    /// largest segment allowed (quick runs keep the >4096 class rarer / smaller)
    pub max_big: usize,
    /// weights of the classes tiny, small, block, big, huge
    pub class_weights: [u32; 5],
}

pub fn gen_corpus(rng: &mut Rng, cfg: &CorpusCfg) -> Corpus {
    let class_i = rng.weighted(&cfg.class_weights);
    let class = ["tiny", "small", "block", "big", "huge"][class_i];
    // commit group sizes
    let mut groups: Vec<usize> = vec![];
    match class_i {
        0 => {
            let ng = rng.urange(1, 4);
            for _ in 0..ng {
                groups.push(*rng.pick(&[1usize, 1, 2, 3, 5, 8]));
            }
        }
        1 => {
            let ng = rng.urange(1, 4);
            for _ in 0..ng {
                groups.push(rng.urange(10, 120));
            }
            if rng.chance(1, 3) {
                groups.push(1);
            }
        }
        2 => {
            let ng = rng.urange(1, 3);
            for _ in 0..ng {
                groups.push(*rng.pick(&[127usize, 128, 129, 130, 255, 256, 257, 300, 384, 513]));
            }
            if rng.chance(1, 3) {
                groups.push(rng.urange(1, 3));
            }
        }
        3 => {
            groups.push(rng.urange(4200, cfg.max_big.max(4300)));
            if rng.chance(1, 2) {
                groups.push(rng.urange(1, 200));
            }
        }
        _ => {
            // several union windows / column blocks in one segment
            groups.push(rng.urange(8300, cfg.max_big.max(8400)));
            if rng.chance(1, 3) {
                groups.push(rng.urange(1, 130));
            }
        }
    }
    rng.shuffle(&mut groups);
    let total: usize = groups.iter().sum();
    let big = total > 2000;
    let pools: Vec<Vec<Val>> = (0..NTY).map(|ty| pool_for(ty, rng)).collect();
    let card: Vec<u8> = (0..NTY).map(|_| rng.weighted(&[1, 3, 4, 3]) as u8).collect();
    // per-corpus word densities (per mille) for the ordinary body words
    let dens: Vec<u32> = (0..BODY.len())
        .map(|_| *rng.pick(&[2u32, 10, 10, 50, 50, 150, 150, 400, 800]))
        .collect();
    let small_dens: Vec<u32> = (0..SMALL.len())
        .map(|_| *rng.pick(&[20u32, 100, 300, 600, 900]))
        .collect();
    let sorted = if rng.chance(1, 5) { Some(rng.bool()) } else { None };
    let mut docs = Vec::with_capacity(total);
    let max_len = if big { 5 } else { 9 };
    for id in 0..total as u64 {
        let nvals = match rng.below(12) {
            0 => 0,
            1 | 2 => 2,
            3 => 3,
            _ => 1,
        };
        let mut body: Vec<Vec<u8>> = vec![];
        for _ in 0..nvals {
            let len = if rng.chance(1, 25) { 0 } else { rng.urange(1, max_len) };
            let mut v = vec![];
            for _ in 0..len {
                // pick by density: try a few random words, accept by density
                let mut w = rng.urange(N_MARK, BODY.len() - 1);
                for _ in 0..4 {
                    if rng.below(1000) < dens[w] as u64 {
                        break;
                    }
                    w = rng.urange(N_MARK, BODY.len() - 1);
                }
                v.push(w as u8);
            }
            body.push(v);
        }
        let mut basic = vec![];
        let mut freq = vec![];
        for w in 0..SMALL.len() {
            if w as u8 == S_ALL || w as u8 == S_NONE {
                continue;
            }
            if rng.below(1000) < small_dens[w] as u64 {
                basic.push(w as u8);
                if rng.chance(1, 4) {
                    basic.push(w as u8);
                }
            }
            if rng.below(1000) < small_dens[(w + 3) % (SMALL.len() - 2)] as u64 {
                freq.push(w as u8);
                if rng.chance(1, 3) {
                    freq.push(w as u8);
                }
            }
        }
        rng.shuffle(&mut basic);
        rng.shuffle(&mut freq);
        let tag = if rng.chance(1, 8) { None } else { Some(rng.usize_below(TAGS.len()) as u8) };
        let mut vals: Vec<Vec<Val>> = vec![];
        for ty in 0..NTY {
            let n = match card[ty] {
                0 => 0,
                1 => 1,
                2 => rng.urange(0, 1),
                _ => *rng.pick(&[0usize, 1, 1, 2, 3]),
            };
            let mut vs = vec![];
            for _ in 0..n {
                vs.push(rng.pick(&pools[ty]).clone());
            }
            vals.push(vs);
        }
        let sk_range = if rng.bool() { 5 } else { 1000 };
        docs.push(MDoc {
            id,
            sortkey: rng.below(sk_range),
            body,
            basic,
            freq,
            tag,
            vals,
            body_mask: 0,
            basic_mask: 0,
            freq_mask: 0,
            body_pos: vec![],
        });
    }
    // boundary-frequency markers, per segment (= commit group)
    let mut start = 0usize;
    let all_everywhere = rng.bool();
    let all_group = rng.usize_below(groups.len());
    let small_all = rng.chance(2, 3);
    for (g, &sz) in groups.iter().enumerate() {
        let seg: Vec<usize> = (start..start + sz).collect();
        let put = |docs: &mut Vec<MDoc>, rng: &mut Rng, w: u8, n: usize| {
            if n > sz {
                return;
            }
            let mut idx = seg.clone();
            rng.shuffle(&mut idx);
            for &i in idx.iter().take(n) {
                let d = &mut docs[i];
                if d.body.is_empty() {
                    d.body.push(vec![]);
                }
                let k = rng.usize_below(d.body.len());
                let at = rng.urange(0, d.body[k].len());
                d.body[k].insert(at, w);
            }
        };
        if all_everywhere || g == all_group {
            put(&mut docs, rng, W_ALL, sz);
        }
        if rng.chance(2, 3) {
            put(&mut docs, rng, W_ONE, 1);
        }
        put(&mut docs, rng, W_127, 127);
        put(&mut docs, rng, W_128, 128);
        put(&mut docs, rng, W_129, 129);
        if sz > 4200 {
            let n = rng.urange(4097, sz);
            put(&mut docs, rng, W_BIG, n);
        }
        put(&mut docs, rng, W_HALF, sz / 2);
        if small_all {
            for i in start..start + sz {
                docs[i].basic.push(S_ALL);
                docs[i].freq.insert(0, S_ALL);
            }
        }
        start += sz;
    }
    for d in docs.iter_mut() {
        d.finish();
    }
    // deletes
    let mut deletes = vec![];
    let mut deleted_ids = BTreeSet::new();
    let del_mode = rng.below(6);
    if del_mode >= 2 {
        let frac = *rng.pick(&[1u64, 5, 20, 50, 90]);
        let mut start = 0usize;
        for (g, &sz) in groups.iter().enumerate() {
            // occasionally wipe a whole segment (it disappears at commit)
            let wipe = sz <= 5 && rng.chance(1, 6);
            for i in start..start + sz {
                if wipe || rng.below(100) < frac {
                    let when = rng.urange(g, groups.len());
                    deletes.push((when, i as u64));
                    deleted_ids.insert(i as u64);
                }
            }
            start += sz;
        }
        // never delete everything: keep at least one live document
        if deleted_ids.len() == total {
            let keep = rng.below(total as u64);
            deleted_ids.remove(&keep);
            deletes.retain(|d| d.1 != keep);
        }
    }
    Corpus { class, docs, groups, deletes, sorted, pools, card, deleted_ids }
}

impl Corpus {
    pub fn live(&self) -> impl Iterator<Item = &MDoc> {
        self.docs.iter().filter(|d| !self.deleted_ids.contains(&d.id))
    }
    pub fn describe(&self) -> Value {
        json!({"class": self.class, "groups": self.groups, "deleted": self.deleted_ids.len(),
               "sorted": self.sorted, "card": self.card})
    }
    pub fn class_key(&self) -> String {
        format!(
            "{}{}{}{}",
            self.class,
            if self.groups.len() > 1 { "+multi" } else { "" },
            if self.deleted_ids.is_empty() { "" } else { "+del" },
            if self.sorted.is_some() { "+sorted" } else { "" }
        )
    }
}

pub struct Built {
    pub fields: Fields,
    pub index: Index,
    pub writer: IndexWriter,
    pub reader: IndexReader,
}

pub fn build_index(c: &Corpus) -> Result<Built, String> {
    let fields = Fields::new();
    let mut ib = Index::builder().schema(fields.schema.clone());
    if let Some(desc) = c.sorted {
        ib = ib.settings(IndexSettings {
            sort_by_field: Some(IndexSortByField {
                field: "sortkey".to_string(),
                order: if desc { Order::Desc } else { Order::Asc },
            }),
            ..Default::default()
        });
    }
    let index = ib.create_in_ram().map_err(|e| format!("create: {e}"))?;
    let mut writer: IndexWriter =
        index.writer_with_num_threads(1, 40_000_000).map_err(|e| format!("writer: {e}"))?;
    writer.set_merge_policy(Box::new(NoMergePolicy));
    let mut start = 0usize;
    for (g, &sz) in c.groups.iter().enumerate() {
        for d in &c.docs[start..start + sz] {
            writer.add_document(d.to_doc(&fields)).map_err(|e| format!("add: {e}"))?;
        }
        for (when, id) in &c.deletes {
            if *when == g {
                writer.delete_term(Term::from_field_u64(fields.id, *id));
            }
        }
        writer.commit().map_err(|e| format!("commit: {e}"))?;
        start += sz;
    }
    if c.deletes.iter().any(|d| d.0 == c.groups.len()) {
        for (when, id) in &c.deletes {
            if *when == c.groups.len() {
                writer.delete_term(Term::from_field_u64(fields.id, *id));
            }
        }
        writer.commit().map_err(|e| format!("commit: {e}"))?;
    }
    let reader: IndexReader = index
        .reader_builder()
        .reload_policy(ReloadPolicy::Manual)
        .try_into()
        .map_err(|e| format!("reader: {e}"))?;
    reader.reload().map_err(|e| format!("reload: {e}"))?;
    Ok(Built { fields, index, writer, reader })
}

impl Built {
    /// merges all (or the first `n`) searchable segments and reloads
    pub fn merge(&mut self, n: Option<usize>) -> Result<usize, String> {
        let mut ids = self.index.searchable_segment_ids().map_err(|e| format!("segment ids: {e}"))?;
        if let Some(n) = n {
            ids.truncate(n);
        }
        if ids.len() < 2 {
            // a single segment with deletes can still be rewritten
            if ids.is_empty() {
                return Ok(0);
            }
        }
        self.writer.merge(&ids).wait().map_err(|e| format!("merge: {e}"))?;
        self.reader.reload().map_err(|e| format!("reload: {e}"))?;
        Ok(ids.len())
    }
    pub fn searcher(&self) -> Searcher {
        self.reader.searcher()
    }
}

/// id of every doc address of the searcher (including deleted documents), by segment
pub fn id_table(searcher: &Searcher) -> Result<Vec<Vec<u64>>, String> {
    let mut out = vec![];
    for sr in searcher.segment_readers() {
        let col = sr.fast_fields().u64("id").map_err(|e| format!("id column: {e}"))?;
        let mut ids = Vec::with_capacity(sr.max_doc() as usize);
        for d in 0..sr.max_doc() {
            ids.push(col.first(d).ok_or_else(|| format!("doc {d} without id"))?);
        }
        out.push(ids);
    }
    Ok(out)
}

pub fn addr_id(table: &[Vec<u64>], a: DocAddress) -> Option<u64> {
    table.get(a.segment_ord as usize)?.get(a.doc_id as usize).copied()
}

// ---------------------------------------------------------------------------------------------
// edit distances (textbook DP)

pub fn lev(a: &[u8], b: &[u8]) -> usize {
    let mut prev: Vec<usize> = (0..=b.len()).collect();
    for i in 1..=a.len() {
        let mut cur = vec![i; b.len() + 1];
        for j in 1..=b.len() {
            let sub = prev[j - 1] + (a[i - 1] != b[j - 1]) as usize;
            cur[j] = sub.min(prev[j] + 1).min(cur[j - 1] + 1);
        }
        prev = cur;
    }
    prev[b.len()]
}

/// optimal string alignment (restricted Damerau-Levenshtein)
pub fn osa(a: &[u8], b: &[u8]) -> usize {
    let (n, m) = (a.len(), b.len());
    let mut d = vec![vec![0usize; m + 1]; n + 1];
    for i in 0..=n {
        d[i][0] = i;
    }
    for j in 0..=m {
        d[0][j] = j;
    }
    for i in 1..=n {
        for j in 1..=m {
            let cost = (a[i - 1] != b[j - 1]) as usize;
            let mut v = (d[i - 1][j] + 1).min(d[i][j - 1] + 1).min(d[i - 1][j - 1] + cost);
            if i > 1 && j > 1 && a[i - 1] == b[j - 2] && a[i - 2] == b[j - 1] {
                v = v.min(d[i - 2][j - 2] + 1);
            }
            d[i][j] = v;
        }
    }
    d[n][m]
}

/// unrestricted Damerau-Levenshtein (Lowrance-Wagner)
pub fn damerau(a: &[u8], b: &[u8]) -> usize {
    let (n, m) = (a.len(), b.len());
    let inf = n + m;
    let mut da = [0usize; 256];
    let mut d = vec![vec![0usize; m + 2]; n + 2];
    d[0][0] = inf;
    for i in 0..=n {
        d[i + 1][0] = inf;
        d[i + 1][1] = i;
    }
    for j in 0..=m {
        d[0][j + 1] = inf;
        d[1][j + 1] = j;
    }
    for i in 1..=n {
        let mut db = 0usize;
        for j in 1..=m {
            let i1 = da[b[j - 1] as usize];
            let j1 = db;
            let cost = if a[i - 1] == b[j - 1] {
                db = j;
                0
            } else {
                1
            };
            d[i + 1][j + 1] = (d[i][j] + cost)
                .min(d[i + 1][j] + 1)
                .min(d[i][j + 1] + 1)
                .min(d[i1][j1] + (i - i1 - 1) + 1 + (j - j1 - 1));
        }
        da[a[i - 1] as usize] = i;
    }
    d[n + 1][m + 1]
}

/// Decision of the fuzzy query for one vocabulary word: Some((must, may)) or None when OSA and
/// unrestricted Damerau disagree (such queries are not generated with transpositions).
///
/// Prefix mode: FuzzyTermQuery::new_prefix is only documented as "a Fuzzy Query of the Term
/// prefix" and delegates to levenshtein_automata's prefix DFA, which accepts a word when the
/// *whole* word is within the distance or when the automaton went through a state from which no
/// shorter distance is reachable; a prefix within the distance whose state could still improve
/// loses its acceptance on the following characters (e.g. query "abd"~2: "d" is accepted, "dzz"
/// is not). What can be demanded without reading that crate: whole word within the distance =>
/// match; no prefix within the distance => no match; otherwise open.
fn fuzzy_decide(q: &str, w: &str, dist: u8, transp: bool, prefix: bool) -> Option<(bool, bool)> {
    let (q, w) = (q.as_bytes(), w.as_bytes());
    let d = dist as usize;
    let within = |c: &[u8]| -> Option<bool> {
        if !transp {
            return Some(lev(q, c) <= d);
        }
        let a = osa(q, c) <= d;
        let b = damerau(q, c) <= d;
        if a == b {
            Some(a)
        } else {
            None
        }
    };
    let full = within(w)?;
    if !prefix {
        return Some((full, full));
    }
    let mut any = false;
    for k in 0..=w.len() {
        any |= within(&w[..k])?;
    }
    Some((full, any))
}

// ---------------------------------------------------------------------------------------------
// query model

#[derive(Clone, Copy, Debug, PartialEq, Eq)]
pub enum Oc {
    Must,
    Should,
    MustNot,
}

#[derive(Clone, Debug)]
pub enum ExTarget {
    Tag,
    Id,
    Typed(usize, usize),
}

#[derive(Clone, Debug)]
pub enum Q {
    All,
    Empty,
    Term { f: TF, w: u8, opt: u8 },
    TypedTerm { ty: usize, var: usize, v: Val },
    Phrase { terms: Vec<(usize, u8)>, slop: u32 },
    /// `terms`: (offset, word) of the complete terms, `poff`: offset of the prefix (larger than
    /// every term offset); offsets need neither start at 0 nor be contiguous
    PhrasePrefix { terms: Vec<(usize, u8)>, poff: usize, prefix: String, mask: u64 },
    RangeText { f: TF, lo: Bound<String>, hi: Bound<String>, api: u8, mask: u64 },
    RangeTyped { ty: usize, var: usize, lo: Bound<Val>, hi: Bound<Val>, api: u8 },
    TermSet { text: Vec<(TF, u8)>, typed: Vec<(usize, usize, Val)> },
    Exists(ExTarget),
    /// `mask`: vocabulary words that must match; `may`: words for which the prefix automaton of
    /// the levenshtein_automata crate may or may not keep its acceptance (see `fuzzy_decide`)
    Fuzzy { f: TF, word: String, dist: u8, transp: bool, prefix: bool, mask: u64, may: u64 },
    Regex { f: TF, pat: String, mask: u64 },
    /// C13 only (no oracle): exercises SimpleUnion / BitSetPostingUnion inside a phrase scorer
    RegexPhrase { pats: Vec<String>, slop: u32 },
    Boost(Box<Q>, f32),
    Const(Box<Q>, f32),
    DisMax(Vec<Q>, f32),
    Bool { clauses: Vec<(Oc, Q)>, msm: Option<usize> },
}

/// the offsets of a phrase-prefix query are not simply 0, 1, 2, ...
fn pp_gap(terms: &[(usize, u8)], poff: usize) -> bool {
    terms.iter().enumerate().any(|(i, t)| t.0 != i) || poff != terms.len()
}

fn opt_of(o: u8) -> IndexRecordOption {
    match o {
        0 => IndexRecordOption::Basic,
        1 => IndexRecordOption::WithFreqs,
        _ => IndexRecordOption::WithFreqsAndPositions,
    }
}

impl Q {
    pub fn build(&self, fs: &Fields) -> Result<Box<dyn Query>, String> {
        Ok(match self {
            Q::All => Box::new(AllQuery),
            Q::Empty => Box::new(EmptyQuery),
            Q::Term { f, w, opt } => Box::new(TermQuery::new(
                Term::from_field_text(fs.text(*f), f.vocab()[*w as usize]),
                opt_of(*opt),
            )),
            Q::TypedTerm { ty, var, v } => {
                Box::new(TermQuery::new(v.term(fs.typed[*ty][*var]), IndexRecordOption::Basic))
            }
            Q::Phrase { terms, slop } => {
                let ts: Vec<(usize, Term)> = terms
                    .iter()
                    .map(|(o, w)| (*o, Term::from_field_text(fs.body, BODY[*w as usize])))
                    .collect();
                Box::new(PhraseQuery::new_with_offset_and_slop(ts, *slop))
            }
            Q::PhrasePrefix { terms, poff, prefix, .. } => {
                let mut ts: Vec<(usize, Term)> = terms
                    .iter()
                    .map(|(o, w)| (*o, Term::from_field_text(fs.body, BODY[*w as usize])))
                    .collect();
                ts.push((*poff, Term::from_field_text(fs.body, prefix)));
                if ts.iter().enumerate().all(|(i, t)| t.0 == i) {
                    // the plain constructor where it says the same
                    Box::new(PhrasePrefixQuery::new(ts.into_iter().map(|t| t.1).collect()))
                } else {
                    Box::new(PhrasePrefixQuery::new_with_offset(ts))
                }
            }
            Q::RangeText { f, lo, hi, api, .. } => {
                let field = fs.text(*f);
                let lo = map_bound(lo, |s| Term::from_field_text(field, s));
                let hi = map_bound(hi, |s| Term::from_field_text(field, s));
                match api {
                    0 => Box::new(RangeQuery::new(lo, hi)),
                    1 => Box::new(InvertedIndexRangeQuery::new(lo, hi)),
                    _ => Box::new(FastFieldRangeQuery::new(lo, hi)),
                }
            }
            Q::RangeTyped { ty, var, lo, hi, api } => {
                let field = fs.typed[*ty][*var];
                let lo = map_bound(lo, |v| v.term(field));
                let hi = map_bound(hi, |v| v.term(field));
                match api {
                    0 => Box::new(RangeQuery::new(lo, hi)),
                    1 => Box::new(InvertedIndexRangeQuery::new(lo, hi)),
                    _ => Box::new(FastFieldRangeQuery::new(lo, hi)),
                }
            }
            Q::TermSet { text, typed } => {
                let mut ts: Vec<Term> = text
                    .iter()
                    .map(|(f, w)| Term::from_field_text(fs.text(*f), f.vocab()[*w as usize]))
                    .collect();
                for (ty, var, v) in typed {
                    ts.push(v.term(fs.typed[*ty][*var]));
                }
                Box::new(TermSetQuery::new(ts))
            }
            Q::Exists(t) => {
                let name = match t {
                    ExTarget::Tag => "tag".to_string(),
                    ExTarget::Id => "id".to_string(),
                    ExTarget::Typed(ty, var) => typed_name(*ty, *var),
                };
                Box::new(ExistsQuery::new(name, false))
            }
            Q::Fuzzy { f, word, dist, transp, prefix, .. } => {
                let t = Term::from_field_text(fs.text(*f), word);
                if *prefix {
                    Box::new(FuzzyTermQuery::new_prefix(t, *dist, *transp))
                } else {
                    Box::new(FuzzyTermQuery::new(t, *dist, *transp))
                }
            }
            Q::Regex { f, pat, .. } => Box::new(
                RegexQuery::from_pattern(pat, fs.text(*f)).map_err(|e| format!("regex {pat}: {e}"))?,
            ),
            Q::RegexPhrase { pats, slop } => {
                let mut q = RegexPhraseQuery::new(fs.body, pats.clone());
                q.set_slop(*slop);
                Box::new(q)
            }
            Q::Boost(q, b) => Box::new(BoostQuery::new(q.build(fs)?, *b)),
            Q::Const(q, s) => Box::new(ConstScoreQuery::new(q.build(fs)?, *s)),
            Q::DisMax(qs, tie) => {
                let mut v = vec![];
                for q in qs {
                    v.push(q.build(fs)?);
                }
                Box::new(DisjunctionMaxQuery::with_tie_breaker(v, *tie))
            }
            Q::Bool { clauses, msm } => {
                let mut v: Vec<(Occur, Box<dyn Query>)> = vec![];
                for (o, q) in clauses {
                    let o = match o {
                        Oc::Must => Occur::Must,
                        Oc::Should => Occur::Should,
                        Oc::MustNot => Occur::MustNot,
                    };
                    v.push((o, q.build(fs)?));
                }
                match msm {
                    None => Box::new(BooleanQuery::new(v)),
                    Some(m) => Box::new(BooleanQuery::with_minimum_required_clauses(v, *m)),
                }
            }
        })
    }

    /// query-kind tree shape (no values): the distinctness key
    pub fn shape(&self) -> String {
        match self {
            Q::All => "all".into(),
            Q::Empty => "empty".into(),
            Q::Term { f, .. } => format!("term:{}", f.name()),
            Q::TypedTerm { ty, var, .. } => format!("term:{}", typed_name(*ty, *var)),
            Q::Phrase { terms, slop } => {
                let gap = terms.iter().enumerate().any(|(i, t)| t.0 != i);
                format!("phrase{}{}{}", terms.len(), if *slop > 0 { "~" } else { "" }, if gap { "g" } else { "" })
            }
            Q::PhrasePrefix { terms, poff, .. } => format!(
                "pprefix{}{}",
                terms.len() + 1,
                if pp_gap(terms, *poff) { "g" } else { "" }
            ),
            Q::RangeText { f, lo, hi, api, .. } => {
                format!("range:{}:{}{}:{}", f.name(), bound_kind(lo), bound_kind(hi), api)
            }
            Q::RangeTyped { ty, var, lo, hi, api } => {
                format!("range:{}:{}{}:{}", typed_name(*ty, *var), bound_kind(lo), bound_kind(hi), api)
            }
            Q::TermSet { text, typed } => {
                format!("termset{}", if !text.is_empty() && !typed.is_empty() { "-mixed" } else if typed.is_empty() { "-text" } else { "-typed" })
            }
            Q::Exists(t) => match t {
                ExTarget::Tag => "exists:tag".into(),
                ExTarget::Id => "exists:id".into(),
                ExTarget::Typed(ty, var) => format!("exists:{}", typed_name(*ty, *var)),
            },
            Q::Fuzzy { f, dist, transp, prefix, .. } => format!(
                "fuzzy:{}:{}{}{}",
                f.name(),
                dist,
                if *transp { "t" } else { "" },
                if *prefix { "p" } else { "" }
            ),
            Q::Regex { f, .. } => format!("regex:{}", f.name()),
            Q::RegexPhrase { pats, slop } => format!("rxphrase{}{}", pats.len(), if *slop > 0 { "~" } else { "" }),
            Q::Boost(q, _) => format!("boost({})", q.shape()),
            Q::Const(q, _) => format!("const({})", q.shape()),
            Q::DisMax(qs, _) => {
                format!("dismax({})", qs.iter().map(|q| q.shape()).collect::<Vec<_>>().join(","))
            }
            Q::Bool { clauses, msm } => {
                let cs: Vec<String> = clauses
                    .iter()
                    .map(|(o, q)| {
                        format!(
                            "{}{}",
                            match o {
                                Oc::Must => "+",
                                Oc::Should => "",
                                Oc::MustNot => "-",
                            },
                            q.shape()
                        )
                    })
                    .collect();
                format!(
                    "bool[{}]{}",
                    cs.join(" "),
                    match msm {
                        None => "".to_string(),
                        Some(m) => format!("m{m}"),
                    }
                )
            }
        }
    }

    /// coarse kind names contained in the tree (for reach evidence)
    pub fn kinds(&self, out: &mut BTreeSet<String>) {
        let k: String = match self {
            Q::All => "all".into(),
            Q::Empty => "empty".into(),
            Q::Term { f, .. } => format!("term:{}", f.name()),
            Q::TypedTerm { ty, var, .. } => format!("term:{}", typed_name(*ty, *var)),
            Q::Phrase { terms, slop } => {
                if *slop > 0 {
                    "phrase-slop".into()
                } else if terms.windows(2).any(|w| w[1].0 != w[0].0 + 1) {
                    "phrase-gap".into()
                } else {
                    "phrase".into()
                }
            }
            Q::PhrasePrefix { terms, poff, .. } => format!(
                "phrase-prefix{}{}",
                if terms.is_empty() { "-single" } else { "" },
                if pp_gap(terms, *poff) { "-gap" } else { "" }
            ),
            Q::RangeText { f, api, .. } => format!("range:{}:api{}", f.name(), api),
            Q::RangeTyped { ty, var, api, .. } => format!("range:{}:api{}", typed_name(*ty, *var), api),
            Q::TermSet { .. } => "termset".into(),
            Q::Exists(_) => "exists".into(),
            Q::Fuzzy { prefix, transp, .. } => format!("fuzzy{}{}", if *prefix { "-prefix" } else { "" }, if *transp { "-transp" } else { "" }),
            Q::Regex { .. } => "regex".into(),
            Q::RegexPhrase { .. } => "regex-phrase".into(),
            Q::Boost(q, _) => {
                q.kinds(out);
                "boost".into()
            }
            Q::Const(q, _) => {
                q.kinds(out);
                "const".into()
            }
            Q::DisMax(qs, _) => {
                for q in qs {
                    q.kinds(out);
                }
                "dismax".into()
            }
            Q::Bool { clauses, msm } => {
                for (_, q) in clauses {
                    q.kinds(out);
                }
                let nm = clauses.iter().filter(|c| c.0 == Oc::Must).count();
                let ns = clauses.iter().filter(|c| c.0 == Oc::Should).count();
                let nn = clauses.iter().filter(|c| c.0 == Oc::MustNot).count();
                let c = |n: usize| match n {
                    0 => "0",
                    1 => "1",
                    2 => "2",
                    _ => "3+",
                };
                let m = match msm {
                    None => "default".to_string(),
                    Some(m) if *m == 0 => "0".into(),
                    Some(m) if *m == 1 => "1".into(),
                    Some(m) if *m < ns => "mid".into(),
                    Some(m) if *m == ns => "n".into(),
                    Some(_) => "n+".into(),
                };
                format!("bool:must{}:should{}:not{}:msm-{}", c(nm), c(ns), c(nn), m)
            }
        };
        out.insert(k);
    }

    pub fn json(&self) -> Value {
        match self {
            Q::All => json!("All"),
            Q::Empty => json!("Empty"),
            Q::Term { f, w, opt } => json!({"Term": {"field": f.name(), "text": f.vocab()[*w as usize], "record_option": opt}}),
            Q::TypedTerm { ty, var, v } => json!({"Term": {"field": typed_name(*ty, *var), "value": v.json()}}),
            Q::Phrase { terms, slop } => json!({"Phrase": {"field": "body", "slop": slop,
                "terms": terms.iter().map(|(o, w)| json!([o, BODY[*w as usize]])).collect::<Vec<_>>()}}),
            Q::PhrasePrefix { terms, poff, prefix, .. } => json!({"PhrasePrefix": {"field": "body",
                "terms": terms.iter().map(|(o, w)| json!([o, BODY[*w as usize]])).collect::<Vec<_>>(), "prefix": [poff, prefix]}}),
            Q::RangeText { f, lo, hi, api, .. } => json!({"Range": {"field": f.name(), "api": api,
                "lower": bound_json(lo, |s| json!(s)), "upper": bound_json(hi, |s| json!(s))}}),
            Q::RangeTyped { ty, var, lo, hi, api } => json!({"Range": {"field": typed_name(*ty, *var), "api": api,
                "lower": bound_json(lo, |v| v.json()), "upper": bound_json(hi, |v| v.json())}}),
            Q::TermSet { text, typed } => json!({"TermSet": {
                "text": text.iter().map(|(f, w)| json!([f.name(), f.vocab()[*w as usize]])).collect::<Vec<_>>(),
                "typed": typed.iter().map(|(ty, var, v)| json!([typed_name(*ty, *var), v.json()])).collect::<Vec<_>>()}}),
            Q::Exists(_) => json!({"Exists": self.shape()}),
            Q::Fuzzy { f, word, dist, transp, prefix, .. } => json!({"Fuzzy": {"field": f.name(), "term": word,
                "distance": dist, "transposition_cost_one": transp, "prefix": prefix}}),
            Q::Regex { f, pat, .. } => json!({"Regex": {"field": f.name(), "pattern": pat}}),
            Q::RegexPhrase { pats, slop } => json!({"RegexPhrase": {"patterns": pats, "slop": slop}}),
            Q::Boost(q, b) => json!({"Boost": [q.json(), b]}),
            Q::Const(q, s) => json!({"ConstScore": [q.json(), s]}),
            Q::DisMax(qs, tie) => json!({"DisMax": {"tie": tie, "disjuncts": qs.iter().map(|q| q.json()).collect::<Vec<_>>()}}),
            Q::Bool { clauses, msm } => json!({"Bool": {"minimum_should_match": msm,
                "clauses": clauses.iter().map(|(o, q)| json!([format!("{o:?}"), q.json()])).collect::<Vec<_>>()}}),
        }
    }

    /// which implementation a range query is routed to
    pub fn range_path(&self) -> Option<&'static str> {
        match self {
            Q::RangeText { f, api, .. } => Some(match api {
                1 => "inverted",
                2 => "fastfield",
                _ => {
                    if *f == TF::Tag {
                        "fastfield"
                    } else {
                        "inverted"
                    }
                }
            }),
            Q::RangeTyped { var, api, .. } => Some(match api {
                1 => "inverted",
                2 => "fastfield",
                _ => {
                    if *var == V_IDX {
                        "inverted"
                    } else {
                        "fastfield"
                    }
                }
            }),
            _ => None,
        }
    }

    /// stable, value-free name of a node for violation signatures
    pub fn sig_kind(&self) -> String {
        match self {
            Q::RangeText { f, .. } => format!("range:{}:{}", f.name(), self.range_path().unwrap()),
            Q::RangeTyped { ty, var, .. } => format!("range:{}:{}", typed_name(*ty, *var), self.range_path().unwrap()),
            Q::Phrase { terms, slop } => format!(
                "phrase{}{}{}",
                if terms.len() >= 3 { "-3+terms" } else { "-2terms" },
                if *slop > 0 { "-slop" } else { "" },
                if terms.windows(2).any(|w| w[1].0 != w[0].0 + 1) { "-gap" } else { "" }
            ),
            Q::PhrasePrefix { terms, poff, .. } => format!(
                "phrase-prefix{}{}",
                if terms.is_empty() { "-single" } else if terms.len() >= 2 { "-3+terms" } else { "" },
                if pp_gap(terms, *poff) { "-gap" } else { "" }
            ),
            Q::TermSet { .. } => "termset".into(),
            Q::Boost(..) => "boost".into(),
            Q::Const(..) => "const".into(),
            Q::DisMax(..) => "dismax".into(),
            Q::Bool { .. } => {
                let mut ks = BTreeSet::new();
                self.kinds(&mut ks);
                ks.into_iter().filter(|k| k.starts_with("bool:")).last().unwrap_or_else(|| "bool".into())
            }
            _ => self.shape(),
        }
    }

    pub fn depth(&self) -> usize {
        match self {
            Q::Boost(q, _) | Q::Const(q, _) => 1 + q.depth(),
            Q::DisMax(qs, _) => 1 + qs.iter().map(|q| q.depth()).max().unwrap_or(0),
            Q::Bool { clauses, .. } => 1 + clauses.iter().map(|c| c.1.depth()).max().unwrap_or(0),
            _ => 0,
        }
    }

    /// Bool nodes with a single clause whose minimum_should_match exceeds the number of should
    /// clauses (the class of the single-clause shortcut finding). Returns (occur kinds, any at
    /// effective top, any nested).
    pub fn shortcut_sensitive(&self, effective_top: bool, acc: &mut (BTreeSet<&'static str>, bool, bool)) {
        match self {
            Q::Boost(q, _) | Q::Const(q, _) => q.shortcut_sensitive(effective_top, acc),
            Q::DisMax(qs, _) => {
                for q in qs {
                    q.shortcut_sensitive(false, acc);
                }
            }
            Q::Bool { clauses, msm } => {
                if clauses.len() == 1 {
                    let m = msm.unwrap_or(match clauses[0].0 {
                        Oc::Should => 1,
                        _ => 0,
                    });
                    let sens = match clauses[0].0 {
                        Oc::Should => m >= 2,
                        Oc::Must => m >= 1,
                        Oc::MustNot => false,
                    };
                    if sens {
                        acc.0.insert(if clauses[0].0 == Oc::Should { "should" } else { "must" });
                        if effective_top {
                            acc.1 = true;
                        } else {
                            acc.2 = true;
                        }
                    }
                }
                for (_, q) in clauses {
                    q.shortcut_sensitive(false, acc);
                }
            }
            _ => {}
        }
    }
}

// ---------------------------------------------------------------------------------------------
// naive evaluator

/// how single-clause boolean nodes are evaluated: `Proper` is the documented meaning; the two
/// others emulate the single-clause shortcut of BooleanWeight::scorer (used only to *classify* a
/// mismatch, never to accept one)
#[derive(Clone, Copy, PartialEq, Eq, Debug)]
pub enum Mode {
    Proper,
    ShortcutAll,
    ShortcutNested,
}

/// (can be true, can be false); both set = the documentation leaves the case open
pub type Tri = (bool, bool);
const T: Tri = (true, false);
const F: Tri = (false, true);
fn tri(b: bool) -> Tri {
    if b {
        T
    } else {
        F
    }
}

pub fn eval(q: &Q, d: &MDoc, mode: Mode) -> Tri {
    eval_at(q, d, mode, true)
}

fn eval_at(q: &Q, d: &MDoc, mode: Mode, top: bool) -> Tri {
    match q {
        Q::All => T,
        Q::Empty => F,
        Q::Term { f, w, .. } => tri(d.mask(*f) & (1u64 << w) != 0),
        Q::TypedTerm { ty, v, .. } => tri(d.vals[*ty].iter().any(|x| x == v)),
        Q::Phrase { terms, slop } => eval_phrase(terms, *slop, d),
        Q::PhrasePrefix { terms, poff, mask, .. } => {
            if terms.is_empty() {
                return tri(d.body_mask & mask != 0);
            }
            // a token sequence start s such that every term sits at s + its offset and a word
            // with the prefix sits at s + the prefix offset (offsets relative to the first term)
            let o0 = terms[0].0 as i64;
            let has = |w: u8, p: i64| d.body_pos.iter().any(|&(w2, p2)| w2 == w && p2 as i64 == p);
            let ok = d.body_pos.iter().any(|&(w0, p0)| {
                let base = p0 as i64 - o0;
                w0 == terms[0].1
                    && terms.iter().all(|&(o, w)| has(w, base + o as i64))
                    && d.body_pos.iter().any(|&(w2, p2)| p2 as i64 == base + *poff as i64 && mask & (1u64 << w2) != 0)
            });
            tri(ok)
        }
        Q::RangeText { f, mask, .. } => tri(d.mask(*f) & mask != 0),
        Q::RangeTyped { ty, lo, hi, .. } => tri(d.vals[*ty].iter().any(|v| in_bounds(v, lo, hi))),
        Q::TermSet { text, typed } => tri(
            text.iter().any(|(f, w)| d.mask(*f) & (1u64 << w) != 0)
                || typed.iter().any(|(ty, _, v)| d.vals[*ty].iter().any(|x| x == v)),
        ),
        Q::Exists(t) => tri(match t {
            ExTarget::Tag => d.tag.is_some(),
            ExTarget::Id => true,
            ExTarget::Typed(ty, _) => !d.vals[*ty].is_empty(),
        }),
        Q::Fuzzy { f, mask, may, .. } => {
            if d.mask(*f) & mask != 0 {
                T
            } else if d.mask(*f) & may != 0 {
                (true, true)
            } else {
                F
            }
        }
        Q::Regex { f, mask, .. } => tri(d.mask(*f) & mask != 0),
        Q::RegexPhrase { .. } => (true, true),
        Q::Boost(q, _) | Q::Const(q, _) => eval_at(q, d, mode, top),
        Q::DisMax(qs, _) => {
            let rs: Vec<Tri> = qs.iter().map(|q| eval_at(q, d, mode, false)).collect();
            (rs.iter().any(|r| r.0), rs.iter().all(|r| r.1))
        }
        Q::Bool { clauses, msm } => {
            if clauses.len() == 1 && (mode == Mode::ShortcutAll || (mode == Mode::ShortcutNested && !top)) {
                return if clauses[0].0 == Oc::MustNot { F } else { eval_at(&clauses[0].1, d, mode, false) };
            }
            let has_must_or_not = clauses.iter().any(|c| c.0 != Oc::Should);
            let n_should = clauses.iter().filter(|c| c.0 == Oc::Should).count();
            let n_must = clauses.iter().filter(|c| c.0 == Oc::Must).count();
            // documented default: 1 iff there is a should clause and no must / must-not clause
            let m = msm.unwrap_or(if n_should > 0 && !has_must_or_not { 1 } else { 0 });
            let need = if n_must == 0 { m.max(1) } else { m };
            let (mut can_t, mut can_f) = (true, false);
            let (mut min_cnt, mut max_cnt) = (0usize, 0usize);
            for (o, q) in clauses {
                let r = eval_at(q, d, mode, false);
                match o {
                    Oc::Must => {
                        can_t &= r.0;
                        can_f |= r.1;
                    }
                    Oc::MustNot => {
                        can_t &= r.1;
                        can_f |= r.0;
                    }
                    Oc::Should => {
                        if !r.1 {
                            min_cnt += 1;
                        }
                        if r.0 {
                            max_cnt += 1;
                        }
                    }
                }
            }
            can_t &= max_cnt >= need;
            can_f |= min_cnt < need;
            (can_t, can_f)
        }
    }
}

fn eval_phrase(terms: &[(usize, u8)], slop: u32, d: &MDoc) -> Tri {
    // every term must occur
    let lists: Vec<Vec<i64>> = terms
        .iter()
        .map(|&(_, w)| d.body_pos.iter().filter(|p| p.0 == w).map(|p| p.1 as i64).collect())
        .collect();
    if lists.iter().any(|l| l.is_empty()) {
        return F;
    }
    if slop == 0 {
        let o0 = terms[0].0 as i64;
        let ok = lists[0].iter().any(|&p0| {
            terms.iter().enumerate().all(|(i, &(o, _))| lists[i].contains(&(p0 - o0 + o as i64)))
        });
        return tri(ok);
    }
    // slop > 0 (distinct terms by construction): enumerate the position choices
    let combos: usize = lists.iter().map(|l| l.len()).product();
    if combos > 50_000 {
        return (true, true);
    }
    let n = terms.len();
    let mut idx = vec![0usize; n];
    let mut possible = false;
    loop {
        let deltas: Vec<i64> = (0..n).map(|i| lists[i][idx[i]] - terms[i].0 as i64).collect();
        let spread = deltas.iter().max().unwrap() - deltas.iter().min().unwrap();
        if spread <= slop as i64 {
            possible = true;
            let adj: i64 = deltas.windows(2).map(|w| (w[1] - w[0]).abs()).sum();
            let mut s = deltas.clone();
            s.sort();
            let med = s[n / 2];
            let mv: i64 = deltas.iter().map(|x| (x - med).abs()).sum();
            if adj <= slop as i64 && mv <= slop as i64 {
                return T;
            }
        }
        // next combination
        let mut k = 0;
        loop {
            if k == n {
                return if possible { (true, true) } else { F };
            }
            idx[k] += 1;
            if idx[k] < lists[k].len() {
                break;
            }
            idx[k] = 0;
            k += 1;
        }
    }
}

// ---------------------------------------------------------------------------------------------
// query generator

pub struct QGen<'a> {
    pub corpus: &'a Corpus,
    /// include the oracle-less kinds (C13)
    pub extra_kinds: bool,
    pub max_depth: usize,
}

fn vocab_mask(vocab: &[&str], pred: impl Fn(&str) -> bool) -> u64 {
    let mut m = 0u64;
    for (i, w) in vocab.iter().enumerate() {
        if pred(w) {
            m |= 1u64 << i;
        }
    }
    m
}

impl<'a> QGen<'a> {
    fn body_word(&self, rng: &mut Rng) -> u8 {
        match rng.below(10) {
            0..=3 => rng.usize_below(N_MARK) as u8,
            _ => rng.urange(N_MARK, BODY.len() - 1) as u8,
        }
    }

    /// `n` (offset, word) pairs with strictly increasing offsets that are not all contiguous:
    /// mostly the words found at increasing positions of one document (skipping up to two tokens,
    /// or stepping over the position gap between two values), so that the sequence occurs;
    /// otherwise `fallback` words at random offsets. Offsets start at 0 or, sometimes, later.
    fn gapped_sequence(&self, rng: &mut Rng, n: usize, fallback: &[u8]) -> (Vec<(usize, u8)>, bool) {
        let base = if rng.chance(1, 4) { rng.urange(1, 3) } else { 0 };
        if rng.chance(3, 4) {
            for _ in 0..20 {
                let d = rng.pick(&self.corpus.docs);
                if d.body_pos.len() < n || n == 0 {
                    continue;
                }
                let mut idx = rng.usize_below(d.body_pos.len());
                let mut picked = vec![d.body_pos[idx]];
                while picked.len() < n {
                    idx += 1 + *rng.pick(&[0usize, 0, 1, 1, 2]);
                    if idx >= d.body_pos.len() {
                        break;
                    }
                    picked.push(d.body_pos[idx]);
                }
                if picked.len() < n {
                    continue;
                }
                let p0 = picked[0].1;
                let seq: Vec<(usize, u8)> = picked.iter().map(|&(w, p)| (base + (p - p0) as usize, w)).collect();
                if n >= 2 && seq.windows(2).all(|w| w[1].0 == w[0].0 + 1) {
                    continue;
                }
                return (seq, true);
            }
        }
        let mut off = base;
        let mut seq = vec![];
        for i in 0..n {
            let w = fallback.get(i).copied().unwrap_or_else(|| self.body_word(rng));
            seq.push((off, w));
            off += 1 + *rng.pick(&[0usize, 1, 1, 2]);
        }
        (seq, false)
    }

    fn word_of(&self, f: TF, rng: &mut Rng) -> u8 {
        match f {
            TF::Body => self.body_word(rng),
            _ => rng.usize_below(f.vocab().len()) as u8,
        }
    }

    fn pool_val(&self, ty: usize, rng: &mut Rng) -> Val {
        let pool = &self.corpus.pools[ty];
        let base = rng.pick(pool).clone();
        if rng.chance(3, 4) {
            return base;
        }
        // a neighbour / an absent value
        match base {
            Val::U(v) => Val::U(if rng.bool() { v.wrapping_add(1) } else { v.wrapping_sub(1) }),
            Val::I(v) => Val::I(if rng.bool() { v.wrapping_add(1) } else { v.wrapping_sub(1) }),
            Val::F(v) => {
                let w = if rng.bool() { v + 0.25 } else { v - 0.25 };
                if w.is_nan() || w == 0.0 {
                    Val::F(0.0)
                } else {
                    Val::F(w)
                }
            }
            Val::B(v) => Val::B(!v),
            Val::D(v) => Val::D(if rng.bool() { v + 1 } else { v - 1 }),
            Val::Ip(v) => Val::Ip(if rng.bool() { v.wrapping_add(1) } else { v.wrapping_sub(1) }),
            Val::By(mut v) => {
                if rng.bool() || v.is_empty() {
                    v.push(*rng.pick(&[0u8, 1, 255]));
                } else {
                    v.pop();
                }
                Val::By(v)
            }
        }
    }

    fn bounds<TV: Clone>(&self, rng: &mut Rng, mut gen: impl FnMut(&mut Rng) -> TV) -> (Bound<TV>, Bound<TV>) {
        let mk = |rng: &mut Rng, v: TV| match rng.below(5) {
            0 | 1 => Bound::Included(v),
            2 | 3 => Bound::Excluded(v),
            _ => Bound::Unbounded,
        };
        loop {
            let a = gen(rng);
            let b = gen(rng);
            let lo = mk(rng, a);
            let hi = mk(rng, b);
            if matches!(lo, Bound::Unbounded) && matches!(hi, Bound::Unbounded) {
                continue;
            }
            return (lo, hi);
        }
    }

    fn typed_bounds(&self, ty: usize, rng: &mut Rng) -> (Bound<Val>, Bound<Val>) {
        let (lo, hi) = self.bounds(rng, |r| self.pool_val(ty, r));
        // mostly ordered bounds; sometimes inverted (must match nothing)
        if let (Some(a), Some(b)) = (bound_val(&lo), bound_val(&hi)) {
            if a.cmp_val(b) == Ordering::Greater && rng.chance(4, 5) {
                let swap = |b: &Bound<Val>, v: &Val| match b {
                    Bound::Included(_) => Bound::Included(v.clone()),
                    Bound::Excluded(_) => Bound::Excluded(v.clone()),
                    Bound::Unbounded => Bound::Unbounded,
                };
                return (swap(&lo, b), swap(&hi, a));
            }
        }
        (lo, hi)
    }

    pub fn leaf(&self, rng: &mut Rng) -> Q {
        let w = [30u32, 6, 10, 6, 4, 10, 5, 4, 3, 2, 5, 5, if self.extra_kinds { 3 } else { 0 }];
        match rng.weighted(&w) {
            0 => {
                let f = *rng.pick(&[TF::Body, TF::Body, TF::Body, TF::Body, TF::Basic, TF::Basic, TF::Freq, TF::Freq, TF::Tag]);
                Q::Term { f, w: self.word_of(f, rng), opt: rng.below(3) as u8 }
            }
            1 => {
                let ty = rng.usize_below(NTY);
                let var = *rng.pick(&[V_IDX, V_BOTH]);
                Q::TypedTerm { ty, var, v: self.pool_val(ty, rng) }
            }
            2 => {
                // phrase
                let slop = if rng.chance(2, 5) { rng.range(1, 3) as u32 } else { 0 };
                // sloppy phrases with >= 3 terms are kept rare: they hit a recorded finding
                let n = if slop > 0 && !rng.chance(1, 6) { 2 } else { *rng.pick(&[2usize, 2, 2, 3, 3, 4]) };
                let mut ws: Vec<u8> = vec![];
                // half of the time take the words from an existing document so that it can match
                let from_doc = rng.chance(2, 3) && !self.corpus.docs.is_empty();
                if from_doc {
                    for _ in 0..20 {
                        let d = rng.pick(&self.corpus.docs);
                        let flat: Vec<u8> = d.body_pos.iter().map(|p| p.0).collect();
                        if flat.len() >= n {
                            let s = rng.urange(0, flat.len() - n);
                            ws = flat[s..s + n].to_vec();
                            if slop > 0 && rng.bool() {
                                rng.shuffle(&mut ws);
                            }
                            break;
                        }
                    }
                }
                while ws.len() < n {
                    ws.push(self.body_word(rng));
                }
                if slop > 0 {
                    // distinct terms only: the meaning of repeated terms under slop is not documented
                    let mut seen = BTreeSet::new();
                    ws.retain(|w| seen.insert(*w));
                    while ws.len() < 2 {
                        let w = self.body_word(rng);
                        if seen.insert(w) {
                            ws.push(w);
                        }
                    }
                }
                if slop == 0 && rng.chance(1, 4) {
                    // position gaps (the analyzer removed a token): offsets through the offset
                    // constructor, taken from a document so that the phrase can match
                    let (seq, _) = self.gapped_sequence(rng, ws.len(), &ws);
                    return Q::Phrase { terms: seq, slop };
                }
                let terms: Vec<(usize, u8)> = ws.iter().enumerate().map(|(i, &w)| (i, w)).collect();
                Q::Phrase { terms, slop }
            }
            3 => {
                let n = *rng.pick(&[0usize, 1, 1, 2]);
                let mut ws: Vec<u8> = vec![];
                let mut prefix: String = String::new();
                if rng.chance(2, 3) && !self.corpus.docs.is_empty() {
                    for _ in 0..20 {
                        let d = rng.pick(&self.corpus.docs);
                        let flat: Vec<u8> = d.body_pos.iter().map(|p| p.0).collect();
                        if flat.len() > n {
                            let s = rng.urange(0, flat.len() - n - 1);
                            ws = flat[s..s + n].to_vec();
                            let last = BODY[flat[s + n] as usize];
                            let k = rng.urange(1, last.len());
                            prefix = last[..k].to_string();
                            break;
                        }
                    }
                }
                while ws.len() < n {
                    ws.push(self.body_word(rng));
                }
                if prefix.is_empty() {
                    let w = BODY[self.body_word(rng) as usize];
                    let k = rng.urange(1, w.len());
                    prefix = w[..k].to_string();
                }
                if rng.chance(1, 3) {
                    // position gaps between the terms and / or between the last term and the
                    // prefix, taken from a document so that the query can match
                    let mut fallback = ws.clone();
                    fallback.push(self.body_word(rng));
                    let (mut seq, _) = self.gapped_sequence(rng, n + 1, &fallback);
                    let (poff, last) = seq.pop().expect("n + 1 >= 1 entries");
                    let last = BODY[last as usize];
                    let prefix = last[..rng.urange(1, last.len())].to_string();
                    let mask = vocab_mask(BODY, |w| w.starts_with(&prefix));
                    return Q::PhrasePrefix { terms: seq, poff, prefix, mask };
                }
                let mask = vocab_mask(BODY, |w| w.starts_with(&prefix));
                let poff = ws.len();
                Q::PhrasePrefix { terms: ws.into_iter().enumerate().collect(), poff, prefix, mask }
            }
            4 => {
                let f = *rng.pick(&[TF::Body, TF::Tag, TF::Tag, TF::Basic]);
                let vocab = f.vocab();
                let (lo, hi) = self.bounds(rng, |r| {
                    let w = vocab[r.usize_below(vocab.len())];
                    match r.below(4) {
                        0 => w[..r.urange(1, w.len())].to_string(),
                        1 => format!("{w}a"),
                        _ => w.to_string(),
                    }
                });
                let api = match f {
                    TF::Tag => rng.below(3) as u8,
                    _ => rng.below(2) as u8,
                };
                let mask = vocab_mask(vocab, |w| str_in_bounds(w, &lo, &hi));
                Q::RangeText { f, lo, hi, api, mask }
            }
            5 => {
                let ty = rng.usize_below(NTY);
                let mut var = rng.usize_below(3);
                // a range over a bool *fast* field is refused by the tree under test (recorded
                // finding); keep that class rare so that it does not eat whole query trees
                if ty == T_B && var != V_IDX && !rng.chance(1, 8) {
                    var = V_IDX;
                }
                let (lo, hi) = self.typed_bounds(ty, rng);
                let api = match var {
                    V_IDX => rng.below(2) as u8,
                    V_FAST => *rng.pick(&[0u8, 2]),
                    _ => rng.below(3) as u8,
                };
                Q::RangeTyped { ty, var, lo, hi, api }
            }
            6 => {
                let mut text = vec![];
                let mut typed = vec![];
                let n = rng.urange(1, 5);
                let mixed = rng.chance(1, 3);
                let f0 = *rng.pick(&[TF::Body, TF::Body, TF::Tag, TF::Basic]);
                let ty0 = rng.usize_below(NTY);
                let use_typed = rng.chance(1, 3);
                for _ in 0..n {
                    if (use_typed && !mixed) || (mixed && rng.bool()) {
                        let ty = if mixed { rng.usize_below(NTY) } else { ty0 };
                        typed.push((ty, *rng.pick(&[V_IDX, V_BOTH]), self.pool_val(ty, rng)));
                    } else {
                        let f = if mixed { *rng.pick(&[TF::Body, TF::Tag, TF::Basic, TF::Freq]) } else { f0 };
                        text.push((f, self.word_of(f, rng)));
                    }
                }
                Q::TermSet { text, typed }
            }
            7 => Q::Exists(match rng.below(8) {
                0 => ExTarget::Tag,
                1 => ExTarget::Id,
                _ => ExTarget::Typed(rng.usize_below(NTY), *rng.pick(&[V_FAST, V_BOTH])),
            }),
            8 => Q::All,
            9 => Q::Empty,
            10 => {
                let f = *rng.pick(&[TF::Body, TF::Body, TF::Tag]);
                let vocab = f.vocab();
                loop {
                    let base = vocab[rng.usize_below(vocab.len())].as_bytes().to_vec();
                    let mut word = base.clone();
                    // mutate 0..2 times
                    for _ in 0..rng.below(3) {
                        match rng.below(4) {
                            0 if !word.is_empty() => {
                                let i = rng.usize_below(word.len());
                                word.remove(i);
                            }
                            1 => {
                                let i = rng.urange(0, word.len());
                                word.insert(i, b'a' + rng.below(5) as u8);
                            }
                            2 if word.len() >= 2 => {
                                let i = rng.usize_below(word.len() - 1);
                                word.swap(i, i + 1);
                            }
                            _ if !word.is_empty() => {
                                let i = rng.usize_below(word.len());
                                word[i] = b'a' + rng.below(5) as u8;
                            }
                            _ => {}
                        }
                    }
                    if word.is_empty() {
                        continue;
                    }
                    let word = String::from_utf8(word).unwrap();
                    let dist = rng.below(3) as u8;
                    let mut transp = rng.bool();
                    let prefix = rng.chance(1, 4);
                    // the oracle must not depend on OSA vs unrestricted Damerau
                    if transp && vocab.iter().any(|w| fuzzy_decide(&word, w, dist, true, prefix).is_none()) {
                        transp = false;
                    }
                    let mask = vocab_mask(vocab, |w| fuzzy_decide(&word, w, dist, transp, prefix).unwrap().0);
                    let may = vocab_mask(vocab, |w| fuzzy_decide(&word, w, dist, transp, prefix).unwrap().1);
                    return Q::Fuzzy { f, word, dist, transp, prefix, mask, may };
                }
            }
            11 => {
                let f = *rng.pick(&[TF::Body, TF::Body, TF::Tag]);
                let vocab = f.vocab();
                let w1 = vocab[rng.usize_below(vocab.len())];
                let w2 = vocab[rng.usize_below(vocab.len())];
                let k = rng.urange(0, w1.len());
                let pat = match rng.below(9) {
                    0 => w1.to_string(),
                    1 => format!("{}.*", &w1[..k]),
                    2 => format!(".*{}", &w1[k..]),
                    3 => format!("({w1}|{w2})"),
                    4 => format!("[a-{}]+", (b'a' + rng.below(5) as u8 + 1) as char),
                    5 => {
                        if w1.len() > k {
                            format!("{}.{}", &w1[..k], &w1[k + 1..])
                        } else {
                            format!("{w1}.?")
                        }
                    }
                    6 => format!("{}[a-z]*", &w1[..k]),
                    7 => format!("{}(a|b|c)?{}", &w1[..k], &w1[k..]),
                    _ => format!("{}.+", &w1[..k.min(1)]),
                };
                let re = regex::Regex::new(&format!("^(?:{pat})$")).expect("harness regex");
                let mask = vocab_mask(vocab, |w| re.is_match(w));
                Q::Regex { f, pat, mask }
            }
            _ => {
                let n = rng.urange(2, 3);
                let pats = (0..n)
                    .map(|_| {
                        let w = BODY[self.body_word(rng) as usize];
                        match rng.below(4) {
                            0 => w.to_string(),
                            1 => format!("{}.*", &w[..1]),
                            2 => ".*".to_string(),
                            _ => format!("{}.*", &w[..rng.urange(1, w.len())]),
                        }
                    })
                    .collect();
                Q::RegexPhrase { pats, slop: if rng.chance(1, 4) { 1 } else { 0 } }
            }
        }
    }

    fn dense_term(&self, rng: &mut Rng) -> Q {
        let w = *rng.pick(&[W_ALL, W_HALF, W_BIG, W_HALF, W_ALL]);
        match rng.below(5) {
            0 => Q::Term { f: TF::Basic, w: S_ALL, opt: 0 },
            1 => Q::Term { f: TF::Freq, w: rng.below(4) as u8, opt: 1 },
            _ => Q::Term { f: TF::Body, w, opt: rng.below(3) as u8 },
        }
    }

    fn sparse_leaf(&self, rng: &mut Rng) -> Q {
        match rng.below(8) {
            0 => Q::Term { f: TF::Body, w: *rng.pick(&[W_ONE, W_127, W_128, W_129]), opt: rng.below(3) as u8 },
            1 | 2 => Q::Term { f: TF::Body, w: rng.urange(N_MARK, BODY.len() - 1) as u8, opt: rng.below(3) as u8 },
            3 => Q::Term { f: TF::Basic, w: rng.below(7) as u8, opt: 0 },
            4 => Q::Term { f: TF::Tag, w: rng.usize_below(TAGS.len()) as u8, opt: 0 },
            _ => self.leaf(rng),
        }
    }

    /// Shapes aimed at the specialised scorer compositions of BooleanWeight::complex_scorer:
    /// intersection with a (nested) union leg, exclusion by a union / by several docsets,
    /// required-optional, minimum-should-match disjunction, >= 3-leg intersections.
    pub fn template(&self, rng: &mut Rng) -> Q {
        let union2 = |g: &Self, rng: &mut Rng| Q::Bool {
            clauses: vec![(Oc::Should, g.sparse_leaf(rng)), (Oc::Should, g.sparse_leaf(rng))],
            msm: if rng.bool() { None } else { Some(1) },
        };
        match rng.below(12) {
            10 | 11 => {
                // Nothing but term queries read with frequencies, as the top-level boolean query:
                // the term-intersection / term-union specialisations, which a ranking by score
                // evaluates block-wise with score upper bounds (block-max WAND) while counting and
                // collecting use the plain scorers. The terms are ones whose posting lists end
                // exactly at / one past a 128-posting block, or span several blocks.
                let n = rng.urange(2, 4);
                let mut seen = BTreeSet::new();
                let mut legs: Vec<Q> = vec![];
                while legs.len() < n {
                    let (f, w) = match rng.below(8) {
                        0 => (TF::Freq, rng.below(7) as u8),
                        1 | 2 | 3 => (TF::Body, *rng.pick(&[W_HALF, W_BIG, W_127, W_128, W_129, W_128, W_HALF])),
                        _ => (TF::Body, rng.urange(N_MARK, BODY.len() - 1) as u8),
                    };
                    if seen.insert((f, w)) {
                        legs.push(Q::Term { f, w, opt: if f == TF::Freq { 1 } else { 1 + rng.below(2) as u8 } });
                    }
                }
                match rng.below(5) {
                    0 | 1 | 2 => Q::Bool { clauses: legs.into_iter().map(|q| (Oc::Must, q)).collect(), msm: None },
                    // every should clause required: promoted to an intersection
                    3 => Q::Bool { clauses: legs.into_iter().map(|q| (Oc::Should, q)).collect(), msm: Some(n) },
                    _ => Q::Bool { clauses: legs.into_iter().map(|q| (Oc::Should, q)).collect(), msm: None },
                }
            }
            8 | 9 => {
                // +sparse +(phrase-of-frequent-words | y)   /   +sparse -(phrase | y):
                // far jumps of the driver make the union answer seek_danger outside its window
                // while a phrase leg sits on a candidate whose positions were not checked yet
                let frequent = [W_ALL, W_HALF, W_BIG, W_HALF];
                let a = *rng.pick(&frequent);
                let mut b = *rng.pick(&frequent);
                if a == b {
                    b = rng.urange(N_MARK, BODY.len() - 1) as u8;
                }
                let phrase = if rng.chance(1, 4) {
                    let w = BODY[b as usize];
                    let prefix = w[..rng.urange(1, w.len())].to_string();
                    let mask = vocab_mask(BODY, |x| x.starts_with(&prefix));
                    Q::PhrasePrefix { terms: vec![(0, a)], poff: 1, prefix, mask }
                } else {
                    Q::Phrase { terms: vec![(0, a), (1, b)], slop: 0 }
                };
                let union = Q::Bool { clauses: vec![(Oc::Should, phrase), (Oc::Should, self.sparse_leaf(rng))], msm: None };
                let driver = Q::Term { f: TF::Body, w: *rng.pick(&[W_ONE, W_127, W_128, W_129, W_127]), opt: rng.below(3) as u8 };
                let driver = if rng.chance(1, 3) { self.sparse_leaf(rng) } else { driver };
                let occ = if rng.chance(2, 3) { Oc::Must } else { Oc::MustNot };
                let mut clauses = vec![(Oc::Must, driver), (occ, union)];
                if rng.chance(1, 4) {
                    clauses.push((Oc::Should, self.sparse_leaf(rng)));
                }
                Q::Bool { clauses, msm: None }
            }
            0 | 1 => {
                // +dense (x | (y | z))
                let mut clauses = vec![(Oc::Must, self.dense_term(rng)), (Oc::Should, self.sparse_leaf(rng)), (Oc::Should, union2(self, rng))];
                if rng.chance(1, 3) {
                    clauses.push((Oc::Should, self.sparse_leaf(rng)));
                }
                rng.shuffle(&mut clauses);
                Q::Bool { clauses, msm: Some(1) }
            }
            2 => {
                // +dense -(y | z) [-w]
                let mut clauses = vec![(Oc::Must, self.dense_term(rng)), (Oc::MustNot, union2(self, rng))];
                if rng.bool() {
                    clauses.push((Oc::MustNot, self.sparse_leaf(rng)));
                }
                Q::Bool { clauses, msm: None }
            }
            3 => {
                // minimum-should-match disjunction
                let n = rng.urange(3, 6);
                let clauses: Vec<(Oc, Q)> = (0..n)
                    .map(|_| (Oc::Should, if rng.bool() { self.dense_term(rng) } else { self.sparse_leaf(rng) }))
                    .collect();
                Q::Bool { clauses, msm: Some(rng.urange(2, n - 1)) }
            }
            4 => {
                // >= 3-leg intersection
                let n = rng.urange(3, 5);
                let clauses: Vec<(Oc, Q)> = (0..n)
                    .map(|_| (Oc::Must, if rng.chance(2, 3) { self.dense_term(rng) } else { self.leaf(rng) }))
                    .collect();
                Q::Bool { clauses, msm: None }
            }
            5 => {
                // required-optional
                Q::Bool {
                    clauses: vec![(Oc::Must, self.dense_term(rng)), (Oc::Should, self.sparse_leaf(rng)), (Oc::Should, self.dense_term(rng))],
                    msm: if rng.bool() { None } else { Some(0) },
                }
            }
            6 => {
                // union of unions, also through dismax
                Q::DisMax(vec![union2(self, rng), self.sparse_leaf(rng), union2(self, rng)], 0.3)
            }
            _ => {
                // +(a | b) +(c | d) : intersection of unions
                Q::Bool {
                    clauses: vec![(Oc::Must, union2(self, rng)), (Oc::Must, Q::Bool {
                        clauses: vec![(Oc::Should, self.dense_term(rng)), (Oc::Should, self.sparse_leaf(rng))],
                        msm: None,
                    })],
                    msm: None,
                }
            }
        }
    }

    pub fn query(&self, rng: &mut Rng, depth: usize) -> Q {
        if depth == 0 || rng.chance(1, 4) {
            return self.leaf(rng);
        }
        match rng.weighted(&[70, 8, 8, 14]) {
            0 => {
                let n = match rng.below(100) {
                    0 => 0,
                    1..=12 => 1,
                    13..=45 => 2,
                    46..=70 => 3,
                    71..=88 => 4,
                    _ => rng.urange(5, 7),
                };
                let ow = *rng.pick(&[[35u32, 45, 20], [10, 80, 10], [70, 15, 15], [30, 30, 40], [0, 100, 0], [100, 0, 0]]);
                let mut clauses = vec![];
                for _ in 0..n {
                    let o = [Oc::Must, Oc::Should, Oc::MustNot][rng.weighted(&ow)];
                    // keep the trees from exploding: deeper levels get fewer composite children
                    let sub = if rng.chance(2, 3) { self.leaf(rng) } else { self.query(rng, depth - 1) };
                    clauses.push((o, sub));
                }
                let n_should = clauses.iter().filter(|c| c.0 == Oc::Should).count();
                let mut msm = if rng.bool() { None } else { Some(rng.urange(0, n_should + 1)) };
                if n == 1 {
                    // the single-clause shortcut class is kept rare so that it cannot mask others
                    let sens = match (clauses[0].0, msm) {
                        (Oc::Should, Some(m)) => m >= 2,
                        (Oc::Must, Some(m)) => m >= 1,
                        _ => false,
                    };
                    if sens && !rng.chance(1, 3) {
                        msm = if rng.bool() { None } else { Some(0) };
                    }
                }
                Q::Bool { clauses, msm }
            }
            1 => Q::Boost(Box::new(self.query(rng, depth - 1)), *rng.pick(&[0.5f32, 1.0, 2.0, 3.5, 0.0])),
            2 => Q::Const(Box::new(self.query(rng, depth - 1)), *rng.pick(&[1.0f32, 0.42, 7.0])),
            _ => {
                let n = rng.urange(0, 4);
                let qs = (0..n)
                    .map(|_| if rng.chance(2, 3) { self.leaf(rng) } else { self.query(rng, depth - 1) })
                    .collect();
                Q::DisMax(qs, *rng.pick(&[0.0f32, 0.3, 1.0]))
            }
        }
    }
}

fn bound_val(b: &Bound<Val>) -> Option<&Val> {
    match b {
        Bound::Included(v) | Bound::Excluded(v) => Some(v),
        Bound::Unbounded => None,
    }
}
