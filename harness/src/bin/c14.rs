fn main() {}
