#!/usr/bin/env python3
"""Writes /verif/seeded/README.md: one row per seeded change (what, needs, verification, which check catches it)."""
import json, glob, os
rows=[]
for m in sorted(glob.glob('/verif/seeded/*/meta.json')):
    d=os.path.dirname(m); n=os.path.basename(d)
    j=json.load(open(m))
    res=open(d+'/result.txt').read().strip() if os.path.exists(d+'/result.txt') else 'not run'
    rows.append((n,j.get('property','?'),' '.join(str(j.get('summary','')).split())[:260],' '.join(str(j.get('needs','')).split())[:200],j.get('verified_by_verifier','not verified'),res[:200]))
out=["# Seeded changes (written by independent sub-agents that saw only the property text)","",
"Each directory holds `patch.diff` (applies to /repo HEAD), `demo.rs` (fails with the change, passes without) and `meta.json`.",
"`scripts/seeded_verify.sh <name> --suite` re-confirms demo + pinned suite in a scratch worktree; `scripts/seeded_run.sh <name>` runs the property's check against the change (never in /repo).","",
"| name | property | change | needs | confirmed | check result |","|---|---|---|---|---|---|"]
for r in rows:
    out.append("| "+" | ".join(x.replace('|','\\|') for x in r)+" |")
open('/verif/seeded/README.md','w').write("\n".join(out)+"\n")
print(len(rows),"rows")
