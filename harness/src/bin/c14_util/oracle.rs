//! Direct (naive) evaluation of an aggregation request over model documents.
use std::collections::{BTreeMap, BTreeSet};

use serde_json::Value;

use super::model::*;
use super::req::*;

#[derive(Clone, Debug)]
pub enum Exp {
    Null,
    Bool(bool),
    Str(String),
    /// exact integer (doc counts, integer keys)
    Int(i128),
    /// exact float
    Num(f64),
    Approx {
        v: f64,
        tol: f64,
    },
    /// cardinality estimate of a set with this many distinct members
    Card(u64),
    Obj(BTreeMap<String, Exp>),
    Arr(Vec<Exp>),
    /// array compared as a multiset
    Bag(Vec<Exp>),
    AnyOf(Vec<Exp>),
    Terms(Box<TermsExp>),
}

#[derive(Clone, Debug)]
pub struct TermBucketExp {
    pub ckey: String,
    pub key: Exp,
    pub key_as_string: Option<String>,
    pub doc_count: u64,
    pub subs: BTreeMap<String, Exp>,
    /// sort value when ordering by a metric (None = no value)
    pub metric: Option<f64>,
    pub metric_tol: f64,
}

#[derive(Clone, Debug)]
pub struct TermsExp {
    /// every bucket that passes min_doc_count, in expected order (ties in arbitrary order)
    pub buckets: Vec<TermBucketExp>,
    pub size: usize,
    pub order: OrdT,
    pub show_err: bool,
    pub approx: bool,
    /// approx mode: true doc count of every term (no min_doc_count filtering)
    pub truth: BTreeMap<String, u64>,
    pub field_ty: Ty,
    pub mixed_f64_keys: bool,
    pub asc: bool,
    /// more distinct terms than the (documented default of the) per segment cut-off: a segment
    /// may have cut something, so `doc_count_error_upper_bound` need not be 0. Only generated for
    /// `_key` order with min_doc_count <= 1, where the cut-off cannot change buckets or counts.
    pub maybe_cut: bool,
}

pub struct Env<'a> {
    pub corpus: &'a Corpus,
    /// all documents of the index (terms with min_doc_count = 0 list every term of the field)
    pub all_docs: &'a [usize],
    /// alternative semantics: range/histogram/composite count values instead of documents
    pub per_value: bool,
    /// composite date_histogram: truncate toward zero instead of floor (alternative semantics)
    pub trunc_date: bool,
}

fn obj(pairs: Vec<(&str, Exp)>) -> Exp {
    Exp::Obj(pairs.into_iter().map(|(k, v)| (k.to_string(), v)).collect())
}

pub fn fmt_f64(x: f64) -> String {
    format!("{x}")
}

/// canonical key of a term value
pub fn ckey_of(v: &V) -> String {
    match v {
        V::S(s) => format!("s:{s}"),
        V::I(i) => format!("n:{i}"),
        V::U(u) => format!("n:{u}"),
        V::F(f) => ckey_f64(*f),
        V::D(ns) => format!("s:{}", rfc3339(*ns)),
        V::B(b) => format!("n:{}", *b as u8),
        V::Ip(ip) => format!("s:{}", ip_text(*ip)),
    }
}
pub fn ckey_f64(f: f64) -> String {
    if f.fract() == 0.0 && f.abs() < 9.2e18 {
        format!("n:{}", f as i128)
    } else {
        format!("f:{f:?}")
    }
}
pub fn ckey_json(v: &Value) -> String {
    match v {
        Value::String(s) => format!("s:{s}"),
        Value::Number(n) => {
            if let Some(i) = n.as_i64() {
                format!("n:{i}")
            } else if let Some(u) = n.as_u64() {
                format!("n:{u}")
            } else {
                ckey_f64(n.as_f64().unwrap_or(f64::NAN))
            }
        }
        Value::Bool(b) => format!("b:{b}"),
        Value::Null => "null".to_string(),
        other => format!("?:{other}"),
    }
}

fn key_exp(v: &V) -> (Exp, Option<String>) {
    match v {
        V::S(s) => (Exp::Str(s.clone()), None),
        V::I(i) => (Exp::Int(*i as i128), None),
        V::U(u) => (Exp::Int(*u as i128), None),
        V::F(f) => (Exp::Num(*f), None),
        V::D(ns) => (Exp::Str(rfc3339(*ns)), None),
        V::B(b) => (Exp::Int(*b as i128), Some(b.to_string())),
        V::Ip(ip) => (Exp::Str(ip_text(*ip)), None),
    }
}

/// ordering of term keys under `_key`: numeric for numbers, string order of the rendered key else
fn cmp_term_key(a: &V, b: &V) -> std::cmp::Ordering {
    match (a, b) {
        (V::I(x), V::I(y)) => x.cmp(y),
        (V::U(x), V::U(y)) => x.cmp(y),
        (V::F(x), V::F(y)) => x.total_cmp(y),
        (V::B(x), V::B(y)) => x.cmp(y),
        _ => ckey_of(a).cmp(&ckey_of(b)),
    }
}

// ---------------------------------------------------------------------------------------------
// metrics

fn neumaier(vals: &[f64]) -> f64 {
    let mut sum = 0.0f64;
    let mut c = 0.0f64;
    for &v in vals {
        let t = sum + v;
        if sum.abs() >= v.abs() {
            c += (sum - t) + v;
        } else {
            c += (v - t) + sum;
        }
        sum = t;
    }
    sum + c
}

/// values of a numeric field seen by a metric, with `missing` substituted
fn metric_vals(env: &Env, docs: &[usize], field: Fd, missing: Option<f64>) -> Vec<f64> {
    let mut out = vec![];
    for &d in docs {
        let vs = env.corpus.docs[d].get(field);
        if vs.is_empty() {
            if let Some(m) = missing {
                // the missing value is projected into the field's type
                let m = match field.ty() {
                    Ty::I64 | Ty::Date => (m as i64) as f64,
                    Ty::U64 => (m as u64) as f64,
                    _ => m,
                };
                out.push(m);
            }
        } else {
            for v in vs {
                out.push(v.num().unwrap_or(0.0));
            }
        }
    }
    out
}

const REL: f64 = 1e-9;

pub struct StatsV {
    pub n: u64,
    pub sum: f64,
    pub abs: f64,
    pub min: f64,
    pub max: f64,
    pub sq: f64,
    pub m2: f64,
}

fn stats_of(vals: &[f64]) -> StatsV {
    let n = vals.len() as u64;
    let sum = neumaier(vals);
    let abs: Vec<f64> = vals.iter().map(|v| v.abs()).collect();
    let sq: Vec<f64> = vals.iter().map(|v| v * v).collect();
    let mean = if n > 0 { sum / n as f64 } else { 0.0 };
    let dev: Vec<f64> = vals.iter().map(|v| (v - mean) * (v - mean)).collect();
    StatsV {
        n,
        sum,
        abs: neumaier(&abs),
        min: vals.iter().cloned().fold(f64::INFINITY, f64::min),
        max: vals.iter().cloned().fold(f64::NEG_INFINITY, f64::max),
        sq: neumaier(&sq),
        m2: neumaier(&dev),
    }
}

fn approx(v: f64, scale: f64) -> Exp {
    Exp::Approx {
        v,
        tol: REL * scale.abs() + 1e-12,
    }
}

/// value and tolerance of a (single valued view of a) metric, used for ordering terms buckets
pub fn metric_value(
    env: &Env,
    docs: &[usize],
    kind: MK,
    field: Fd,
    missing: Option<f64>,
    prop: &str,
) -> (Option<f64>, f64) {
    let vals = if field.is_num_or_date() {
        metric_vals(env, docs, field, missing)
    } else {
        vec![]
    };
    let s = stats_of(&vals);
    let nf = s.n as f64;
    let some = s.n > 0;
    let p = match kind {
        MK::Count => "count",
        MK::Sum => "sum",
        MK::Min => "min",
        MK::Max => "max",
        MK::Avg => "avg",
        _ => prop,
    };
    let tol_sum = REL * s.abs + 1e-12;
    match p {
        "count" => (Some(nf), 0.0),
        // the final result of an empty `sum` is 0 (Elasticsearch behaviour), which is what orders
        "sum" => (Some(s.sum), tol_sum),
        "min" => (some.then_some(s.min), 0.0),
        "max" => (some.then_some(s.max), 0.0),
        "avg" => (some.then(|| s.sum / nf), if some { tol_sum / nf } else { 0.0 }),
        "sum_of_squares" => (some.then_some(s.sq), REL * s.sq + 1e-12),
        "variance" => (
            (s.n > 1).then(|| s.m2 / nf),
            if s.n > 1 { REL * (s.sq / nf + 1.0) } else { 0.0 },
        ),
        "std_deviation" => {
            if s.n > 1 {
                let var = s.m2 / nf;
                let tv = REL * (s.sq / nf + 1.0);
                (Some(var.sqrt()), sd_tol(var, tv))
            } else {
                (None, 0.0)
            }
        }
        _ => (None, 0.0),
    }
}

fn sd_tol(var: f64, tol_var: f64) -> f64 {
    let sd = var.max(0.0).sqrt();
    if var > 100.0 * tol_var {
        tol_var / sd
    } else {
        1.5 * tol_var.sqrt()
    }
}

fn opt(v: Option<Exp>) -> Exp {
    v.unwrap_or(Exp::Null)
}

fn eval_metric(env: &Env, docs: &[usize], kind: MK, field: Fd, missing: Option<f64>, sigma: Option<f64>) -> Exp {
    // value_count on non numeric fields counts values
    if !field.is_num_or_date() {
        let mut n = 0u64;
        for &d in docs {
            let k = env.corpus.docs[d].get(field).len() as u64;
            n += if k == 0 && missing.is_some() { 1 } else { k };
        }
        return obj(vec![("value", Exp::Num(n as f64))]);
    }
    let vals = metric_vals(env, docs, field, missing);
    let s = stats_of(&vals);
    let nf = s.n as f64;
    let some = s.n > 0;
    let sum_e = approx(s.sum, s.abs);
    let avg_e = || Exp::Approx {
        v: s.sum / nf,
        tol: (REL * s.abs + 1e-12) / nf,
    };
    match kind {
        MK::Count => obj(vec![("value", Exp::Num(nf))]),
        MK::Sum => obj(vec![("value", if some { sum_e } else { Exp::Num(0.0) })]),
        MK::Min => obj(vec![("value", opt(some.then(|| Exp::Num(s.min))))]),
        MK::Max => obj(vec![("value", opt(some.then(|| Exp::Num(s.max))))]),
        MK::Avg => obj(vec![("value", opt(some.then(avg_e)))]),
        MK::Stats => obj(vec![
            ("count", Exp::Int(s.n as i128)),
            ("sum", if some { sum_e } else { Exp::Num(0.0) }),
            ("min", opt(some.then(|| Exp::Num(s.min)))),
            ("max", opt(some.then(|| Exp::Num(s.max)))),
            ("avg", opt(some.then(avg_e))),
        ]),
        MK::ExtStats => {
            let sigma = sigma.unwrap_or(2.0);
            let many = s.n > 1;
            let tol_var = REL * (s.sq / nf.max(1.0) + 1.0);
            let var = if many { s.m2 / nf } else { 0.0 };
            let var_s = if many { s.m2 / (nf - 1.0) } else { 0.0 };
            let tol_var_s = tol_var * if many { nf / (nf - 1.0) } else { 1.0 };
            let sd = var.sqrt();
            let sd_s = var_s.sqrt();
            let tsd = sd_tol(var, tol_var);
            let tsd_s = sd_tol(var_s, tol_var_s);
            let tavg = (REL * s.abs + 1e-12) / nf.max(1.0);
            let mean = if some { s.sum / nf } else { 0.0 };
            let ap = |v: f64, tol: f64| Exp::Approx { v, tol };
            let bounds = if many {
                obj(vec![
                    ("upper", ap(mean + sd * sigma, tavg + sigma.abs() * tsd)),
                    ("lower", ap(mean - sd * sigma, tavg + sigma.abs() * tsd)),
                    ("upper_sampling", ap(mean + sd_s * sigma, tavg + sigma.abs() * tsd_s)),
                    ("lower_sampling", ap(mean - sd_s * sigma, tavg + sigma.abs() * tsd_s)),
                    ("upper_population", ap(mean + sd * sigma, tavg + sigma.abs() * tsd)),
                    ("lower_population", ap(mean - sd * sigma, tavg + sigma.abs() * tsd)),
                ])
            } else {
                Exp::Null
            };
            obj(vec![
                ("count", Exp::Int(s.n as i128)),
                ("sum", if some { sum_e } else { Exp::Num(0.0) }),
                ("min", opt(some.then(|| Exp::Num(s.min)))),
                ("max", opt(some.then(|| Exp::Num(s.max)))),
                ("avg", opt(some.then(|| ap(mean, tavg)))),
                ("sum_of_squares", opt(some.then(|| ap(s.sq, REL * s.sq + 1e-12)))),
                ("variance", opt(many.then(|| ap(var, tol_var)))),
                ("variance_population", opt(many.then(|| ap(var, tol_var)))),
                ("variance_sampling", opt(many.then(|| ap(var_s, tol_var_s)))),
                ("std_deviation", opt(many.then(|| ap(sd, tsd)))),
                ("std_deviation_population", opt(many.then(|| ap(sd, tsd)))),
                ("std_deviation_sampling", opt(many.then(|| ap(sd_s, tsd_s)))),
                ("std_deviation_bounds", bounds),
            ])
        }
    }
}

fn format_percentile(p: f64) -> String {
    let mut s = format!("{p}");
    if !s.contains('.') {
        s.push_str(".0");
    }
    s
}

fn eval_pct(env: &Env, docs: &[usize], field: Fd, percents: &Option<Vec<f64>>, keyed: Option<bool>, missing: Option<f64>) -> Exp {
    let mut vals = metric_vals(env, docs, field, missing);
    vals.sort_by(|a, b| a.total_cmp(b));
    let ps: Vec<f64> = percents
        .clone()
        .unwrap_or_else(|| vec![1.0, 5.0, 25.0, 50.0, 75.0, 95.0, 99.0]);
    let value = |p: f64| -> Exp {
        if vals.is_empty() {
            return Exp::Null; // NaN is serialised as null
        }
        let q = p / 100.0;
        if q == 0.0 {
            return Exp::Num(vals[0]);
        }
        if q == 1.0 {
            return Exp::Num(*vals.last().unwrap());
        }
        let rank = (q * (vals.len() as f64 - 1.0)) as u64 as usize;
        let v = vals[rank.min(vals.len() - 1)];
        // DDSketch relative accuracy alpha = 0.01; |v| <= 1e-9 collapses to 0
        Exp::Approx {
            v,
            tol: 0.0101 * v.abs() + 2e-9,
        }
    };
    let values = if keyed.unwrap_or(true) {
        Exp::Obj(ps.iter().map(|p| (format_percentile(*p), value(*p))).collect())
    } else {
        Exp::Arr(
            ps.iter()
                .map(|p| obj(vec![("key", Exp::Num(*p)), ("value", value(*p))]))
                .collect(),
        )
    };
    obj(vec![("values", values)])
}

fn eval_card(env: &Env, docs: &[usize], field: Fd, missing: &Option<Value>) -> Exp {
    let mut set = BTreeSet::new();
    for &d in docs {
        let vs = env.corpus.docs[d].get(field);
        if vs.is_empty() {
            if let Some(m) = missing {
                let k = match (field.ty(), m) {
                    (Ty::Str, Value::String(s)) => format!("s:{s}"),
                    (Ty::F64, m) => ckey_f64(m.as_f64().unwrap_or(0.0)),
                    (_, m) => ckey_json(m),
                };
                set.insert(k);
            }
        } else {
            for v in vs {
                set.insert(ckey_of(v));
            }
        }
    }
    obj(vec![("value", Exp::Card(set.len() as u64))])
}

fn dv_exp(v: &V) -> Exp {
    match v {
        V::S(s) => Exp::Str(s.clone()),
        V::I(i) => Exp::Int(*i as i128),
        V::U(u) => Exp::Int(*u as i128),
        V::F(f) => Exp::Num(*f),
        V::D(ns) => Exp::Str(rfc3339(*ns)),
        V::B(b) => Exp::Bool(*b),
        V::Ip(ip) => Exp::Str(ip_text(*ip)),
    }
}

fn eval_tophits(env: &Env, docs: &[usize], sort: &[(Fd, bool)], size: usize, from: Option<usize>, dvf: &[Fd]) -> Exp {
    let mut ds: Vec<usize> = docs.to_vec();
    let key = |d: usize| -> Vec<Option<u64>> {
        sort.iter()
            .map(|(f, _)| env.corpus.docs[d].get(*f).first().map(|v| v.u64repr()))
            .collect()
    };
    ds.sort_by(|&a, &b| {
        let (ka, kb) = (key(a), key(b));
        for (i, (_, asc)) in sort.iter().enumerate() {
            let c = ka[i].cmp(&kb[i]);
            let c = if *asc { c } else { c.reverse() };
            if c != std::cmp::Ordering::Equal {
                return c;
            }
        }
        std::cmp::Ordering::Equal
    });
    let from = from.unwrap_or(0);
    let hits: Vec<Exp> = ds
        .iter()
        .skip(from)
        .take(size)
        .map(|&d| {
            let mut m = BTreeMap::new();
            m.insert(
                "sort".to_string(),
                Exp::Arr(
                    key(d)
                        .into_iter()
                        .map(|k| k.map(|k| Exp::Int(k as i128)).unwrap_or(Exp::Null))
                        .collect(),
                ),
            );
            if !dvf.is_empty() {
                m.insert(
                    "docvalue_fields".to_string(),
                    Exp::Obj(
                        dvf.iter()
                            .map(|f| {
                                (
                                    f.name().to_string(),
                                    Exp::Bag(env.corpus.docs[d].get(*f).iter().map(dv_exp).collect()),
                                )
                            })
                            .collect(),
                    ),
                );
            }
            Exp::Obj(m)
        })
        .collect();
    obj(vec![("hits", Exp::Arr(hits))])
}

// ---------------------------------------------------------------------------------------------
// buckets

fn bucket_obj(mut head: Vec<(&str, Exp)>, subs: BTreeMap<String, Exp>) -> Exp {
    let mut m: BTreeMap<String, Exp> = subs;
    for (k, v) in head.drain(..) {
        m.insert(k.to_string(), v);
    }
    Exp::Obj(m)
}

pub fn filter_matches(corpus: &Corpus, d: usize, q: &FilterQ) -> bool {
    let doc = &corpus.docs[d];
    match q {
        FilterQ::Cat(c) => doc.get(Fd::Cat).iter().any(|v| matches!(v, V::S(s) if s == c)),
        FilterQ::IRange(a, b) => doc.get(Fd::Fi).iter().any(|v| matches!(v, V::I(x) if x >= a && x <= b)),
        FilterQ::IdRange(a, b) => doc.get(Fd::Id).iter().any(|v| matches!(v, V::U(x) if x >= a && x <= b)),
        FilterQ::BoolIs(b) => doc.get(Fd::Fb).iter().any(|v| matches!(v, V::B(x) if x == b)),
        FilterQ::All => true,
    }
}

#[allow(clippy::too_many_arguments)]
fn eval_hist(
    env: &Env,
    docs: &[usize],
    field: Fd,
    interval: f64,
    offset: Option<f64>,
    min_doc_count: Option<u64>,
    hard: Option<(f64, f64)>,
    ext: Option<(f64, f64)>,
    keyed: bool,
    subs: &Aggs,
) -> Exp {
    let main = eval_hist_inner(env, docs, field, interval, offset, min_doc_count, hard, ext, keyed, subs, field.ty() == Ty::Date);
    let no_values = docs.iter().all(|&d| env.corpus.docs[d].get(field).is_empty());
    if field.ty() == Ty::Date && no_values {
        // without a single value the column (and with it the date type) is not visible to the
        // collector: the same buckets without `key_as_string` are accepted
        let plain = eval_hist_inner(env, docs, field, interval, offset, min_doc_count, hard, ext, keyed, subs, false);
        return Exp::AnyOf(vec![main, plain]);
    }
    main
}

#[allow(clippy::too_many_arguments)]
fn eval_hist_inner(
    env: &Env,
    docs: &[usize],
    field: Fd,
    interval: f64,
    offset: Option<f64>,
    min_doc_count: Option<u64>,
    hard: Option<(f64, f64)>,
    ext: Option<(f64, f64)>,
    keyed: bool,
    subs: &Aggs,
    is_date: bool,
) -> Exp {
    let scale = if is_date { 1_000_000.0 } else { 1.0 };
    let interval = if is_date { interval * scale } else { interval };
    let offset = offset.map(|o| if is_date { o * scale } else { o }).unwrap_or(0.0);
    let hard = hard.map(|(a, b)| if is_date { (a * scale, b * scale) } else { (a, b) });
    let ext = ext.map(|(a, b)| if is_date { (a * scale, b * scale) } else { (a, b) });
    let pos_of = |v: f64| ((v - offset) / interval).floor() as i64;
    let key_of = |p: i64| p as f64 * interval + offset;
    let mut buckets: BTreeMap<i64, Vec<usize>> = BTreeMap::new();
    for &d in docs {
        let mut seen = BTreeSet::new();
        for v in env.corpus.docs[d].get(field) {
            let x = v.num().unwrap_or(0.0);
            if let Some((lo, hi)) = hard {
                if !(x >= lo && x <= hi) {
                    continue;
                }
            }
            let p = pos_of(x);
            if env.per_value || seen.insert(p) {
                buckets.entry(p).or_default().push(d);
            }
        }
    }
    let mdc = min_doc_count.unwrap_or(0);
    let mut out: Vec<(f64, Vec<usize>)> = vec![];
    if mdc == 0 {
        let (mut min, mut max) = if buckets.is_empty() {
            (f64::MAX, f64::MIN)
        } else {
            (
                key_of(*buckets.keys().next().unwrap()),
                key_of(*buckets.keys().last().unwrap()),
            )
        };
        if let Some((a, b)) = ext {
            min = min.min(a);
            max = max.max(b);
        }
        if let Some((a, b)) = hard {
            min = min.max(a);
            max = max.min(b);
        }
        let first = pos_of(min);
        let last = pos_of(max);
        let mut positions: BTreeSet<i64> = buckets.keys().cloned().collect();
        if first <= last && (last - first) < 5_000_000 {
            for p in first..=last {
                positions.insert(p);
            }
        }
        for p in positions {
            out.push((key_of(p), buckets.get(&p).cloned().unwrap_or_default()));
        }
    } else {
        for (p, ds) in &buckets {
            if ds.len() as u64 >= mdc {
                out.push((key_of(*p), ds.clone()));
            }
        }
    }
    let mut arr = vec![];
    let mut map = BTreeMap::new();
    for (key, ds) in out {
        let sub = eval_aggs_map(subs, &ds, env);
        let (final_key, kas) = if is_date {
            (key / 1_000_000.0, Some(rfc3339(key as i64)))
        } else {
            (key, None)
        };
        let mut head = vec![("key", Exp::Num(final_key)), ("doc_count", Exp::Int(ds.len() as i128))];
        if let Some(k) = kas {
            head.push(("key_as_string", Exp::Str(k)));
        }
        let b = bucket_obj(head, sub);
        if keyed {
            map.insert(fmt_f64(final_key), b);
        } else {
            arr.push(b);
        }
    }
    obj(vec![("buckets", if keyed { Exp::Obj(map) } else { Exp::Arr(arr) })])
}

fn eval_range(env: &Env, docs: &[usize], field: Fd, ranges: &[Rg], keyed: bool, subs: &Aggs) -> Exp {
    // bounds live in the value space of the field: i64/date/u64 bounds are integers
    #[derive(Clone)]
    struct R {
        from: Option<f64>,
        to: Option<f64>,
        key: Option<String>,
    }
    let mut rs: Vec<R> = ranges
        .iter()
        .map(|r| R {
            from: r.from,
            to: r.to,
            key: r.key.clone(),
        })
        .collect();
    rs.sort_by(|a, b| a.from.unwrap_or(f64::NEG_INFINITY).total_cmp(&b.from.unwrap_or(f64::NEG_INFINITY)));
    let mut full: Vec<R> = vec![];
    if rs[0].from.is_some() {
        full.push(R {
            from: None,
            to: rs[0].from,
            key: None,
        });
    }
    for (i, r) in rs.iter().enumerate() {
        if i > 0 {
            let prev_to = rs[i - 1].to;
            if prev_to != r.from {
                full.push(R {
                    from: prev_to,
                    to: r.from,
                    key: None,
                });
            }
        }
        full.push(r.clone());
    }
    if let Some(t) = rs.last().unwrap().to {
        full.push(R {
            from: Some(t),
            to: None,
            key: None,
        });
    }
    let ty = field.ty();
    let in_range = |v: &V, r: &R| -> bool {
        let ge = |b: f64| match v {
            V::I(x) | V::D(x) => *x >= b as i64,
            V::U(x) => *x >= b as u64,
            V::F(x) => *x >= b,
            _ => false,
        };
        r.from.map(ge).unwrap_or(true) && !r.to.map(ge).unwrap_or(false)
    };
    let bound_txt = |b: Option<f64>| -> String {
        match b {
            None => "*".to_string(),
            Some(x) if ty == Ty::Date => rfc3339(x as i64),
            Some(x) => fmt_f64(x),
        }
    };
    let mut arr = vec![];
    let mut map = BTreeMap::new();
    for r in &full {
        let mut ds = vec![];
        for &d in docs {
            let mut hit = false;
            for v in env.corpus.docs[d].get(field) {
                if in_range(v, r) {
                    if env.per_value {
                        ds.push(d);
                    } else {
                        hit = true;
                    }
                }
            }
            if hit {
                ds.push(d);
            }
        }
        let key = r
            .key
            .clone()
            .unwrap_or_else(|| format!("{}-{}", bound_txt(r.from), bound_txt(r.to)));
        let mut head = vec![("key", Exp::Str(key.clone())), ("doc_count", Exp::Int(ds.len() as i128))];
        if let Some(f) = r.from {
            head.push(("from", Exp::Num(f)));
            if ty == Ty::Date {
                head.push(("from_as_string", Exp::Str(rfc3339(f as i64))));
            }
        }
        if let Some(t) = r.to {
            head.push(("to", Exp::Num(t)));
            if ty == Ty::Date {
                head.push(("to_as_string", Exp::Str(rfc3339(t as i64))));
            }
        }
        let b = bucket_obj(head, eval_aggs_map(subs, &ds, env));
        if keyed {
            map.insert(key, b);
        } else {
            arr.push(b);
        }
    }
    let full_exp = obj(vec![("buckets", if keyed { Exp::Obj(map) } else { Exp::Arr(arr) })]);
    if docs.is_empty() {
        // an artificially created empty parent bucket (gap filling) carries no range buckets at
        // all; a real but empty parent lists every range with doc_count 0. Both are accepted.
        let empty = obj(vec![(
            "buckets",
            if keyed { Exp::Obj(BTreeMap::new()) } else { Exp::Arr(vec![]) },
        )]);
        Exp::AnyOf(vec![full_exp, empty])
    } else {
        full_exp
    }
}

#[allow(clippy::too_many_arguments)]
fn eval_terms(
    env: &Env,
    docs: &[usize],
    field: Fd,
    size: Option<u32>,
    segment_size: Option<u32>,
    min_doc_count: Option<u64>,
    order: &Option<(OrdT, bool)>,
    missing: &Option<Value>,
    show_err: Option<bool>,
    approx: bool,
    include: &Option<IncExc>,
    exclude: &Option<IncExc>,
    subs: &Aggs,
) -> Exp {
    // `include` / `exclude`: a term is aggregated when it matches `include` (if given) and does
    // not match `exclude`; a regular expression has to match the whole term
    let matcher = |p: &IncExc| -> Box<dyn Fn(&str) -> bool> {
        match p {
            IncExc::Values(v) => {
                let set: BTreeSet<String> = v.iter().cloned().collect();
                Box::new(move |t: &str| set.contains(t))
            }
            IncExc::Regex(r) => {
                let re = regex::Regex::new(&format!("^(?:{r})$")).expect("generated pattern");
                Box::new(move |t: &str| re.is_match(t))
            }
        }
    };
    let inc = include.as_ref().map(matcher);
    let exc = exclude.as_ref().map(matcher);
    let allowed = |v: &V| -> bool {
        let V::S(t) = v else { return true };
        inc.as_ref().map(|m| m(t)).unwrap_or(true) && !exc.as_ref().map(|m| m(t)).unwrap_or(false)
    };
    let mut entries: BTreeMap<String, (V, Vec<usize>)> = BTreeMap::new();
    let missing_v: Option<V> = missing.as_ref().map(|m| match (field.ty(), m) {
        (_, Value::String(s)) => V::S(s.clone()),
        (Ty::F64, m) => V::F(m.as_f64().unwrap_or(0.0)),
        (Ty::I64, m) => V::I(m.as_i64().unwrap_or(0)),
        (Ty::U64, m) => V::U(m.as_u64().unwrap_or(0)),
        (_, m) => V::S(m.to_string()),
    });
    for &d in docs {
        let vs = env.corpus.docs[d].get(field);
        if vs.is_empty() {
            if let Some(m) = &missing_v {
                entries.entry(ckey_of(m)).or_insert_with(|| (m.clone(), vec![])).1.push(d);
            }
            continue;
        }
        let mut seen = BTreeSet::new();
        for v in vs {
            if !allowed(v) {
                continue;
            }
            let k = ckey_of(v);
            if seen.insert(k.clone()) {
                entries.entry(k).or_insert_with(|| (v.clone(), vec![])).1.push(d);
            }
        }
    }
    // documented: segment_size defaults to 10 * size (and is never smaller than size)
    let eff_size = size.unwrap_or(10);
    let eff_segment_size = segment_size.unwrap_or(eff_size.saturating_mul(10)).max(eff_size);
    let maybe_cut = entries.len() > eff_segment_size as usize;
    let mdc = min_doc_count.unwrap_or(1);
    if mdc == 0 && field.ty() == Ty::Str {
        for &d in env.all_docs {
            for v in env.corpus.docs[d].get(field) {
                if allowed(v) {
                    entries.entry(ckey_of(v)).or_insert_with(|| (v.clone(), vec![]));
                }
            }
        }
    }
    let truth: BTreeMap<String, u64> = entries.iter().map(|(k, (_, ds))| (k.clone(), ds.len() as u64)).collect();
    let (ord, asc) = order.clone().unwrap_or((OrdT::Count, false));
    let mut buckets: Vec<(V, TermBucketExp)> = vec![];
    let mut has_frac = false;
    let mut has_int = false;
    for (k, (v, ds)) in &entries {
        if (ds.len() as u64) < mdc {
            continue;
        }
        if let V::F(f) = v {
            if f.fract() == 0.0 {
                has_int = true;
            } else {
                has_frac = true;
            }
        }
        let (key, kas) = key_exp(v);
        let (metric, metric_tol) = match &ord {
            OrdT::Sub(name, prop) => {
                let found = subs.iter().find(|(n, _)| n == name);
                match found {
                    Some((_, Agg::Metric { kind, field, missing, .. })) => {
                        metric_value(env, ds, *kind, *field, *missing, prop)
                    }
                    _ => (None, 0.0),
                }
            }
            _ => (None, 0.0),
        };
        buckets.push((
            v.clone(),
            TermBucketExp {
                ckey: k.clone(),
                key,
                key_as_string: kas,
                doc_count: ds.len() as u64,
                subs: if approx { BTreeMap::new() } else { eval_aggs_map(subs, ds, env) },
                metric,
                metric_tol,
            },
        ));
    }
    match &ord {
        OrdT::Count => buckets.sort_by(|a, b| {
            let c = a.1.doc_count.cmp(&b.1.doc_count);
            if asc { c } else { c.reverse() }
        }),
        OrdT::Key => buckets.sort_by(|a, b| {
            let c = cmp_term_key(&a.0, &b.0);
            if asc { c } else { c.reverse() }
        }),
        OrdT::Sub(..) => buckets.sort_by(|a, b| {
            let (x, y) = (a.1.metric.unwrap_or(f64::MIN), b.1.metric.unwrap_or(f64::MIN));
            let c = x.total_cmp(&y);
            if asc { c } else { c.reverse() }
        }),
    }
    let default_order = order.is_none() || *order == Some((OrdT::Count, false));
    Exp::Terms(Box::new(TermsExp {
        buckets: buckets.into_iter().map(|b| b.1).collect(),
        size: size.unwrap_or(10) as usize,
        order: ord,
        show_err: show_err.unwrap_or(default_order),
        approx,
        truth,
        field_ty: field.ty(),
        mixed_f64_keys: has_frac && has_int,
        asc,
        maybe_cut,
    }))
}

#[derive(Clone, Debug, PartialEq)]
enum CKey {
    Null,
    B(bool),
    S(String),
    N(V),
    D(i64),
    Ip(u128),
}

fn ckey_cmp(a: &CKey, b: &CKey) -> std::cmp::Ordering {
    use std::cmp::Ordering::*;
    match (a, b) {
        (CKey::B(x), CKey::B(y)) => x.cmp(y),
        (CKey::S(x), CKey::S(y)) => x.cmp(y),
        (CKey::N(x), CKey::N(y)) => cmp_term_key(x, y),
        (CKey::D(x), CKey::D(y)) => x.cmp(y),
        (CKey::Ip(x), CKey::Ip(y)) => x.cmp(y),
        _ => Equal,
    }
}

fn eval_composite(env: &Env, docs: &[usize], sources: &[CSrc], size: u32, subs: &Aggs) -> Exp {
    let mut buckets: Vec<(Vec<CKey>, Vec<usize>)> = vec![];
    let mut index: BTreeMap<String, usize> = BTreeMap::new();
    for &d in docs {
        let mut combos: Vec<Vec<CKey>> = vec![vec![]];
        for s in sources {
            let vs = env.corpus.docs[d].get(s.field);
            let mut keys: Vec<CKey> = vec![];
            for v in vs {
                let k = match &s.kind {
                    CK::Terms => match v {
                        V::S(x) => CKey::S(x.clone()),
                        V::B(b) => CKey::B(*b),
                        V::D(ns) => CKey::D(*ns),
                        V::Ip(ip) => CKey::Ip(*ip),
                        other => CKey::N(other.clone()),
                    },
                    CK::Hist(iv) => {
                        let x = match v {
                            V::D(ns) => *ns as f64 / 1_000_000.0,
                            other => other.num().unwrap_or(0.0),
                        };
                        let idx = (x / iv).floor() as i64;
                        CKey::N(V::F(idx as f64 * iv))
                    }
                    CK::DateHist(_, ms) => {
                        let ns = match v {
                            V::D(ns) => *ns,
                            _ => 0,
                        };
                        let ivn = ms * 1_000_000;
                        let b = if env.trunc_date { (ns / ivn) * ivn } else { ns.div_euclid(ivn) * ivn };
                        CKey::D(b)
                    }
                };
                if env.per_value || !keys.contains(&k) {
                    keys.push(k);
                }
            }
            if keys.is_empty() {
                if s.missing_bucket {
                    keys.push(CKey::Null);
                } else {
                    combos.clear();
                    break;
                }
            }
            let mut next = vec![];
            for c in &combos {
                for k in &keys {
                    let mut c2 = c.clone();
                    c2.push(k.clone());
                    next.push(c2);
                }
            }
            combos = next;
        }
        for c in combos {
            let id = format!("{c:?}");
            let i = *index.entry(id).or_insert_with(|| {
                buckets.push((c.clone(), vec![]));
                buckets.len() - 1
            });
            buckets[i].1.push(d);
        }
    }
    buckets.sort_by(|a, b| {
        for (i, s) in sources.iter().enumerate() {
            let (x, y) = (&a.0[i], &b.0[i]);
            let c = match (x, y) {
                (CKey::Null, CKey::Null) => std::cmp::Ordering::Equal,
                (CKey::Null, _) | (_, CKey::Null) => {
                    let null_first = match s.missing_order {
                        1 => true,
                        2 => false,
                        _ => s.asc,
                    };
                    let x_null = matches!(x, CKey::Null);
                    if x_null == null_first {
                        std::cmp::Ordering::Less
                    } else {
                        std::cmp::Ordering::Greater
                    }
                }
                _ => {
                    let c = ckey_cmp(x, y);
                    if s.asc { c } else { c.reverse() }
                }
            };
            if c != std::cmp::Ordering::Equal {
                return c;
            }
        }
        std::cmp::Ordering::Equal
    });
    buckets.truncate(size as usize);
    let render = |k: &CKey| -> Exp {
        match k {
            CKey::Null => Exp::Null,
            CKey::B(b) => Exp::Bool(*b),
            CKey::S(s) => Exp::Str(s.clone()),
            CKey::N(v) => key_exp(v).0,
            CKey::D(ns) => Exp::Int((*ns / 1_000_000) as i128),
            CKey::Ip(ip) => Exp::Str(ip_text(*ip)),
        }
    };
    let after = |k: &CKey| -> String {
        match k {
            CKey::Null => "null:".to_string(),
            CKey::B(b) => format!("bool:{b}"),
            CKey::S(s) => format!("str:{s}"),
            CKey::N(V::I(i)) => format!("i64:{i}"),
            CKey::N(V::U(u)) => format!("u64:{u}"),
            CKey::N(V::F(f)) => {
                if f.fract() == 0.0 && *f >= i64::MIN as f64 && *f <= i64::MAX as f64 {
                    format!("i64:{}", *f as i64)
                } else {
                    format!("f64:{f}")
                }
            }
            CKey::N(_) => "?".to_string(),
            CKey::D(ns) => format!("dt:{ns}"),
            CKey::Ip(ip) => format!("ip:{}", std::net::Ipv6Addr::from(*ip)),
        }
    };
    let hist_after = |k: &CKey, s: &CSrc| -> String {
        // histogram sources always carry an f64 key
        match (k, &s.kind) {
            (CKey::N(V::F(f)), CK::Hist(_)) => format!("f64:{f}"),
            _ => after(k),
        }
    };
    let mut top: Vec<(&str, Exp)> = vec![];
    if let Some((last, _)) = buckets.last() {
        top.push((
            "after_key",
            Exp::Obj(
                sources
                    .iter()
                    .enumerate()
                    .map(|(i, s)| (s.name.clone(), Exp::Str(hist_after(&last[i], s))))
                    .collect(),
            ),
        ));
    }
    let arr: Vec<Exp> = buckets
        .iter()
        .map(|(k, ds)| {
            let key = Exp::Obj(
                sources
                    .iter()
                    .enumerate()
                    .map(|(i, s)| {
                        let e = match (&k[i], &s.kind) {
                            (CKey::N(V::F(f)), CK::Hist(_)) => Exp::Num(*f),
                            (k, _) => render(k),
                        };
                        (s.name.clone(), e)
                    })
                    .collect(),
            );
            bucket_obj(
                vec![("key", key), ("doc_count", Exp::Int(ds.len() as i128))],
                eval_aggs_map(subs, ds, env),
            )
        })
        .collect();
    top.push(("buckets", Exp::Arr(arr)));
    obj(top)
}

pub fn eval_agg(a: &Agg, docs: &[usize], env: &Env) -> Exp {
    match a {
        Agg::Metric {
            kind,
            field,
            missing,
            sigma,
        } => eval_metric(env, docs, *kind, *field, *missing, *sigma),
        Agg::Pct {
            field,
            percents,
            keyed,
            missing,
        } => eval_pct(env, docs, *field, percents, *keyed, *missing),
        Agg::Card { field, missing } => eval_card(env, docs, *field, missing),
        Agg::TopHits {
            sort,
            size,
            from,
            dvf,
        } => eval_tophits(env, docs, sort, *size, *from, dvf),
        Agg::Range {
            field,
            ranges,
            keyed,
            subs,
        } => eval_range(env, docs, *field, ranges, *keyed, subs),
        Agg::Hist {
            field,
            interval,
            offset,
            min_doc_count,
            hard,
            ext,
            keyed,
            subs,
        } => eval_hist(env, docs, *field, *interval, *offset, *min_doc_count, *hard, *ext, *keyed, subs),
        Agg::DateHist {
            field,
            interval,
            offset,
            min_doc_count,
            hard,
            ext,
            keyed,
            subs,
        } => eval_hist(
            env,
            docs,
            *field,
            interval.1 as f64,
            offset.as_ref().map(|o| o.1 as f64),
            *min_doc_count,
            *hard,
            *ext,
            *keyed,
            subs,
        ),
        Agg::Terms {
            field,
            size,
            segment_size,
            min_doc_count,
            order,
            missing,
            show_err,
            approx,
            include,
            exclude,
            subs,
        } => eval_terms(
            env,
            docs,
            *field,
            *size,
            *segment_size,
            *min_doc_count,
            order,
            missing,
            *show_err,
            *approx,
            include,
            exclude,
            subs,
        ),
        Agg::Filter { q, subs } => {
            let ds: Vec<usize> = docs.iter().cloned().filter(|&d| filter_matches(env.corpus, d, q)).collect();
            bucket_obj(vec![("doc_count", Exp::Int(ds.len() as i128))], eval_aggs_map(subs, &ds, env))
        }
        Agg::Composite { sources, size, subs, .. } => eval_composite(env, docs, sources, *size, subs),
    }
}

pub fn eval_aggs_map(aggs: &Aggs, docs: &[usize], env: &Env) -> BTreeMap<String, Exp> {
    aggs.iter().map(|(n, a)| (n.clone(), eval_agg(a, docs, env))).collect()
}
