//! C15 — term dictionaries behave as ordered maps from byte strings.
//!
//! Oracle: `BTreeMap<Vec<u8>, V>` plus harness-side automata run naively over every key.
//! Streams:
//!   sst      tantivy_sstable::Dictionary<{Void,MonotonicU64,Range,VecU32}> with a query panel
//!   fst      tantivy::termdict::{TermDictionaryBuilder, TermDictionary} (fst build, TermInfo)
//!   ooo      duplicate / out-of-order insertion into both builders must be rejected
//!   merge    SSTable::merge, termdict::TermMerger, columnar ordinal mapping + merge_columnar
//!   async    sstable into_stream_async / get_async over a FileHandle with reordered completions
//!   segmerge IndexWriter::merge of 2..6 segments: merged term dictionaries / str fast field
#[path = "c15_util/mod.rs"]
mod util;

use std::collections::{BTreeMap, BTreeSet};
use std::fmt::Debug;
use std::ops::Bound;

use serde_json::{json, Value};
use tantivy_common::file_slice::FileSlice;
use tantivy_common::OwnedBytes;
use tantivy_fst::automaton::AlwaysMatch;
use tantivy_fst::Automaton;
use tantivy_sstable::{
    Dictionary, MonotonicU64SSTable, RangeSSTable, SSTable, TermOrdHit, VecU32ValueSSTable,
    VoidSSTable,
};
use tvmon::report::*;
use tvmon::rng::Rng;
use util::*;

include!("c15_util/sst.rs");
include!("c15_util/fst.rs");
include!("c15_util/ooo.rs");
include!("c15_util/merge.rs");
include!("c15_util/segmerge.rs");
include!("c15_util/asyncs.rs");

fn main() {
    let ctx = Ctx::from_env("C15", "exploration");
    // cheap streams first: if the soft deadline ever cuts the run it only trims the last stream
    let mut rep = run_cases(&ctx, "ooo", ctx.scale(200, 10_000) as u64, ooo_case);
    rep.merge(run_cases(&ctx, "merge", ctx.scale(80, 6_000) as u64, merge_case));
    rep.merge(run_cases(&ctx, "segmerge", ctx.scale(20, 500) as u64, segmerge_case));
    rep.merge(run_cases(&ctx, "async", ctx.scale(80, 6_000) as u64, async_case));
    rep.merge(run_cases(&ctx, "fst", ctx.scale(120, 12_000) as u64, |c, r, rep| {
        fst_case(c, r, rep, !ctx.quick())
    }));
    rep.merge(run_cases(&ctx, "sst", ctx.scale(400, 40_000) as u64, |c, r, rep| {
        sst_case(c, r, rep, !ctx.quick())
    }));
    simple_finish(
        &ctx,
        rep,
        "a case is one dictionary (or one merge of 1..6 dictionaries) built through the real \
         writer, reopened from its bytes and interrogated with a panel of lookups, ordinal \
         conversions, ranges, prefix ranges and automaton searches; each answer is compared with a \
         BTreeMap. Non-trivial: the dictionary has >= 2 sstable blocks (sst/merge), > 256 terms \
         i.e. >= 2 term-info blocks (fst), the bad key was offered to a writer that had already \
         flushed a block (ooo), >= 2 inputs shared at least one key (merges), or an async search read \
         >= 2 non-adjacent blocks whose reads completed out of submission order (async). Distinct = \
         distinct (stream, value type, key class, block length, key count, block count) tuples.",
        ctx.scale(100, 5_000),
        &[
            "TermInfo values given to the fst builder have contiguous postings/positions ranges, \
             as produced by the real serializers (the store only encodes range starts)",
            "MonotonicU64 values are non-decreasing and Range values partition the space, as the \
             value codecs document",
            "the sstable `limit` is a load hint: the stream must be a prefix of the unlimited \
             answer with at least min(limit, total) entries",
            "term_ord_or_next for a key past the last one may return any Next(ord >= num_terms) \
             ('the closest next term_id may not exist')",
            "the TermInfo-valued sstable (quickwit feature) is not compiled into this harness; \
             the sstable code paths are exercised through the four public value codecs instead",
        ],
    );
}
