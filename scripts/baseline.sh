#!/bin/bash
# Runs the repository's pinned baseline test suite (guard OFF: no failpoints feature, no cfg)
# and reports pass/fail counts. Usage: scripts/baseline.sh [logfile]
cd /repo || exit 2
[ -f /w/out/rust_env.sh ] && . /w/out/rust_env.sh
export CARGO_NET_OFFLINE=true
LOG=${1:-/tmp/baseline.log}
if cargo nextest --version >/dev/null 2>&1 && [ -f /w/lib/nextest.toml ]; then
  cargo nextest run --workspace --no-fail-fast --tool-config-file pb:/w/lib/nextest.toml --profile pb --test-threads 8 --offline >"$LOG" 2>&1
else
  cargo test --workspace --no-fail-fast --offline >"$LOG" 2>&1
fi
rc=$?
grep -E "Summary|tests run|test result|FAIL|SIGABRT|SIGSEGV" "$LOG" | tail -20
exit $rc
