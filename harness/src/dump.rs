//! Canonical logical dump of a segment, keyed by the unique document id of the `hist` schema:
//! stored document, field-norm ids, fast-field values, and for every indexed field the set of
//! (term, tf, positions). Two dumps are comparable across segment layouts (C04, C17).

use std::collections::BTreeMap;

use serde_json::{json, Value};
use tantivy::postings::Postings;
use tantivy::schema::{IndexRecordOption, Value as _};
use tantivy::{DocSet, Document, SegmentReader, TantivyDocument, TERMINATED};

use crate::hist::HSchema;

#[derive(Clone, Debug, PartialEq, Eq, Default)]
pub struct DocCanon {
    pub stored_json: String,
    pub pad_len: usize,
    pub norm_body: Option<u8>,
    pub fast_id: Vec<u64>,
    pub fast_grp: Vec<u64>,
    pub fast_val: Vec<i64>,
    pub fast_tag: Vec<String>,
    /// (field name, term bytes) -> (tf, positions)
    pub terms: BTreeMap<(String, Vec<u8>), (u32, Vec<u32>)>,
}

#[derive(Clone, Debug, Default)]
pub struct SegDump {
    /// ids of the live documents in doc-id order
    pub order: Vec<u64>,
    /// sort-relevant values in doc-id order (val)
    pub vals_in_order: Vec<Option<i64>>,
    pub docs: BTreeMap<u64, DocCanon>,
    pub max_doc: u32,
    pub num_deleted: u32,
}

/// Dumps the live documents of a segment. Errors are returned as (signature, detail).
pub fn dump_segment(sr: &SegmentReader, hs: &HSchema) -> Result<SegDump, (String, Value)> {
    let e = |what: &str, err: String| (format!("dump:{what}"), json!(err));
    let max_doc = sr.max_doc();
    let ff = sr.fast_fields();
    let idc = ff.u64("id").map_err(|x| e("fast-id", x.to_string()))?;
    let grpc = ff.u64("grp").map_err(|x| e("fast-grp", x.to_string()))?;
    let valc = ff.i64("val").map_err(|x| e("fast-val", x.to_string()))?;
    let tagc = ff.str("tag").map_err(|x| e("fast-tag", x.to_string()))?;
    let store = sr.get_store_reader(2).map_err(|x| e("store-open", x.to_string()))?;
    let norms = sr.get_fieldnorms_reader(hs.body).ok();
    let mut doc_to_id: Vec<Option<u64>> = vec![None; max_doc as usize];
    let mut out = SegDump {
        max_doc,
        num_deleted: sr.num_deleted_docs(),
        ..Default::default()
    };
    for doc in 0..max_doc {
        if sr.is_deleted(doc) {
            continue;
        }
        let ids: Vec<u64> = idc.values_for_doc(doc).collect();
        if ids.len() != 1 {
            return Err(("dump:id-cardinality".into(), json!({"doc": doc, "ids": ids})));
        }
        let id = ids[0];
        let d: TantivyDocument = store.get(doc).map_err(|x| e("store-get", x.to_string()))?;
        let pad_len = d
            .get_first(hs.pad)
            .and_then(|v| v.as_bytes())
            .map(|b| b.len())
            .unwrap_or(0);
        // the stored document without the padding field (it can be megabytes)
        let mut d2 = TantivyDocument::new();
        for (f, v) in d.field_values() {
            if f != hs.pad {
                d2.add_field_value(f, v);
            }
        }
        let stored_json = d2.to_json(&hs.schema);
        let mut tags = vec![];
        if let Some(tc) = &tagc {
            for ord in tc.term_ords(doc) {
                let mut s = String::new();
                tc.ord_to_str(ord, &mut s).map_err(|x| e("tag-ord", x.to_string()))?;
                tags.push(s);
            }
        }
        let canon = DocCanon {
            stored_json,
            pad_len,
            norm_body: norms.as_ref().map(|n| n.fieldnorm_id(doc)),
            fast_id: ids,
            fast_grp: grpc.values_for_doc(doc).collect(),
            fast_val: valc.values_for_doc(doc).collect(),
            fast_tag: tags,
            terms: BTreeMap::new(),
        };
        out.order.push(id);
        out.vals_in_order.push(canon.fast_val.first().copied());
        doc_to_id[doc as usize] = Some(id);
        if out.docs.insert(id, canon).is_some() {
            return Err(("dump:duplicate-id-in-segment".into(), json!({"id": id})));
        }
    }
    // inverted index of every indexed field
    for (field, entry) in hs.schema.fields() {
        if !entry.is_indexed() {
            continue;
        }
        let inv = sr
            .inverted_index(field)
            .map_err(|x| e("inverted-index", x.to_string()))?;
        let mut stream = inv.terms().stream().map_err(|x| e("term-stream", x.to_string()))?;
        while stream.advance() {
            let key = stream.key().to_vec();
            let ti = stream.value().clone();
            let mut p = inv
                .read_postings_from_terminfo(&ti, IndexRecordOption::WithFreqsAndPositions)
                .map_err(|x| e("read-postings", x.to_string()))?;
            // typed (non-string) terms of a JSON field carry no positions, and asking for them
            // is not allowed: key layout is `path \0 type-code value`
            let is_json = matches!(entry.field_type(), tantivy::schema::FieldType::JsonObject(_));
            let has_positions = !is_json
                || key
                    .iter()
                    .position(|b| *b == 0)
                    .and_then(|i| key.get(i + 1))
                    .map(|t| *t == b's')
                    .unwrap_or(true);
            let mut doc = p.doc();
            let mut positions = vec![];
            while doc != TERMINATED {
                if let Some(Some(id)) = doc_to_id.get(doc as usize) {
                    if has_positions {
                        p.positions(&mut positions);
                    } else {
                        positions.clear();
                    }
                    out.docs.get_mut(id).unwrap().terms.insert(
                        (entry.name().to_string(), key.clone()),
                        (p.term_freq(), positions.clone()),
                    );
                }
                doc = p.advance();
            }
        }
    }
    Ok(out)
}

/// first difference between two canonical docs, as a short description
pub fn diff_doc(a: &DocCanon, b: &DocCanon) -> Option<String> {
    if a.stored_json != b.stored_json {
        return Some(format!("stored: {} vs {}", a.stored_json, b.stored_json));
    }
    if a.pad_len != b.pad_len {
        return Some(format!("pad_len: {} vs {}", a.pad_len, b.pad_len));
    }
    if a.norm_body != b.norm_body {
        return Some(format!("fieldnorm(body): {:?} vs {:?}", a.norm_body, b.norm_body));
    }
    if a.fast_id != b.fast_id || a.fast_grp != b.fast_grp || a.fast_val != b.fast_val || a.fast_tag != b.fast_tag {
        return Some(format!(
            "fast: {:?}/{:?}/{:?}/{:?} vs {:?}/{:?}/{:?}/{:?}",
            a.fast_id, a.fast_grp, a.fast_val, a.fast_tag, b.fast_id, b.fast_grp, b.fast_val, b.fast_tag
        ));
    }
    if a.terms != b.terms {
        for (k, v) in &a.terms {
            match b.terms.get(k) {
                None => return Some(format!("term {:?}:{:?} missing in output", k.0, k.1)),
                Some(w) if w != v => {
                    return Some(format!("term {:?}:{:?} (tf,positions) {:?} vs {:?}", k.0, k.1, v, w))
                }
                _ => {}
            }
        }
        for k in b.terms.keys() {
            if !a.terms.contains_key(k) {
                return Some(format!("term {:?}:{:?} only in output", k.0, k.1));
            }
        }
    }
    None
}
