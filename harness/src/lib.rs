pub mod crash;
pub mod dump;
pub mod hist;
pub mod mondir;
pub mod report;
pub mod rng;
pub mod sched;
pub mod systwin;
