//! C20 — checksum validation detects any corruption of a segment file.
//!
//! Per case one index is generated (history workload on a `MonDir`, short writes accepted by the
//! storage in half of the cases so that `FooterProxy` sees partial writes). Then
//!  1. intact: footer layout / crc32(body) / format version parsed by the harness itself,
//!     `open_read` == body, `ManagedDirectory::validate_checksum` == true for every file,
//!     `Index::validate_checksum` == {} ;
//!  2. damage: for every file of every committed segment, damaged copies (bit flips, byte
//!     substitutions, body truncations, whole-file truncations, body extensions, multi-byte damage,
//!     footer damage). Each copy is validated at the `ManagedDirectory` level, a sampled subset also
//!     through `Index::open` + `Index::validate_checksum` on the full image;
//!  3. version: the footer's `index_format_version` is rewritten (footer length recomputed) to
//!     0..=current+3 and u32::MAX: outside [oldest supported, current] `open_read` must answer
//!     `IncompatibleIndex` and no reader may open, inside everything opens.
//!
//! The oracle never uses tantivy's footer code: the layout body ‖ JSON ‖ len u32 LE ‖ magic u32 LE
//! is parsed here, crc32 is computed with crc32fast (and with a bitwise CRC-32 for small bodies).
use std::collections::{BTreeMap, BTreeSet, HashSet};
use std::path::{Path, PathBuf};
use std::sync::Arc;

use serde_json::{json, Value};
use tantivy::directory::error::OpenReadError;
use tantivy::directory::ManagedDirectory;
use tantivy::{Directory, HasLen, Index, ReloadPolicy, TantivyError};
use tvmon::hist::*;
use tvmon::mondir::{file_kind, meta_referenced_files, MonCfg, MonDir, OpKind};
use tvmon::report::*;
use tvmon::rng::Rng;

type Image = BTreeMap<String, Arc<Vec<u8>>>;

const FOOTER_MAGIC: u32 = 1337;
/// files with a body up to this size are enumerated completely
const EXHAUSTIVE_MAX: usize = 4096;
/// files with a body up to this size get every byte position (one random bit each)
const EVERY_BYTE_MAX: usize = 32 * 1024;

// ---------------------------------------------------------------------------------------------
// independent footer parsing

struct Foot {
    body_len: usize,
    crc: u32,
    fmt: u64,
    json: Value,
}

fn parse_footer(raw: &[u8]) -> Result<Foot, String> {
    let n = raw.len();
    if n < 8 {
        return Err(format!("file of {n} bytes cannot hold a footer"));
    }
    let magic = u32::from_le_bytes([raw[n - 4], raw[n - 3], raw[n - 2], raw[n - 1]]);
    let flen = u32::from_le_bytes([raw[n - 8], raw[n - 7], raw[n - 6], raw[n - 5]]) as usize;
    if magic != FOOTER_MAGIC {
        return Err(format!("magic {magic} != {FOOTER_MAGIC}"));
    }
    if flen + 8 > n {
        return Err(format!("footer length {flen} + 8 > file length {n}"));
    }
    let js = &raw[n - 8 - flen..n - 8];
    let json: Value = serde_json::from_slice(js).map_err(|e| format!("footer JSON: {e}"))?;
    let crc = json
        .get("crc")
        .and_then(|c| c.as_u64())
        .filter(|c| *c <= u32::MAX as u64)
        .ok_or("footer JSON without u32 crc")? as u32;
    let fmt = json
        .get("version")
        .and_then(|v| v.get("index_format_version"))
        .and_then(|v| v.as_u64())
        .ok_or("footer JSON without version.index_format_version")?;
    Ok(Foot {
        body_len: n - 8 - flen,
        crc,
        fmt,
        json,
    })
}

fn footer_bytes(json_text: &[u8]) -> Vec<u8> {
    let mut out = json_text.to_vec();
    out.extend_from_slice(&(json_text.len() as u32).to_le_bytes());
    out.extend_from_slice(&FOOTER_MAGIC.to_le_bytes());
    out
}

fn crc32(data: &[u8]) -> u32 {
    let mut h = crc32fast::Hasher::new();
    h.update(data);
    h.finalize()
}

/// bitwise CRC-32 (IEEE 802.3, reflected) — the naive definition
fn crc32_naive(data: &[u8]) -> u32 {
    let mut c = 0xFFFF_FFFFu32;
    for &b in data {
        c ^= b as u32;
        for _ in 0..8 {
            c = if c & 1 == 1 { (c >> 1) ^ 0xEDB8_8320 } else { c >> 1 };
        }
    }
    !c
}

fn size_class(n: usize) -> &'static str {
    match n {
        0 => "0",
        1..=63 => "1-63",
        64..=511 => "64-511",
        512..=4096 => "512-4096",
        4097..=8192 => "4097-8192",
        8193..=32768 => "8193-32K",
        32769..=262144 => "32K-256K",
        _ => ">256K",
    }
}

// ---------------------------------------------------------------------------------------------
// probing damaged copies

#[derive(Clone, Copy, PartialEq, Eq, Debug)]
enum Class {
    /// footer intact, body changed: must be detected
    Body,
    /// file cut at some length: must be detected
    WholeTrunc,
    /// footer bytes changed: no panic, never "clean" with a different body
    Footer,
}

struct FileCtx<'a> {
    img: &'a Image,
    path: &'a str,
    kind: &'static str,
    raw: &'a [u8],
    body_len: usize,
    crc: u32,
    short_writes: bool,
    sclass: &'static str,
}

struct Env<'a> {
    rep: &'a mut Report,
    rng: Rng,
    seen: BTreeSet<String>,
    /// (damage kind, outcome) -> n
    tally: BTreeMap<(&'static str, &'static str), u64>,
    idx_seen: BTreeSet<(&'static str, &'static str)>,
    footer_full: BTreeMap<&'static str, u32>,
    idx_rate: u64,
    copies: u64,
    idx_copies: u64,
    body_copies: u64,
}

impl Env<'_> {
    fn viol(&mut self, sig: String, detail: Value) {
        if self.seen.insert(sig.clone()) {
            self.rep.violation(sig, detail);
        } else {
            self.rep.count("repeated_violations_same_case", 1);
        }
    }
    fn t(&mut self, dmg: &'static str, outcome: &'static str) {
        *self.tally.entry((dmg, outcome)).or_insert(0) += 1;
    }
}

fn one_file_dir(path: &str, bytes: Arc<Vec<u8>>) -> MonDir {
    let mut m: Image = BTreeMap::new();
    m.insert(path.to_string(), bytes);
    MonDir::from_image(&m, MonCfg::default())
}

fn io_kind_name(e: &OpenReadError) -> &'static str {
    match e {
        OpenReadError::FileDoesNotExist(_) => "err:file-does-not-exist",
        OpenReadError::IncompatibleIndex(_) => "err:incompatible-index",
        OpenReadError::IoError { io_error, .. } => match io_error.kind() {
            std::io::ErrorKind::UnexpectedEof => "err:io:unexpected-eof",
            std::io::ErrorKind::InvalidData => "err:io:invalid-data",
            std::io::ErrorKind::InvalidInput => "err:io:invalid-input",
            _ => "err:io:other",
        },
    }
}

fn error_names(e: &OpenReadError, path: &str) -> bool {
    match e {
        OpenReadError::FileDoesNotExist(p) => p == Path::new(path),
        OpenReadError::IoError { filepath, .. } => filepath == Path::new(path),
        OpenReadError::IncompatibleIndex(_) => false,
    }
}

/// The defect "a file of 4..=7 bytes makes Footer::extract_footer panic" has its own signature.
fn panic_sig(p: &PanicInfo, damaged_len: usize, what: &str) -> String {
    if (4..8).contains(&damaged_len) {
        format!("panic:file-of-4-to-7-bytes:{what}")
    } else {
        format!("panic:{what}:{}", p.sig())
    }
}

/// Validates one damaged copy. `a`, `b` describe the damage (position / bit / length ...).
fn probe(env: &mut Env, fc: &FileCtx, dmg: &'static str, class: Class, damaged: Vec<u8>, a: usize, b: usize) {
    if class != Class::Footer && damaged.as_slice() == fc.raw {
        env.t(dmg, "skipped-identical");
        return;
    }
    env.copies += 1;
    if class != Class::Footer {
        env.body_copies += 1;
    }
    let dlen = damaged.len();
    let damaged = Arc::new(damaged);
    let witness = |extra: Value| {
        json!({"file": fc.path, "file_kind": fc.kind, "body_len": fc.body_len, "raw_len": fc.raw.len(),
               "footer_crc": fc.crc, "damage": dmg, "a": a, "b": b, "damaged_len": dlen, "short_writes": fc.short_writes, "observed": extra})
    };
    let dir = one_file_dir(fc.path, damaged.clone());
    let managed = match ManagedDirectory::wrap(Box::new(dir)) {
        Ok(m) => m,
        Err(e) => {
            env.rep.harness_error(format!("ManagedDirectory::wrap on a one-file image: {e}"));
            return;
        }
    };
    let p = Path::new(fc.path);
    let res = guarded(|| managed.validate_checksum(p));
    let mut clean = false;
    match res {
        Err(pi) => {
            env.t(dmg, "panic");
            let sig = panic_sig(&pi, dlen, "ManagedDirectory::validate_checksum");
            env.viol(sig, witness(json!({"panic_at": pi.location, "panic": pi.message})));
        }
        Ok(Ok(false)) => env.t(dmg, "mismatch"),
        Ok(Err(e)) => {
            env.t(dmg, io_kind_name(&e));
            if !error_names(&e, fc.path) {
                env.viol(
                    format!("error-does-not-name-file:{dmg}:{}", fc.kind),
                    witness(json!(e.to_string())),
                );
            }
        }
        Ok(Ok(true)) => {
            clean = true;
            match class {
                Class::Body | Class::WholeTrunc => {
                    env.t(dmg, "UNDETECTED");
                    // is it an inherent 32-bit collision (what tantivy hashed really has that crc)?
                    let collision = match parse_footer(&damaged) {
                        Ok(f) => crc32(&damaged[..f.body_len]) == f.crc,
                        Err(_) => false,
                    };
                    let sig = if collision && class == Class::Body && crc32_naive_if_small(&damaged, fc) {
                        format!("undetected:crc32-collision:{dmg}:{}", fc.kind)
                    } else {
                        format!("undetected:{dmg}:{}", fc.kind)
                    };
                    env.viol(sig, witness(json!("validate_checksum returned Ok(true)")));
                }
                Class::Footer => env.t(dmg, "clean"),
            }
        }
    }
    if class == Class::WholeTrunc && dlen < 16 {
        // the read path on a tiny remnant: an error, never a panic
        if let Err(pi) = guarded(|| managed.open_read(p).map(|fs| fs.len())) {
            let sig = panic_sig(&pi, dlen, "ManagedDirectory::open_read");
            env.viol(sig, witness(json!({"panic_at": pi.location, "panic": pi.message})));
        }
    }
    if class == Class::Footer {
        // reading must not panic, and "clean" must mean the original body
        match guarded(|| managed.open_read(p).map(|fs| fs.read_bytes().map(|b| b.as_slice().to_vec()))) {
            Err(pi) => {
                let sig = panic_sig(&pi, dlen, "ManagedDirectory::open_read");
                env.viol(sig, witness(json!({"panic_at": pi.location, "panic": pi.message})));
            }
            Ok(Ok(Ok(bytes))) => {
                env.t(dmg, "open_read-ok");
                if clean && bytes.as_slice() != &fc.raw[..fc.body_len] {
                    env.viol(
                        format!("footer-damage:clean-with-different-body:{dmg}:{}", fc.kind),
                        witness(json!({"read_len": bytes.len()})),
                    );
                }
            }
            Ok(Ok(Err(_))) | Ok(Err(_)) => env.t(dmg, "open_read-err"),
        }
    }
    // the same copy through Index::open + Index::validate_checksum (sampled)
    let first = env.idx_seen.insert((fc.kind, dmg));
    if first || env.rng.below(env.idx_rate) == 0 {
        index_probe(env, fc, dmg, class, damaged, a, b);
    }
}

/// for small files the collision claim is double-checked with the bitwise CRC
fn crc32_naive_if_small(damaged: &[u8], _fc: &FileCtx) -> bool {
    match parse_footer(damaged) {
        Ok(f) if f.body_len <= 65536 => crc32_naive(&damaged[..f.body_len]) == f.crc,
        Ok(_) => true,
        Err(_) => false,
    }
}

fn index_probe(env: &mut Env, fc: &FileCtx, dmg: &'static str, class: Class, damaged: Arc<Vec<u8>>, a: usize, b: usize) {
    env.idx_copies += 1;
    let dlen = damaged.len();
    let mut img = fc.img.clone();
    img.insert(fc.path.to_string(), damaged);
    let dir = MonDir::from_image(&img, MonCfg::default());
    let witness = |extra: Value| {
        json!({"file": fc.path, "file_kind": fc.kind, "body_len": fc.body_len, "raw_len": fc.raw.len(),
               "damage": dmg, "a": a, "b": b, "damaged_len": dlen, "short_writes": fc.short_writes,
               "level": "Index::open + Index::validate_checksum", "observed": extra})
    };
    let res = guarded(|| -> Result<HashSet<PathBuf>, (bool, TantivyError)> {
        let idx = Index::open(dir).map_err(|e| (true, e))?;
        idx.validate_checksum().map_err(|e| (false, e))
    });
    match res {
        Err(pi) => {
            env.t(dmg, "index:panic");
            let sig = panic_sig(&pi, dlen, "Index::validate_checksum");
            env.viol(sig, witness(json!({"panic_at": pi.location, "panic": pi.message})));
        }
        Ok(Err((at_open, e))) => {
            env.t(dmg, if at_open { "index:open-error" } else { "index:error" });
            let txt = e.to_string();
            if !txt.contains(fc.path) {
                env.viol(
                    format!("index-error-does-not-name-file:{dmg}:{}", fc.kind),
                    witness(json!(txt)),
                );
            }
        }
        Ok(Ok(set)) => {
            let me = PathBuf::from(fc.path);
            for other in set.iter().filter(|p| **p != me) {
                let ok = other.to_string_lossy().to_string();
                env.viol(
                    format!("false-positive:undamaged-file-reported:{}", file_kind(&ok)),
                    witness(json!({"reported": ok})),
                );
            }
            if set.contains(&me) {
                env.t(dmg, "index:reported");
            } else {
                match class {
                    Class::Body | Class::WholeTrunc => {
                        env.t(dmg, "index:UNDETECTED");
                        env.viol(
                            format!("undetected-by-index:{dmg}:{}", fc.kind),
                            witness(json!(format!("validate_checksum returned {set:?}"))),
                        );
                    }
                    Class::Footer => env.t(dmg, "index:clean"),
                }
            }
        }
    }
}

/// positions in 0..n: all of them when n <= all_max, otherwise `want` random ones plus the
/// boundaries (ends, multiples of the 4 KB / 8 KB write buffers and the 16 KB store block)
fn positions(n: usize, all_max: usize, want: usize, rng: &mut Rng) -> Vec<usize> {
    if n <= all_max {
        return (0..n).collect();
    }
    let mut s = BTreeSet::new();
    for i in 0..16.min(n) {
        s.insert(i);
        s.insert(n - 1 - i);
    }
    for m in [4096usize, 8192, 16384] {
        let mut k = m;
        let mut cnt = 0;
        while k < n + 2 && cnt < 64 {
            for d in [-2i64, -1, 0, 1] {
                let p = k as i64 + d;
                if p >= 0 && (p as usize) < n {
                    s.insert(p as usize);
                }
            }
            k += m;
            cnt += 1;
        }
    }
    for _ in 0..want {
        s.insert(rng.usize_below(n));
    }
    s.into_iter().collect()
}

fn other_byte(rng: &mut Rng, b: u8) -> u8 {
    let d = 1 + rng.below(255) as u8;
    b.wrapping_add(d)
}

fn damage_file(env: &mut Env, fc: &FileCtx, budget_bytes: usize) {
    let raw = fc.raw;
    let n = fc.body_len;
    let body = &raw[..n];
    let footer = &raw[n..];
    let exhaustive = n <= EXHAUSTIVE_MAX;
    let mut rng = env.rng.fork();
    // number of sampled positions for big files (each probe costs O(file length))
    let want = (budget_bytes / raw.len().max(1)).clamp(192, 1 << 16);
    let with = |f: &dyn Fn(&mut Vec<u8>)| -> Vec<u8> {
        let mut v = raw.to_vec();
        f(&mut v);
        v
    };

    // --- single bit flips --------------------------------------------------------------------
    if exhaustive {
        for pos in 0..n {
            for bit in 0..8 {
                probe(env, fc, "bitflip", Class::Body, with(&|v| v[pos] ^= 1 << bit), pos, bit);
            }
        }
        env.rep.count("files_enumerated_exhaustively(every_bit,every_truncation_length)", 1);
        env.rep.count("exhaustive_bits_flipped", (n * 8) as u64);
    } else {
        let ps = positions(n, EVERY_BYTE_MAX, want, &mut rng);
        if ps.len() == n {
            env.rep.count("files_every_byte_one_random_bit", 1);
        } else {
            env.rep.count("files_sampled_bytes_plus_boundaries", 1);
        }
        for pos in ps {
            let bit = rng.usize_below(8);
            probe(env, fc, "bitflip", Class::Body, with(&|v| v[pos] ^= 1 << bit), pos, bit);
        }
    }
    // --- byte substitution -------------------------------------------------------------------
    {
        let ps = positions(n, EXHAUSTIVE_MAX, want / 2, &mut rng);
        for pos in ps {
            let mut vals = vec![other_byte(&mut rng, body[pos])];
            if exhaustive {
                vals.push(if pos % 2 == 0 { 0x00 } else { 0xFF });
            }
            for val in vals {
                if val != body[pos] {
                    probe(env, fc, "byte-subst", Class::Body, with(&|v| v[pos] = val), pos, val as usize);
                }
            }
        }
        // every value at a few positions
        if n > 0 {
            for _ in 0..2 {
                let pos = rng.usize_below(n);
                for val in 0..=255u8 {
                    if val != body[pos] {
                        probe(env, fc, "byte-subst", Class::Body, with(&|v| v[pos] = val), pos, val as usize);
                    }
                }
            }
        }
    }
    // --- truncation of the body, footer kept ---------------------------------------------------
    {
        // new body length `keep` in 0..n (tail removed)
        for keep in positions(n, EXHAUSTIVE_MAX, want / 2, &mut rng) {
            let mut v = body[..keep].to_vec();
            v.extend_from_slice(footer);
            probe(env, fc, "body-trunc-tail", Class::Body, v, keep, n - keep);
        }
        // head removed: k in 1..=n
        for k0 in positions(n, EXHAUSTIVE_MAX, want / 4, &mut rng) {
            let k = k0 + 1;
            let mut v = body[k..].to_vec();
            v.extend_from_slice(footer);
            probe(env, fc, "body-trunc-head", Class::Body, v, k, n - k);
        }
        // a middle range removed
        if n >= 2 {
            for _ in 0..48 {
                let a = rng.usize_below(n);
                let cap = if rng.bool() { 8 } else { n };
                let len = 1 + rng.usize_below((n - a).min(cap));
                let mut v = body[..a].to_vec();
                v.extend_from_slice(&body[a + len..]);
                v.extend_from_slice(footer);
                probe(env, fc, "body-cut-middle", Class::Body, v, a, len);
            }
        }
    }
    // --- truncation of the whole file at any length ----------------------------------------------
    {
        let total = raw.len();
        let mut lens: BTreeSet<usize> = positions(n, EXHAUSTIVE_MAX, want / 2, &mut rng).into_iter().collect();
        for l in n..total {
            lens.insert(l); // every cut inside the footer
        }
        for l in 0..12.min(total) {
            lens.insert(l);
        }
        for l in lens {
            probe(env, fc, "file-trunc", Class::WholeTrunc, raw[..l].to_vec(), l, total - l);
        }
    }
    // --- extension of the body ---------------------------------------------------------------------
    {
        // appended to the body (before the footer)
        for k in [1usize, 2, 3, 4, 5, 8, 16, 64, 1 + rng.usize_below(300)] {
            for fill in 0..4 {
                let ext: Vec<u8> = match fill {
                    0 => vec![0u8; k],
                    1 => vec![0xFFu8; k],
                    2 => rng.bytes(k),
                    _ => {
                        if n == 0 {
                            continue;
                        }
                        (0..k).map(|i| body[n - 1 - (i % n)]).collect()
                    }
                };
                let mut v = body.to_vec();
                v.extend_from_slice(&ext);
                v.extend_from_slice(footer);
                probe(env, fc, "body-append", Class::Body, v, k, fill);
            }
        }
        // one byte inserted at every position (0..=n): a random one and a copy of the neighbour
        let mut ins: Vec<usize> = positions(n, EXHAUSTIVE_MAX, want / 4, &mut rng);
        ins.push(n);
        for pos in ins {
            let neighbour = if pos < n { body[pos] } else if n > 0 { body[n - 1] } else { 0 };
            for val in [rng.next_u64() as u8, neighbour] {
                let mut v = Vec::with_capacity(raw.len() + 1);
                v.extend_from_slice(&body[..pos]);
                v.push(val);
                v.extend_from_slice(&body[pos..]);
                v.extend_from_slice(footer);
                probe(env, fc, "body-insert-byte", Class::Body, v, pos, val as usize);
            }
        }
        // a chunk inserted (random bytes, zeros, or a duplicated run of the body)
        for _ in 0..32 {
            let pos = rng.usize_below(n + 1);
            let k = 1 + rng.usize_below(40);
            let chunk: Vec<u8> = match rng.below(3) {
                0 => rng.bytes(k),
                1 => vec![0u8; k],
                _ => {
                    if n == 0 {
                        rng.bytes(k)
                    } else {
                        let s = rng.usize_below(n);
                        body[s..(s + k).min(n)].to_vec()
                    }
                }
            };
            let mut v = Vec::with_capacity(raw.len() + chunk.len());
            v.extend_from_slice(&body[..pos]);
            v.extend_from_slice(&chunk);
            v.extend_from_slice(&body[pos..]);
            v.extend_from_slice(footer);
            probe(env, fc, "body-insert-chunk", Class::Body, v, pos, chunk.len());
        }
    }
    // --- small random multi-byte damage ----------------------------------------------------------------
    if n >= 2 {
        let rounds = if exhaustive { 256 } else { (want / 2).clamp(64, 512) };
        for r in 0..rounds {
            let mut v = raw.to_vec();
            let (name, a, b): (&'static str, usize, usize) = match r % 6 {
                0 => {
                    // 2..=8 bytes inside a small window
                    let w = rng.urange(2, 64.min(n));
                    let start = rng.usize_below(n - w + 1);
                    let k = rng.urange(2, 8.min(w));
                    for _ in 0..k {
                        let p = start + rng.usize_below(w);
                        v[p] = other_byte(&mut rng, v[p]);
                    }
                    ("multi-window", start, k)
                }
                1 => {
                    // 2..=8 bytes anywhere
                    let k = rng.urange(2, 8);
                    for _ in 0..k {
                        let p = rng.usize_below(n);
                        v[p] = other_byte(&mut rng, v[p]);
                    }
                    ("multi-scattered", k, 0)
                }
                2 => {
                    // transposition of two bytes
                    let p = rng.usize_below(n);
                    let q = if rng.bool() && p + 1 < n { p + 1 } else { rng.usize_below(n) };
                    v.swap(p, q);
                    ("multi-swap", p, q)
                }
                3 => {
                    // a run overwritten with a constant
                    let p = rng.usize_below(n);
                    let k = rng.urange(1, 16.min(n - p));
                    let c = *rng.pick(&[0u8, 0xFF, 0x20]);
                    for x in &mut v[p..p + k] {
                        *x = c;
                    }
                    ("multi-fill", p, k)
                }
                4 => {
                    // a run overwritten with bytes from elsewhere in the body
                    let k = rng.urange(1, 16.min(n));
                    let p = rng.usize_below(n - k + 1);
                    let s = rng.usize_below(n - k + 1);
                    let src = body[s..s + k].to_vec();
                    v[p..p + k].copy_from_slice(&src);
                    ("multi-copy", p, s)
                }
                _ => {
                    // several bit flips (2..=6 bits, anywhere)
                    let k = rng.urange(2, 6);
                    for _ in 0..k {
                        let p = rng.usize_below(n);
                        v[p] ^= 1 << rng.below(8);
                    }
                    ("multi-bitflips", k, 0)
                }
            };
            probe(env, fc, name, Class::Body, v, a, b);
        }
    }
    // --- damage to the footer itself -------------------------------------------------------------------
    {
        let flen = footer.len();
        // every bit of the footer for the first files of each kind in this index, then 3 bits per byte
        let all_bits = env.footer_full.entry(fc.kind).or_insert(0);
        *all_bits += 1;
        let all_bits = *all_bits <= 2;
        for i in 0..flen {
            let r = rng.usize_below(8);
            for bit in 0..8 {
                if all_bits || bit == r || i + 8 >= flen {
                    probe(env, fc, "footer-bitflip", Class::Footer, with(&|v| v[n + i] ^= 1 << bit), i, bit);
                }
            }
        }
        for _ in 0..64 {
            let i = rng.usize_below(flen);
            let val = other_byte(&mut rng, footer[i]);
            probe(env, fc, "footer-byte-subst", Class::Footer, with(&|v| v[n + i] = val), i, val as usize);
        }
        for k in [1usize, 2, 4, 7, 8, 9, 16] {
            let ext = if k % 2 == 0 { vec![0u8; k] } else { rng.bytes(k) };
            probe(env, fc, "append-after-footer", Class::Footer, with(&|v| v.extend_from_slice(&ext)), k, 0);
        }
        // footer length field: every value that keeps the JSON start inside the file, a few beyond
        let total = raw.len();
        let mut lens: BTreeSet<u32> = [0u32, 1, 2, 49_999, 50_000, 50_001, u32::MAX, (total as u32).wrapping_sub(8),
            (total as u32).wrapping_sub(7), total as u32]
            .into_iter()
            .collect();
        for _ in 0..24 {
            lens.insert(rng.below(total as u64 + 4) as u32);
        }
        for l in lens {
            if l as usize == flen - 8 {
                continue;
            }
            probe(
                env,
                fc,
                "footer-len-field",
                Class::Footer,
                with(&|v| v[total - 8..total - 4].copy_from_slice(&l.to_le_bytes())),
                l as usize,
                0,
            );
        }
        // crc field rewritten to another value (valid JSON, valid length): must be a mismatch
        if let Ok(f) = parse_footer(raw) {
            for delta in [1u32, 0x8000_0000, rng.next_u32() | 1] {
                let mut j = f.json.clone();
                j["crc"] = json!(f.crc.wrapping_add(delta));
                let mut v = body.to_vec();
                v.extend_from_slice(&footer_bytes(&serde_json::to_vec(&j).unwrap()));
                // the body is intact but the recorded checksum is not: the file no longer matches
                probe(env, fc, "footer-crc-field", Class::Body, v, delta as usize, 0);
            }
        }
    }
}

// ---------------------------------------------------------------------------------------------
// version sweep

fn is_incompat(e: &TantivyError) -> bool {
    matches!(e, TantivyError::IncompatibleIndex(_))
        || matches!(e, TantivyError::OpenReadError(OpenReadError::IncompatibleIndex(_)))
}

fn with_version(raw: &[u8], f: &Foot, version: Value) -> Vec<u8> {
    let mut j = f.json.clone();
    j["version"]["index_format_version"] = version;
    let mut v = raw[..f.body_len].to_vec();
    v.extend_from_slice(&footer_bytes(&serde_json::to_vec(&j).unwrap()));
    v
}

fn version_sweep(env: &mut Env, fc: &FileCtx, foot: &Foot, index_level: bool, base_docs: Option<u64>) {
    let cur = tantivy::INDEX_FORMAT_VERSION;
    let oldest = tantivy::INDEX_FORMAT_OLDEST_SUPPORTED_VERSION;
    let mut versions: Vec<u32> = (0..=cur + 3).collect();
    versions.push(u32::MAX);
    versions.push(u32::MAX - 1);
    versions.push(1 << 31);
    versions.push(cur + 249); // 256: would alias `cur`-ish values in a one-byte comparison
    versions.push(cur + 256);
    let body = &fc.raw[..fc.body_len];
    for v in versions {
        let supported = v >= oldest && v <= cur;
        let damaged = Arc::new(with_version(fc.raw, foot, json!(v)));
        let vname = if v < oldest {
            "below-oldest"
        } else if v <= cur {
            if v == cur {
                "current"
            } else {
                "older-supported"
            }
        } else if v <= cur + 3 {
            "above-current"
        } else {
            "far-above"
        };
        let witness = |extra: Value| {
            json!({"file": fc.path, "file_kind": fc.kind, "footer_index_format_version": v, "supported_range": [oldest, cur],
                   "observed": extra})
        };
        env.copies += 1;
        let managed = match ManagedDirectory::wrap(Box::new(one_file_dir(fc.path, damaged.clone()))) {
            Ok(m) => m,
            Err(e) => {
                env.rep.harness_error(format!("wrap: {e}"));
                return;
            }
        };
        let p = Path::new(fc.path);
        match guarded(|| managed.open_read(p).map(|fs| fs.read_bytes().map(|b| b.as_slice().to_vec()))) {
            Err(pi) => env.viol(
                format!("panic:version:{}", pi.sig()),
                witness(json!({"panic_at": pi.location, "panic": pi.message})),
            ),
            Ok(Ok(Ok(bytes))) => {
                if !supported {
                    env.t("version", "UNSUPPORTED-OPENED");
                    env.viol(
                        format!("version:unsupported-version-opened:{vname}"),
                        witness(json!("open_read returned Ok")),
                    );
                } else if bytes.as_slice() != body {
                    env.viol("version:supported-version-reads-other-body".to_string(), witness(json!(bytes.len())));
                } else {
                    env.t("version", "supported-opened");
                }
            }
            Ok(Ok(Err(e))) => env.viol("version:read_bytes-error".to_string(), witness(json!(e.to_string()))),
            Ok(Err(OpenReadError::IncompatibleIndex(inc))) => {
                if supported {
                    env.viol(
                        format!("version:supported-version-refused:{vname}"),
                        witness(json!(format!("{inc:?}"))),
                    );
                } else {
                    env.t("version", "unsupported-refused-incompatible");
                }
            }
            Ok(Err(e)) => {
                // refused, but not with an incompatibility error
                env.viol(
                    format!("version:{}-with-non-incompatibility-error:{vname}", if supported { "supported-refused" } else { "unsupported-refused" }),
                    witness(json!(e.to_string())),
                );
            }
        }
        // ... and so must the other read path
        match guarded(|| managed.get_file_handle(p).map(|fh| fh.len())) {
            Err(pi) => env.viol(format!("panic:version:get_file_handle:{}", pi.sig()), witness(json!(pi.message))),
            Ok(Ok(len)) => {
                if !supported {
                    env.viol(
                        format!("version:unsupported-version-opened-by-get_file_handle:{vname}"),
                        witness(json!("get_file_handle returned Ok")),
                    );
                } else if len != body.len() {
                    env.viol("version:get_file_handle-length-is-not-the-body-length".to_string(), witness(json!(len)));
                }
            }
            Ok(Err(OpenReadError::IncompatibleIndex(inc))) => {
                if supported {
                    env.viol(format!("version:supported-version-refused-by-get_file_handle:{vname}"), witness(json!(format!("{inc:?}"))));
                }
            }
            Ok(Err(e)) => env.viol(
                format!("version:get_file_handle-{}-with-non-incompatibility-error:{vname}", if supported { "supported-refused" } else { "unsupported-refused" }),
                witness(json!(e.to_string())),
            ),
        }
        env.rep.observe("version_classes", vname);
        // the checksum itself is intact: must not be reported as a mismatch
        match guarded(|| managed.validate_checksum(p)) {
            Ok(Ok(false)) => env.viol(
                "version:intact-body-reported-as-mismatch".to_string(),
                witness(json!("validate_checksum Ok(false)")),
            ),
            Err(pi) => env.viol(format!("panic:version-validate:{}", pi.sig()), witness(json!(pi.message))),
            _ => {}
        }
        if index_level && (v <= cur + 1 || v == u32::MAX) {
            env.idx_copies += 1;
            let mut img = fc.img.clone();
            img.insert(fc.path.to_string(), damaged);
            let dir = MonDir::from_image(&img, MonCfg::default());
            let res = guarded(|| -> Result<u64, (&'static str, TantivyError)> {
                let idx = Index::open(dir).map_err(|e| ("open", e))?;
                let reader: tantivy::IndexReader = idx
                    .reader_builder()
                    .reload_policy(ReloadPolicy::Manual)
                    .try_into()
                    .map_err(|e| ("reader", e))?;
                Ok(reader.searcher().num_docs())
            });
            match res {
                Err(pi) => env.viol(
                    format!("panic:version-reader:{}", pi.sig()),
                    witness(json!({"panic_at": pi.location, "panic": pi.message})),
                ),
                Ok(Ok(nd)) => {
                    if !supported {
                        env.t("version", "index:UNSUPPORTED-OPENED");
                        env.viol(
                            format!("version:reader-opens-unsupported-version:{vname}:{}", fc.kind),
                            witness(json!({"num_docs": nd})),
                        );
                    } else {
                        env.t("version", "index:supported-reader-opened");
                        if let Some(b) = base_docs {
                            if b != nd {
                                env.viol(
                                    "version:supported-version-reader-differs".to_string(),
                                    witness(json!({"num_docs": nd, "intact_num_docs": b})),
                                );
                            }
                        }
                    }
                }
                Ok(Err((at, e))) => {
                    if supported {
                        env.viol(
                            format!("version:supported-version-refused-by-{at}:{vname}"),
                            witness(json!(e.to_string())),
                        );
                    } else if is_incompat(&e) {
                        env.t("version", if at == "open" { "index:open-refused-incompatible" } else { "index:reader-refused-incompatible" });
                    } else {
                        env.viol(
                            format!("version:unsupported-refused-by-{at}-with-non-incompatibility-error:{vname}"),
                            witness(json!(e.to_string())),
                        );
                    }
                }
            }
        }
    }
    // malformed version fields: anything but a panic or a silent misread is fine
    for (name, val) in [
        ("u32-overflow", json!(4294967296u64)),
        ("negative", json!(-1)),
        ("string", json!("7")),
        ("float", json!(7.5)),
        ("null", Value::Null),
    ] {
        let damaged = Arc::new(with_version(fc.raw, foot, val));
        let managed = match ManagedDirectory::wrap(Box::new(one_file_dir(fc.path, damaged))) {
            Ok(m) => m,
            Err(_) => return,
        };
        env.copies += 1;
        match guarded(|| managed.open_read(Path::new(fc.path)).map(|fs| fs.len())) {
            Err(pi) => env.viol(format!("panic:version-malformed:{}", pi.sig()), json!({"field": name, "panic": pi.message})),
            Ok(Ok(len)) => {
                env.t("version-malformed", "opened");
                if len != fc.body_len {
                    env.viol(format!("version:malformed-{name}-opened-with-other-body"), json!({"len": len}));
                }
            }
            Ok(Err(_)) => env.t("version-malformed", "refused"),
        }
    }
}

// ---------------------------------------------------------------------------------------------
// one generated index

#[derive(Clone, Copy, PartialEq, Eq, Debug)]
enum Flavor {
    Small,
    Medium,
    Big,
}

fn gen_ops(rng: &mut Rng, flavor: Flavor) -> Vec<Op> {
    let mut g = HistGen::new();
    let len = rng.urange(12, 45);
    let mut gcfg = GenCfg::standard(len).no_cutters().no_delete_all();
    gcfg.w = [40, 14, 8, 6, 0, 14, 3, 2, 5, 2, 2, 0, 0, 0];
    let mut ops = g.history(rng, &gcfg);
    let (chunks, per_chunk, max_words) = match flavor {
        Flavor::Small => (0, 0, 0),
        Flavor::Medium => (rng.urange(1, 3), rng.urange(40, 250), *rng.pick(&[12usize, 40, 120])),
        Flavor::Big => (rng.urange(2, 3), rng.urange(1200, 4000), *rng.pick(&[40usize, 120, 200])),
    };
    for _ in 0..chunks {
        let mut bulk = vec![];
        // boundary-aware doc counts: around the 128-doc posting block and 512-row column block
        let m = match rng.below(4) {
            0 => *rng.pick(&[127usize, 128, 129, 511, 512, 513]),
            _ => per_chunk,
        };
        for _ in 0..m {
            let mut d = g.doc(rng, 4);
            let nb = rng.usize_below(max_words + 1);
            d.body = (0..nb).map(|_| rng.below(WORDS.len() as u64) as u8).collect();
            if rng.chance(1, 16) {
                d.pad = rng.usize_below(3000);
            }
            bulk.push(Op::Add(d));
        }
        if rng.chance(2, 3) {
            bulk.push(Op::DeleteTerm(g.pred(rng, 4, true)));
        }
        bulk.push(Op::Commit);
        let at = rng.usize_below(ops.len());
        ops.splice(at..at, bulk);
    }
    // make sure something is deleted from a committed segment at the end
    ops.push(Op::DeleteTerm(Pred::Tag(rng.below(TAGS.len() as u64) as u8)));
    ops.push(Op::Commit);
    ops
}

fn case(case: u64, rng: &mut Rng, rep: &mut Report, thorough: bool) {
    let flavor = match case % 8 {
        0 => Flavor::Big,
        1 | 2 | 3 => Flavor::Medium,
        _ => Flavor::Small,
    };
    let mut cfg = ExecCfg::random(rng, true);
    cfg.threads = *rng.pick(&[1usize, 2, 3, 4]);
    let short_writes = case % 2 == 1;
    let ops = gen_ops(rng, flavor);
    let mon = MonDir::new(MonCfg {
        monitors: true,
        keep_payloads: false,
        short_writes,
        noise_seed: rng.next_u64(),
        ..Default::default()
    });
    let mut ex = match Exec::create(Box::new(mon.clone()), cfg.clone(), Some(mon.clone())) {
        Ok(e) => e,
        Err(e) => {
            rep.violation("api-error:create", json!(e));
            return;
        }
    };
    for op in &ops {
        ex.step(op);
    }
    ex.drain_merges();
    if let Some(w) = ex.writer.take() {
        let _ = w.wait_merging_threads();
    }
    // problems of the run itself belong to C02; anything not known there is reported here too,
    // because a wrong read-back under short writes is exactly what this property is about
    for (sig, d) in ex.problems.clone() {
        if !is_known("C02", &sig) {
            rep.violation(format!("exec:{sig}"), json!({"case": case, "detail": d, "short_writes": short_writes}));
        }
    }
    for (sig, d) in ex.check_committed(false) {
        if !is_known("C02", &sig) {
            rep.violation(format!("readback:{sig}"), json!({"case": case, "detail": d, "short_writes": short_writes}));
        }
    }
    for v in mon.take_violations() {
        if v.sig.starts_with("T2:") {
            rep.violation(v.sig, json!({"case": case, "detail": v.detail}));
        }
    }
    let base_docs = Some(ex.reader.searcher().num_docs());
    let img: Image = mon.snapshot();
    // paths whose writer was terminated (files abandoned by a cancelled merge never get a footer)
    let terminated: BTreeSet<String> = mon
        .log()
        .into_iter()
        .filter(|e| e.kind == OpKind::Terminate && e.ok)
        .map(|e| e.path)
        .collect();
    drop(ex);
    rep.eval();
    rep.count("indexes", 1);
    rep.observe("short_writes", short_writes.to_string());
    rep.observe("flavor", format!("{flavor:?}"));
    rep.observe("exec_cfg", cfg.describe());

    let Some(meta) = img.get("meta.json").cloned() else {
        rep.violation("intact:no-meta.json", json!({"case": case}));
        return;
    };
    let refs: Vec<String> = match meta_referenced_files(&meta) {
        Ok(r) => r.into_iter().map(|(f, _)| f).collect(),
        Err(e) => {
            rep.violation("intact:meta-unparsable", json!(e));
            return;
        }
    };
    let n_segments = refs.iter().filter(|f| f.ends_with(".idx")).count();
    rep.observe("segments_per_index", n_segments.to_string());
    if n_segments == 0 {
        rep.count("indexes_without_segments", 1);
        return;
    }
    let mut env = Env {
        rep,
        rng: rng.fork(),
        seen: BTreeSet::new(),
        tally: BTreeMap::new(),
        idx_seen: BTreeSet::new(),
        footer_full: BTreeMap::new(),
        idx_rate: if thorough { 1024 } else { 256 },
        copies: 0,
        idx_copies: 0,
        body_copies: 0,
    };

    // ---- 1. intact --------------------------------------------------------------------------
    let dir = MonDir::from_image(&img, MonCfg::default());
    let index = match guarded(|| Index::open(dir.clone())) {
        Ok(Ok(i)) => i,
        Ok(Err(e)) => {
            env.viol("intact:open-failed".into(), json!(e.to_string()));
            return;
        }
        Err(p) => {
            env.viol(format!("intact:open-panicked:{}", p.sig()), json!(p.message));
            return;
        }
    };
    match guarded(|| index.validate_checksum()) {
        Ok(Ok(set)) if set.is_empty() => {}
        Ok(Ok(set)) => {
            let kinds: BTreeSet<&str> = set.iter().map(|p| file_kind(&p.to_string_lossy())).collect();
            env.viol(
                format!("intact:index-reported-damaged:{}", kinds.into_iter().collect::<Vec<_>>().join("+")),
                json!({"reported": format!("{set:?}"), "short_writes": short_writes}),
            );
        }
        Ok(Err(e)) => env.viol("intact:validate_checksum-error".into(), json!(e.to_string())),
        Err(p) => env.viol(format!("intact:validate_checksum-panicked:{}", p.sig()), json!(p.message)),
    }
    let managed_list: HashSet<PathBuf> = index.directory().list_managed_files();
    let mut foots: BTreeMap<String, Foot> = BTreeMap::new();
    let cur = tantivy::INDEX_FORMAT_VERSION as u64;
    for (path, raw) in &img {
        let kind = file_kind(path);
        if matches!(kind, "meta" | "managed" | "lock") {
            continue;
        }
        let referenced = refs.contains(path);
        if !terminated.contains(path) {
            // never terminated: an abandoned write (cancelled merge); no footer is promised
            env.rep.observe("unterminated_abandoned_files", kind);
            if referenced {
                env.viol(format!("intact:referenced-file-never-terminated:{kind}"), json!({"file": path}));
            }
            continue;
        }
        // every file written (and terminated) through open_write carries a footer
        env.rep.count("intact_files_checked", 1);
        let wit = |x: Value| json!({"file": path, "file_kind": kind, "raw_len": raw.len(), "short_writes": short_writes, "referenced_by_meta": referenced, "observed": x});
        let foot = match parse_footer(raw) {
            Ok(f) => f,
            Err(e) => {
                env.viol(format!("intact:footer-unparsable:{kind}"), wit(json!(e)));
                continue;
            }
        };
        let body = &raw[..foot.body_len];
        let c = crc32(body);
        if body.len() <= 65536 && crc32_naive(body) != c {
            env.rep.harness_error("crc32fast disagrees with the bitwise CRC-32");
        }
        if c != foot.crc {
            env.viol(
                format!("intact:footer-crc-is-not-crc32-of-body:{kind}"),
                wit(json!({"footer_crc": foot.crc, "crc32_of_body": c, "body_len": body.len(),
                           "crc32_of_whole_file": crc32(raw)})),
            );
        }
        if foot.fmt != cur {
            env.viol(
                format!("intact:footer-version-is-not-current:{kind}"),
                wit(json!({"footer": foot.json, "current": cur})),
            );
        }
        let p = Path::new(path.as_str());
        match guarded(|| index.directory().validate_checksum(p)) {
            Ok(Ok(true)) => {}
            Ok(Ok(false)) => env.viol(format!("intact:file-reported-damaged:{kind}"), wit(json!("Ok(false)"))),
            Ok(Err(e)) => env.viol(format!("intact:file-validate-error:{kind}"), wit(json!(e.to_string()))),
            Err(pi) => env.viol(format!("intact:file-validate-panicked:{}", pi.sig()), wit(json!(pi.message))),
        }
        match guarded(|| index.directory().open_read(p).map(|fs| (fs.len(), fs.read_bytes().map(|b| b.as_slice().to_vec())))) {
            Ok(Ok((len, Ok(bytes)))) => {
                if bytes.as_slice() != body || len != body.len() {
                    env.viol(
                        format!("intact:open_read-is-not-the-body:{kind}"),
                        wit(json!({"read_len": bytes.len(), "slice_len": len, "body_len": body.len()})),
                    );
                }
            }
            Ok(Ok((_, Err(e)))) => env.viol(format!("intact:read_bytes-error:{kind}"), wit(json!(e.to_string()))),
            Ok(Err(e)) => env.viol(format!("intact:open_read-error:{kind}"), wit(json!(e.to_string()))),
            Err(pi) => env.viol(format!("intact:open_read-panicked:{}", pi.sig()), wit(json!(pi.message))),
        }
        // the other public read path, `get_file_handle`, hands out the same body
        match guarded(|| index.directory().get_file_handle(p).map(|fh| (fh.len(), fh.read_bytes(0..fh.len()).map(|b| b.as_slice().to_vec())))) {
            Ok(Ok((len, Ok(bytes)))) => {
                if bytes.as_slice() != body || len != body.len() {
                    env.viol(
                        format!("intact:get_file_handle-is-not-the-body:{kind}"),
                        wit(json!({"read_len": bytes.len(), "handle_len": len, "body_len": body.len()})),
                    );
                }
            }
            Ok(Ok((_, Err(e)))) => env.viol(format!("intact:get_file_handle-read-error:{kind}"), wit(json!(e.to_string()))),
            Ok(Err(e)) => env.viol(format!("intact:get_file_handle-error:{kind}"), wit(json!(e.to_string()))),
            Err(pi) => env.viol(format!("intact:get_file_handle-panicked:{}", pi.sig()), wit(json!(pi.message))),
        }
        if referenced {
            if !managed_list.contains(Path::new(path.as_str())) {
                // Index::validate_checksum only walks managed files: such a file would be skipped
                env.viol(format!("coverage:committed-file-not-in-managed-list:{kind}"), wit(json!(null)));
            }
            foots.insert(path.clone(), foot);
        } else {
            env.rep.observe("unreferenced_footered_files", kind);
        }
    }
    for f in &refs {
        if !img.contains_key(f) {
            // `.pos` of a segment without positions would be legitimate; everything else is not
            env.rep.observe("referenced_but_absent", file_kind(f));
            if file_kind(f) != "pos" {
                env.viol(format!("intact:referenced-file-missing:{}", file_kind(f)), json!({"file": f}));
            }
        }
    }

    // ---- 2. damage, 3. version ------------------------------------------------------------------------
    let budget = if thorough { 96 << 20 } else { 48 << 20 };
    let mut version_idx_done: BTreeSet<&'static str> = BTreeSet::new();
    let mut shapes: BTreeSet<String> = BTreeSet::new();
    for (path, foot) in &foots {
        let raw = img[path].as_slice();
        let kind = file_kind(path);
        let fc = FileCtx {
            img: &img,
            path,
            kind,
            raw,
            body_len: foot.body_len,
            crc: foot.crc,
            short_writes,
            sclass: size_class(foot.body_len),
        };
        env.rep.observe("file_kinds", kind);
        env.rep.observe("body_size_classes", fc.sclass);
        env.rep.observe("file_kind x size_class", format!("{kind}|{}", fc.sclass));
        env.rep.count("files_damaged", 1);
        env.rep.count(&format!("files_damaged:{kind}"), 1);
        let before: BTreeSet<&'static str> = env.tally.keys().map(|k| k.0).collect();
        damage_file(&mut env, &fc, budget);
        let idx_level = version_idx_done.insert(kind) || env.rng.chance(1, 8);
        version_sweep(&mut env, &fc, foot, idx_level, base_docs);
        let _ = before;
        for (dmg, _) in env.tally.keys() {
            shapes.insert(format!("{kind}|{}|{dmg}|sw={short_writes}", fc.sclass));
        }
    }
    let Env { tally, copies, idx_copies, body_copies, .. } = env;
    rep.evals(copies);
    rep.count("damaged_copies", copies);
    rep.count("damaged_copies_body_or_truncation(must_detect)", body_copies);
    rep.count("damaged_copies_through_Index::validate_checksum", idx_copies);
    for ((dmg, outcome), n) in &tally {
        rep.observe("damage_kinds", *dmg);
        rep.observe("outcomes", format!("{dmg} -> {outcome}"));
        rep.count(&format!("outcome:{outcome}"), *n);
        rep.count(&format!("damage:{dmg}"), *n);
    }
    for s in shapes {
        rep.nontrivial(s);
    }
    if case < 3 {
        rep.sample(json!({"case": case, "cfg": cfg.describe(), "short_writes": short_writes, "flavor": format!("{flavor:?}"),
            "segments": n_segments, "files": foots.iter().map(|(p, f)| json!([p, f.body_len, f.crc])).collect::<Vec<_>>(),
            "footer_example": foots.values().next().map(|f| f.json.clone()),
            "damaged_copies": copies, "tally": tally.iter().map(|((d, o), n)| json!([d, o, n])).collect::<Vec<_>>()}));
    }
}

/// Validation is repeatable: one live `Index` handle validates the intact index, a file of a
/// committed segment is damaged afterwards (bit flip in the body, truncation, or replacement by
/// another valid file), and the SAME handle - and a freshly opened one - validate again. Every
/// validation has to read the files as they are now.
fn revalidate_case(case: u64, rng: &mut Rng, rep: &mut Report) {
    use tantivy::directory::RamDirectory;
    let ram = RamDirectory::create();
    let cfg = ExecCfg { threads: 1, merge_policy: false, sort: None, budget_per_thread: 15_000_000 };
    let mut ex = match Exec::create(Box::new(ram.clone()), cfg, None) {
        Ok(e) => e,
        Err(e) => {
            rep.violation("api-error:create", json!(e));
            return;
        }
    };
    rep.eval();
    let mut g = HistGen::new();
    for _ in 0..rng.urange(1, 3) {
        for _ in 0..rng.urange(2, 30) {
            ex.step(&Op::Add(g.doc(rng, 3)));
        }
        ex.step(&Op::Commit);
    }
    if rng.bool() {
        ex.step(&Op::DeleteTerm(Pred::Grp(rng.below(3))));
        ex.step(&Op::Commit);
    }
    if let Some(w) = ex.writer.take() {
        let _ = w.wait_merging_threads();
    }
    let index = ex.index.clone();
    let meta = match ram.atomic_read(Path::new("meta.json")) {
        Ok(m) => m,
        Err(e) => {
            rep.violation("revalidate:meta.json-unreadable", json!(e.to_string()));
            return;
        }
    };
    let files: Vec<String> = match meta_referenced_files(&meta) {
        Ok(f) => f.into_iter().map(|(f, _)| f).filter(|f| ram.exists(Path::new(f)).unwrap_or(false)).collect(),
        Err(e) => {
            rep.harness_error(format!("revalidate: {e}"));
            return;
        }
    };
    if files.is_empty() {
        return;
    }
    let rounds = rng.urange(1, 3);
    for round in 0..rounds {
        // (1) intact: nothing reported (also primes whatever the implementation may remember)
        for _ in 0..rng.urange(1, 2) {
            match guarded(|| index.validate_checksum()) {
                Ok(Ok(bad)) if bad.is_empty() => {}
                Ok(Ok(bad)) => {
                    rep.violation("revalidate:intact-index-reported-damaged", json!({"case": case, "round": round, "bad": format!("{bad:?}")}));
                    return;
                }
                Ok(Err(e)) => {
                    rep.violation("revalidate:intact-index-validation-error", json!({"case": case, "err": e.to_string()}));
                    return;
                }
                Err(p) => {
                    rep.violation(format!("revalidate:panic:{}", p.sig()), json!({"case": case, "msg": p.message}));
                    return;
                }
            }
        }
        // (2) damage one file in place
        let victim = rng.pick(&files).clone();
        let vp = PathBuf::from(&victim);
        let orig = match ram.open_read(&vp).and_then(|f| f.read_bytes().map_err(|e| OpenReadError::wrap_io_error(e, vp.clone()))) {
            Ok(b) => b.as_slice().to_vec(),
            Err(e) => {
                rep.harness_error(format!("revalidate: cannot read {victim}: {e}"));
                return;
            }
        };
        let foot = match parse_footer(&orig) {
            Ok(f) => f,
            Err(e) => {
                rep.harness_error(format!("revalidate: footer of {victim}: {e}"));
                return;
            }
        };
        let body_len = foot.body_len;
        let (dmg, damaged): (&str, Vec<u8>) = match rng.below(3) {
            0 if body_len > 0 => {
                let mut d = orig.clone();
                let pos = rng.below(body_len as u64) as usize;
                d[pos] ^= 1 << rng.below(8);
                ("bit-flip-in-body", d)
            }
            1 if orig.len() > 1 => ("truncated", orig[..rng.below(orig.len() as u64 - 1) as usize + 1].to_vec()),
            _ => {
                // another valid file (own footer, own checksum) under this name is not damage
                // the checksum can see: only used when the body is empty
                if body_len == 0 {
                    continue;
                }
                let mut d = orig.clone();
                d[0] = d[0].wrapping_add(1);
                ("first-byte-changed", d)
            }
        };
        if ram.atomic_write(&vp, &damaged).is_err() {
            rep.harness_error(format!("revalidate: cannot overwrite {victim}"));
            return;
        }
        // (3) the same handle and a fresh one must both report exactly this file
        for (who, idx) in [("same-handle", Some(index.clone())), ("fresh-handle", Index::open(ram.clone()).ok())] {
            let Some(idx) = idx else {
                // a damaged file may legitimately prevent opening... not for segment files: meta.json is intact
                rep.violation(format!("revalidate:{who}:open-failed-after-damage"), json!({"case": case, "file": victim}));
                continue;
            };
            match guarded(|| idx.validate_checksum()) {
                Ok(Ok(bad)) => {
                    let got: BTreeSet<String> = bad.iter().map(|p| p.to_string_lossy().to_string()).collect();
                    let want: BTreeSet<String> = [victim.clone()].into_iter().collect();
                    if got != want {
                        let sig = if got.is_empty() {
                            format!("revalidate:{who}:damage-after-an-earlier-validation-not-reported:{dmg}:{}", file_kind(&victim))
                        } else {
                            format!("revalidate:{who}:wrong-set-of-files-reported:{dmg}")
                        };
                        rep.violation(sig, json!({"case": case, "round": round, "file": victim, "reported": got, "file_len": orig.len(), "body_len": body_len}));
                    } else {
                        rep.count("revalidate:damage_reported", 1);
                    }
                }
                // an error naming the problem is acceptable for a truncated file (not clean either way)
                Ok(Err(e)) => {
                    if dmg == "truncated" {
                        rep.count("revalidate:truncation_reported_as_error", 1);
                    } else {
                        rep.violation(format!("revalidate:{who}:validation-error-instead-of-report:{dmg}"), json!({"case": case, "file": victim, "err": e.to_string()}));
                    }
                }
                Err(p) => rep.violation(format!("revalidate:{who}:panic:{}", p.sig()), json!({"case": case, "file": victim, "msg": p.message, "damage": dmg})),
            }
        }
        rep.nontrivial(format!("revalidate:{dmg}:{}:{}", file_kind(&victim), size_class(body_len)));
        // (4) repair in place: clean again (nothing sticks the other way either)
        if ram.atomic_write(&vp, &orig).is_err() {
            return;
        }
        match guarded(|| index.validate_checksum()) {
            Ok(Ok(bad)) if bad.is_empty() => {}
            Ok(Ok(bad)) => rep.violation("revalidate:repaired-file-still-reported", json!({"case": case, "file": victim, "bad": format!("{bad:?}")})),
            Ok(Err(e)) => rep.violation("revalidate:repaired-index-validation-error", json!({"case": case, "err": e.to_string()})),
            Err(p) => rep.violation(format!("revalidate:panic:{}", p.sig()), json!({"case": case, "msg": p.message})),
        }
    }
}

fn main() {
    let ctx = Ctx::from_env("C20", "exploration");
    let thorough = !ctx.quick();
    let n = ctx.scale(24, 1000) as u64;
    let mut rep = run_cases(&ctx, "damage", n, |c, rng, rep| case(c, rng, rep, thorough));
    rep.merge(run_cases(&ctx, "revalidate", ctx.scale(120, 4000) as u64, revalidate_case));
    simple_finish(
        &ctx,
        rep,
        "case = one generated multi-segment index (history workload with deletes and merges on MonDir; storage accepts short writes in every second index); evaluations = indexes + damaged copies validated (ManagedDirectory::validate_checksum / open_read on every copy, Index::open + Index::validate_checksum on a sampled subset incl. the first copy of every (file kind, damage kind)). Files with a body <= 4096 bytes are enumerated completely (every bit, every body/file truncation length, every insert position); larger ones get every byte x one random bit up to 32 KB, beyond that sampled positions plus buffer/block boundaries. Stream `revalidate`: one live Index handle validates the intact index, a file is damaged in place afterwards, the same handle and a fresh one must report exactly that file, and nothing once repaired. Non-trivial = a damaged copy of a file of a committed segment; distinct = (file kind, body size class, damage kind, short_writes).",
        ctx.scale(60, 120),
        &[
            "detection is demanded for every damage of the body and every truncation of the file; for damage confined to the footer bytes only 'no panic and never clean with a different body' is demanded",
            "an undetected damage whose damaged body really has the recorded CRC-32 (inherent 2^-32 collision) is reported under its own signature undetected:crc32-collision",
            "the set of files of a committed segment is derived from meta.json by the harness (idx,pos,term,store,fast,fieldnorm and <opstamp>.del)",
            "footer version: tantivy::INDEX_FORMAT_VERSION / INDEX_FORMAT_OLDEST_SUPPORTED_VERSION are taken as the definition of the supported range",
        ],
    );
}
