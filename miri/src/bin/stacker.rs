use std::collections::BTreeMap;
use tantivy_stacker::{ArenaHashMap, ExpUnrolledLinkedList, MemoryArena};
use tvmiri::*;
fn main() {
    let mut r = Rng(seed());
    // arena hash map with growth and long keys
    let mut map = ArenaHashMap::with_capacity(4);
    let mut model: BTreeMap<Vec<u8>, u32> = BTreeMap::new();
    for i in 0..300u32 {
        let klen = match r.below(10) { 0 => 0, 1 => 200 + r.below(100) as usize, _ => 1 + r.below(6) as usize };
        let key: Vec<u8> = (0..klen).map(|_| b'a' + r.below(3) as u8).collect();
        map.mutate_or_create(&key, |v: Option<u32>| v.unwrap_or(0) + i);
        *model.entry(key).or_insert(0) += i;
    }
    if map.len() != model.len() { mismatch("len"); }
    let mut got: BTreeMap<Vec<u8>, u32> = BTreeMap::new();
    for (k, addr) in map.iter() { got.insert(k.to_vec(), map.read::<u32>(addr)); }
    if got != model { mismatch("content"); }
    for (k, v) in &model { if map.get::<u32>(k) != Some(*v) { mismatch("get"); } }
    // unrolled linked lists interleaved in one arena
    let mut arena = MemoryArena::default();
    let mut lists: Vec<(ExpUnrolledLinkedList, Vec<u8>)> = (0..5).map(|_| (ExpUnrolledLinkedList::default(), vec![])).collect();
    for _ in 0..200 {
        let i = r.below(5) as usize;
        let n = match r.below(6) { 0 => 0, 1 => 300, _ => 1 + r.below(20) as usize };
        let buf: Vec<u8> = (0..n).map(|_| r.next() as u8).collect();
        lists[i].0.writer(&mut arena).extend_from_slice(&buf);
        lists[i].1.extend_from_slice(&buf);
        if r.below(4) == 0 {
            let v = r.next() as u32;
            lists[i].0.writer(&mut arena).write_u32_vint(v);
            let mut x = v;
            loop { let b = (x & 0x7f) as u8; x >>= 7; if x == 0 { lists[i].1.push(b | 0x80); break; } else { lists[i].1.push(b); } }
        }
    }
    for (l, m) in &lists {
        let mut out = vec![];
        l.read_to_end(&arena, &mut out);
        if out.len() != m.len() { mismatch("expull len"); }
    }
    println!("stacker ok keys={} lists=5", model.len());
}
