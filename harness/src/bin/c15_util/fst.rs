// tantivy::termdict stream (included into c15.rs)

use tantivy::postings::TermInfo;
use tantivy::termdict::{TermDictionary, TermDictionaryBuilder};

fn gen_term_infos(rng: &mut Rng, n: usize) -> Vec<TermInfo> {
    let mut post = if rng.bool() { 0usize } else { rng.below(1 << 36) as usize };
    let mut pos = if rng.bool() { 0usize } else { rng.below(1 << 36) as usize };
    let mode = rng.below(3);
    (0..n)
        .map(|_| {
            let (pl, ql) = match mode {
                0 => (rng.below(40) as usize, rng.below(40) as usize),
                1 => (
                    *rng.pick(&[0usize, 1, 255, 256, 65_535, 1 << 20, u32::MAX as usize]),
                    *rng.pick(&[0usize, 0, 3, 1 << 24]),
                ),
                _ => (rng.below(1 << 16) as usize, 0),
            };
            let ti = TermInfo {
                doc_freq: match rng.below(4) {
                    0 => *rng.pick(&[0u32, 1, 127, 128, u32::MAX]),
                    _ => rng.below(5000) as u32,
                },
                postings_range: post..post + pl,
                positions_range: pos..pos + ql,
            };
            post += pl;
            pos += ql;
            ti
        })
        .collect()
}

fn build_fst(keys: &[Vec<u8>], vals: &[TermInfo]) -> Result<Vec<u8>, String> {
    let mut b = TermDictionaryBuilder::create(Vec::new()).map_err(|e| format!("create: {e}"))?;
    for (k, v) in keys.iter().zip(vals) {
        b.insert(k, v).map_err(|e| format!("insert: {e}"))?;
    }
    b.finish().map_err(|e| format!("finish: {e}"))
}

fn open_fst(bytes: Vec<u8>, rng: &mut Rng) -> std::io::Result<TermDictionary> {
    if rng.bool() {
        TermDictionary::open(FileSlice::from(bytes))
    } else {
        let pre = rng.urange(1, 40);
        let post = rng.urange(1, 40);
        let mut padded = rng.bytes(pre);
        let len = bytes.len();
        padded.extend_from_slice(&bytes);
        padded.extend(rng.bytes(post));
        TermDictionary::open(FileSlice::from(padded).slice(pre..pre + len))
    }
}

fn drain_fst<A: Automaton>(mut s: tantivy::termdict::TermStreamer<'_, A>) -> Vec<(Vec<u8>, TermInfo, u64)> {
    let mut out = vec![];
    while s.advance() {
        out.push((s.key().to_vec(), s.value().clone(), s.term_ord()));
    }
    out
}

fn pick_n_fst(rng: &mut Rng, thorough: bool) -> usize {
    const T: &[usize] = &[0, 1, 2, 3, 50, 255, 256, 257, 511, 512, 513, 767, 768, 769, 1024, 1025, 2000];
    match rng.below(10) {
        0..=5 => *rng.pick(T),
        6..=8 => rng.urange(2, 1200),
        _ => {
            if thorough {
                rng.urange(1200, 9000)
            } else {
                rng.urange(0, 30)
            }
        }
    }
}

fn fst_case(case: u64, rng: &mut Rng, rep: &mut Report, thorough: bool) {
    let n = pick_n_fst(rng, thorough);
    let (keys, class) = gen_keys(rng, n);
    let n = keys.len();
    let vals = gen_term_infos(rng, n);
    let mut info = json!({"target": "tantivy::termdict (fst)", "value_type": "TermInfo", "key_class": class, "n": n});
    let bytes = match build_fst(&keys, &vals) {
        Ok(b) => b,
        Err(e) => {
            viol(rep, "fst:api-error:build", json!({"error": e, "witness": dict_witness(&keys, &info)}));
            return;
        }
    };
    info["file_len"] = json!(bytes.len());
    let dict = match open_fst(bytes, rng) {
        Ok(d) => d,
        Err(e) => {
            viol(rep, "fst:api-error:open", json!({"error": e.to_string(), "witness": dict_witness(&keys, &info)}));
            return;
        }
    };
    rep.eval();
    let ti_blocks = n.div_ceil(256);
    rep.observe("fst_term_info_blocks", bucket(ti_blocks));
    rep.observe("fst_n_mod_256", match n % 256 { 0 => "0", 1 => "1", 255 => "255", _ => "other" });
    rep.observe("fst_key_class", class.clone());
    rep.observe("num_keys_class", bucket(n));
    for k in keys.iter().take(3000) {
        rep.observe("key_len_class", len_class(k.len()));
    }
    rep.count("fst_dictionaries", 1);
    rep.count("keys", n as u64);
    let model: BTreeMap<Vec<u8>, (usize, TermInfo)> =
        keys.iter().cloned().zip(vals.iter().cloned().enumerate()).collect();
    let mut fails = Fails::new();
    let mut queries = 0u64;
    // term-info block edges play the role of block boundaries here
    let edges: Vec<usize> = (0..n).step_by(256).collect();

    if dict.num_terms() != n {
        fails.add("fst:num_terms", json!({"got": dict.num_terms(), "expected": n}));
    }
    match dict.stream() {
        Ok(s) => {
            let got = drain_fst(s);
            let expected: Vec<usize> = (0..n).collect();
            cmp_stream(&mut fails, "fst:stream", "fst:stream:wrong-term_ord", &got, &expected, &keys, &vals, None, json!("stream()"));
        }
        Err(e) => fails.add("fst:api-error:stream", json!(e.to_string())),
    }
    queries += 1;

    let probes = gen_probes(rng, &keys, &edges, 40);
    for p in &probes {
        queries += 2;
        let exp = model.get(p);
        match dict.get(p) {
            Ok(got) => {
                if got.as_ref() != exp.map(|e| &e.1) {
                    fails.add("fst:get", json!({"key": brief(p), "got": format!("{got:?}"), "expected": format!("{:?}", exp.map(|e| &e.1))}));
                }
            }
            Err(e) => fails.add("fst:api-error:get", json!({"key": brief(p), "error": e.to_string()})),
        }
        match dict.term_ord(p) {
            Ok(got) => {
                if got != exp.map(|e| e.0 as u64) {
                    fails.add("fst:term_ord", json!({"key": brief(p), "got": got, "expected": exp.map(|e| e.0)}));
                }
            }
            Err(e) => fails.add("fst:api-error:term_ord", json!({"key": brief(p), "error": e.to_string()})),
        }
    }
    let mut ords: Vec<u64> = vec![0, n as u64, n as u64 + 1, (n as u64).saturating_sub(1), u64::MAX];
    for &e in &edges {
        ords.push(e as u64);
        ords.push((e as u64).saturating_sub(1));
        ords.push(e as u64 + 1);
    }
    for _ in 0..20 {
        if n > 0 {
            ords.push(rng.below(n as u64));
        }
    }
    for &o in &ords {
        queries += 1;
        let mut buf = if rng.bool() { vec![] } else { b"dirty-buffer".to_vec() };
        match dict.ord_to_term(o, &mut buf) {
            Ok(found) => {
                let exp = keys.get(o as usize).filter(|_| o < n as u64);
                let ok = match exp {
                    Some(k) => found && &buf == k,
                    None => !found,
                };
                if !ok {
                    fails.add("fst:ord_to_term", json!({"ord": o, "found": found, "got": brief(&buf), "expected": exp.map(|k| brief(k))}));
                }
            }
            Err(e) => fails.add("fst:api-error:ord_to_term", json!({"ord": o, "error": e.to_string()})),
        }
    }

    for _ in 0..36 {
        queries += 1;
        let lo = gen_bound(rng, &probes, true);
        let hi = gen_bound(rng, &probes, false);
        let backward = rng.chance(1, 5);
        let mut expected: Vec<usize> = (0..n).filter(|&i| in_bounds(&keys[i], &lo, &hi)).collect();
        if backward {
            expected.reverse();
        }
        rep.observe("range_shape", format!("fst:{}{}", range_shape(&lo, &hi), if backward { ",backward" } else { "" }));
        rep.observe("range_result", bucket(expected.len()));
        let q = json!({"lower": brief_bound(&lo), "upper": brief_bound(&hi), "backward": backward});
        let mut b = dict.range();
        b = match &lo {
            Bound::Included(k) => b.ge(k),
            Bound::Excluded(k) => b.gt(k),
            Bound::Unbounded => b,
        };
        b = match &hi {
            Bound::Included(k) => b.le(k),
            Bound::Excluded(k) => b.lt(k),
            Bound::Unbounded => b,
        };
        if backward {
            b = b.backward();
        }
        match b.into_stream() {
            Ok(s) => {
                let got = drain_fst(s);
                let tag = if backward { "fst:range-backward" } else { "fst:range" };
                cmp_stream(&mut fails, tag, "fst:range:wrong-term_ord", &got, &expected, &keys, &vals, None, q);
            }
            Err(e) => fails.add("fst:api-error:range", json!({"query": q, "error": e.to_string()})),
        }
    }

    let total_key_bytes: usize = keys.iter().map(|k| k.len()).sum();
    let autos = gen_automata(rng, &keys, if total_key_bytes > 300_000 { 4 } else { 14 });
    for a in &autos {
        queries += 1;
        let (lo, hi) = if rng.chance(1, 3) {
            (gen_bound(rng, &probes, true), gen_bound(rng, &probes, false))
        } else {
            (Bound::Unbounded, Bound::Unbounded)
        };
        let expected: Vec<usize> = (0..n)
            .filter(|&i| in_bounds(&keys[i], &lo, &hi) && naive_match(a, &keys[i]))
            .collect();
        rep.observe("automaton_kind", format!("fst:{}", a.kind()));
        rep.observe("search_result", bucket(expected.len()));
        let q = json!({"automaton": a.describe(), "lower": brief_bound(&lo), "upper": brief_bound(&hi)});
        let mut b = dict.search(a);
        b = match &lo {
            Bound::Included(k) => b.ge(k),
            Bound::Excluded(k) => b.gt(k),
            Bound::Unbounded => b,
        };
        b = match &hi {
            Bound::Included(k) => b.le(k),
            Bound::Excluded(k) => b.lt(k),
            Bound::Unbounded => b,
        };
        match b.into_stream() {
            Ok(s) => {
                let got = drain_fst(s);
                cmp_stream(&mut fails, "fst:search", "fst:search:wrong-term_ord", &got, &expected, &keys, &vals, None, q);
            }
            Err(e) => fails.add("fst:api-error:search", json!({"query": q, "error": e.to_string()})),
        }
    }
    rep.count("queries", queries);
    if n > 256 {
        rep.nontrivial(format!("fst|{}|n{}", class, n));
    }
    if case < 2 {
        rep.sample(json!({"stream": "fst", "dict": info, "queries": queries,
            "first_keys": keys.iter().take(4).map(|k| brief(k)).collect::<Vec<_>>()}));
    }
    for (sig, d) in fails.v {
        viol(rep, sig, json!({"detail": d, "witness": dict_witness(&keys, &info)}));
    }
}
