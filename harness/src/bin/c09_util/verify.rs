//! C09: reading a store back through `StoreReader` in hostile orders and comparing with the model.
use serde_json::{json, Value as J};
use tantivy::fastfield::AliveBitSet;
use tantivy::store::{Compressor, StoreReader, ZstdCompressor};
use tantivy::TantivyDocument;
use tvmon::report::Report;
use tvmon::rng::Rng;

use crate::c09_util::*;

pub fn gen_compressor(rng: &mut Rng) -> Compressor {
    match rng.below(6) {
        0 => Compressor::None,
        1 | 2 => Compressor::Lz4,
        3 => Compressor::Zstd(ZstdCompressor::default()),
        _ => Compressor::Zstd(ZstdCompressor {
            compression_level: Some(*rng.pick(&[1, 5, 12, -1])),
        }),
    }
}

/// a compressor whose blocks the same decompressor reads (needed for stacking)
pub fn same_family(rng: &mut Rng, c: Compressor) -> Compressor {
    match c {
        Compressor::Zstd(_) => Compressor::Zstd(ZstdCompressor {
            compression_level: *rng.pick(&[None, Some(1), Some(5), Some(-1)]),
        }),
        other => other,
    }
}

pub fn comp_name(c: &Compressor) -> String {
    match c {
        Compressor::None => "none".into(),
        Compressor::Lz4 => "lz4".into(),
        Compressor::Zstd(z) => match z.compression_level {
            None => "zstd".into(),
            Some(l) => format!("zstd({l})"),
        },
    }
}

pub fn comp_family(c: &Compressor) -> u8 {
    match c {
        Compressor::None => 0,
        Compressor::Lz4 => 1,
        Compressor::Zstd(_) => 2,
    }
}

pub const BLOCK_SIZES: &[usize] = &[
    0, 1, 8, 16, 64, 100, 256, 1024, 4096, 16383, 16384, 16385, 65536, 1 << 20, 1 << 31,
    u32::MAX as usize,
];

pub struct VTarget<'a> {
    /// model document of each doc id
    pub docs: Vec<&'a MDoc>,
    pub layout: &'a Layout,
    pub origin: &'a str,
    pub cfg: J,
}

fn pick_live_in_block(rng: &mut Rng, lay: &Layout, block: usize, alive: &[bool]) -> Option<u32> {
    let (s, e) = lay.doc_range(block);
    if e <= s {
        return None;
    }
    for _ in 0..6 {
        let d = rng.range(s as u64, e as u64 - 1) as u32;
        if alive[d as usize] {
            return Some(d);
        }
    }
    (s..e).find(|d| alive[*d as usize])
}

/// Adversarial access sequences over the live documents.
pub fn access_orders(
    rng: &mut Rng,
    alive: &[bool],
    lay: &Layout,
    budget: usize,
    full: Option<&'static str>,
) -> Vec<(&'static str, Vec<u32>)> {
    let live: Vec<u32> = (0..alive.len() as u32).filter(|d| alive[*d as usize]).collect();
    let mut out: Vec<(&'static str, Vec<u32>)> = vec![];
    if live.is_empty() {
        return out;
    }
    match full {
        Some("full-desc") => out.push(("full-desc", live.iter().rev().copied().collect())),
        Some("full-asc") => out.push(("full-asc", live.clone())),
        Some(_) => {
            let mut p = live.clone();
            rng.shuffle(&mut p);
            out.push(("full-random-perm", p));
        }
        None => {}
    }
    let nb = lay.nblocks();
    if nb > 0 {
        let mut bd = vec![];
        let cand = [
            0usize, 1, 6, 7, 8, 9, 15, 16, 62, 63, 64, 65, 71, 72, 510, 511, 512, 513, 519, 520,
            4095, 4096, 4097,
            nb.saturating_sub(2),
            nb - 1,
        ];
        for &b in cand.iter() {
            if b < nb {
                let (s, e) = lay.doc_range(b);
                if e > s {
                    bd.push(s);
                    bd.push(e - 1);
                }
            }
        }
        bd.retain(|d| alive[*d as usize]);
        if rng.bool() {
            rng.shuffle(&mut bd);
        } else if rng.bool() {
            bd.reverse();
        }
        if !bd.is_empty() {
            out.push(("block-boundaries", bd));
        }
    }
    if nb >= 2 {
        // ping-pong between two blocks (adjacent across a checkpoint-layer boundary when possible)
        let pairs: Vec<(usize, usize)> = [(7usize, 8usize), (63, 64), (511, 512), (4095, 4096), (0, nb - 1)]
            .iter()
            .copied()
            .filter(|(_, b)| *b < nb)
            .collect();
        let (b1, b2) = if rng.bool() {
            *rng.pick(&pairs)
        } else {
            let a = rng.usize_below(nb);
            let mut b = rng.usize_below(nb);
            if a == b {
                b = (a + 1) % nb;
            }
            (a, b)
        };
        if let (Some(d1), Some(d2)) =
            (pick_live_in_block(rng, lay, b1, alive), pick_live_in_block(rng, lay, b2, alive))
        {
            let mut seq = vec![];
            for _ in 0..5 {
                seq.push(d1);
                seq.push(d2);
            }
            out.push(("ping-pong-2-blocks", seq));
        }
        if nb >= 3 {
            let bs: Vec<usize> = (0..3).map(|_| rng.usize_below(nb)).collect();
            let ds: Vec<u32> =
                bs.iter().filter_map(|b| pick_live_in_block(rng, lay, *b, alive)).collect();
            if ds.len() == 3 {
                let mut seq = vec![];
                for _ in 0..4 {
                    seq.extend(ds.iter().copied());
                }
                out.push(("round-robin-3-blocks", seq));
            }
        }
    }
    let d = *rng.pick(&live);
    out.push(("repeat-same-doc", vec![d, d, d]));
    let k = (budget / 2).clamp(4, 400);
    out.push(("random", (0..k).map(|_| *rng.pick(&live)).collect()));
    for (_, s) in out.iter_mut().skip(if full.is_some() { 1 } else { 0 }) {
        s.truncate(budget.max(4));
    }
    out
}

/// `StoreReader::get` (and `get_document_bytes`) over adversarial access orders.
#[allow(clippy::too_many_arguments)]
pub fn verify_gets(
    rep: &mut Report,
    rng: &mut Rng,
    sch: &Sch,
    reader: &StoreReader,
    cache: usize,
    t: &VTarget,
    alive: &[bool],
    want_full: bool,
    st: &mut CmpStats,
) -> bool {
    let lay = t.layout;
    let mbb = lay.max_block_bytes().max(64);
    let budget = ((10usize << 20) / mbb).clamp(16, 800);
    let nlive = alive.iter().filter(|a| **a).count();
    let full = if !want_full {
        None
    } else if nlive.saturating_mul(mbb) <= (160 << 20) {
        Some(*rng.pick(&["full-desc", "full-asc", "full-random-perm"]))
    } else if cache >= 1 {
        Some(*rng.pick(&["full-desc", "full-asc"]))
    } else {
        None
    };
    for (name, seq) in access_orders(rng, alive, lay, budget, full) {
        rep.observe("access_order", name);
        for (k, d) in seq.iter().copied().enumerate() {
            let got = match reader.get::<TantivyDocument>(d) {
                Ok(g) => g,
                Err(e) => {
                    rep.violation(
                        "store.get:error",
                        json!({"cfg": t.cfg, "origin": t.origin, "cache": cache, "order": name, "doc": d,
                            "ndocs": lay.ndocs, "model_block": lay.block_of(d), "model_blocks": lay.nblocks(), "error": e.to_string()}),
                    );
                    return false;
                }
            };
            rep.count("docs_compared_get", 1);
            if let Some(mm) = check_doc(sch, t.docs[d as usize], &got, st) {
                rep.violation(
                    format!("store.get:{}", mm.what),
                    json!({"cfg": t.cfg, "origin": t.origin, "cache": cache, "order": name, "position_in_order": k, "doc": d,
                        "ndocs": lay.ndocs, "model_block": lay.block_of(d), "model_blocks": lay.nblocks(), "detail": mm.detail}),
                );
                return false;
            }
            if k % 97 == 0 {
                if let Some(mm) = check_to_json(sch, t.docs[d as usize], &got) {
                    rep.violation(
                        format!("store.get:{}", mm.what),
                        json!({"cfg": t.cfg, "origin": t.origin, "doc": d, "detail": mm.detail}),
                    );
                    return false;
                }
                rep.count("to_json_checked", 1);
            }
        }
    }
    true
}

/// `StoreReader::iter(alive_bitset)`: exactly the live documents, in doc-id order.
#[allow(clippy::too_many_arguments)]
pub fn verify_iter(
    rep: &mut Report,
    sch: &Sch,
    reader: &StoreReader,
    cache: usize,
    t: &VTarget,
    bitset: Option<&AliveBitSet>,
    alive: &[bool],
    set_name: &str,
    st: &mut CmpStats,
) -> bool {
    let expected: Vec<u32> = (0..alive.len() as u32).filter(|d| alive[*d as usize]).collect();
    let base = json!({"cfg": t.cfg, "origin": t.origin, "cache": cache, "alive_set": set_name,
        "ndocs": t.layout.ndocs, "live": expected.len(), "model_blocks": t.layout.nblocks()});
    let mut i = 0usize;
    for r in reader.iter::<TantivyDocument>(bitset) {
        let got = match r {
            Ok(g) => g,
            Err(e) => {
                rep.violation("store.iter:error", json!({"ctx": base, "position": i, "error": e.to_string()}));
                return false;
            }
        };
        if i >= expected.len() {
            rep.violation("store.iter:too-many-docs", json!({"ctx": base, "position": i}));
            return false;
        }
        let d = expected[i];
        if let Some(mm) = check_doc(sch, t.docs[d as usize], &got, st) {
            // is it another document of this store?
            let mut tmp = CmpStats::default();
            let other = (0..t.docs.len())
                .find(|&j| j != d as usize && check_doc(sch, t.docs[j], &got, &mut tmp).is_none());
            let what = match other {
                Some(j) if !alive[j] => "deleted-doc-returned".to_string(),
                Some(_) => "wrong-order".to_string(),
                None => mm.what.clone(),
            };
            rep.violation(
                format!("store.iter:{what}"),
                json!({"ctx": base, "position": i, "expected_doc": d, "model_block": t.layout.block_of(d),
                    "matches_other_doc": other, "detail": mm.detail}),
            );
            return false;
        }
        i += 1;
    }
    rep.count("docs_compared_iter", i as u64);
    if i != expected.len() {
        rep.violation("store.iter:too-few-docs", json!({"ctx": base, "yielded": i}));
        return false;
    }
    true
}

pub fn flush_stats(rep: &mut Report, st: &CmpStats) {
    rep.count("values_compared", st.values);
    rep.count("value_nodes_compared", st.json_nodes);
    rep.count("multivalued_fields_compared", st.multi_fields);
    rep.count("obs_cross_field_order_changed", st.cross_field_reordered);
    rep.count("obs_object_key_order_changed", st.object_key_order_changed);
}

pub fn observe_store(
    rep: &mut Report,
    comp: &Compressor,
    bs: usize,
    thread: bool,
    lay: &Layout,
    origin: &str,
    all_ok: bool,
    approx_layout: bool,
) {
    rep.count("stores", 1);
    rep.observe("compressor", comp_name(comp));
    rep.observe("blocksize", bs.to_string());
    rep.observe("dedicated_thread", thread.to_string());
    let tilde = if approx_layout { "~" } else { "" };
    rep.observe("blocks_class", format!("{tilde}{}", blocks_class(lay.nblocks())));
    rep.observe("skip_layers", format!("{tilde}{}", lay.layers()));
    rep.observe("max_docs_per_block", dpb_class(lay.max_docs_per_block()));
    rep.observe("origin", origin);
    if all_ok && lay.nblocks() >= 2 && lay.ndocs >= 2 {
        rep.nontrivial(format!(
            "{origin}|{}|bs{}|b{}|t{}",
            comp_name(comp),
            bs_class(bs),
            blocks_class(lay.nblocks()),
            thread as u8
        ));
    }
}

/// records the value kinds of a model document (top level and nested inside JSON)
pub fn observe_kinds(rep: &mut Report, d: &MDoc) {
    fn rec(rep: &mut Report, v: &MV, depth: usize) {
        match v {
            MV::Arr(a) => {
                rep.observe("value_kind", if a.is_empty() { "nested:empty-array" } else { "nested:array" });
                for x in a {
                    rec(rep, x, depth + 1);
                }
            }
            MV::Obj(o) => {
                if depth > 0 {
                    rep.observe("value_kind", if o.is_empty() { "nested:empty-object" } else { "nested:object" });
                } else if o.is_empty() {
                    rep.observe("value_kind", "empty-object");
                }
                for (_, x) in o {
                    rec(rep, x, depth + 1);
                }
            }
            other if depth > 0 => rep.observe("value_kind", format!("nested:{}", other.kind_name())),
            _ => {}
        }
        if depth == 64 {
            rep.observe("value_kind", "nested:depth>=64");
        }
    }
    rep.observe("doc_profile", d.profile);
    for (_, v) in &d.vals {
        rep.observe("value_kind", v.kind_name());
        rec(rep, v, 0);
    }
}
