//! C13 — every DocSet is one sorted sequence under any mix of advance and seek.
//!
//! case = one generated corpus; for many generated queries a scorer is obtained per segment via
//! `Weight::scorer`, a reference sequence (doc, score) is read from a fresh scorer by plain
//! `advance()`, and generated *legal* call programs on further fresh scorers are checked against it.
#[path = "qshared/mod.rs"]
mod qshared;

use std::collections::BTreeSet;

use qshared::*;
use serde_json::{json, Value};
use tantivy::query::{EnableScoring, Query, Scorer, Weight};
use tantivy::{DocId, SegmentReader, COLLECT_BLOCK_BUFFER_LEN, TERMINATED};
use tantivy_common::TinySet;
use tvmon::report::*;
use tvmon::rng::Rng;

const BLOCK_NUM_TINYBITSETS: usize = 16;
const BLOCK_WINDOW: u32 = 1024;

type Reference = Vec<(DocId, u32)>;

struct Sc<'a> {
    weight: &'a dyn Weight,
    reader: &'a SegmentReader,
}

impl<'a> Sc<'a> {
    fn fresh(&self) -> Result<Box<dyn Scorer>, String> {
        self.weight.scorer(self.reader, 1.0).map_err(|e| format!("{e:?}").chars().take(160).collect())
    }
}

/// docs (and optionally scores) by plain advance; Err = a violation found while reading it
fn read_reference(sc: &mut dyn Scorer, with_scores: bool, max_doc: u32) -> Result<Reference, (String, Value)> {
    let mut out: Reference = vec![];
    let mut doc = sc.doc();
    let mut steps = 0u64;
    while doc != TERMINATED {
        if let Some(last) = out.last() {
            if doc <= last.0 {
                return Err(("reference:not-strictly-increasing".into(), json!({"previous": last.0, "next": doc, "index": out.len()})));
            }
        }
        let s = if with_scores { sc.score().to_bits() } else { 0 };
        out.push((doc, s));
        let r = sc.advance();
        if r != sc.doc() {
            return Err(("advance:return-differs-from-doc()".into(), json!({"returned": r, "doc()": sc.doc()})));
        }
        doc = r;
        steps += 1;
        if steps > max_doc as u64 + 10 {
            return Err(("reference:more-documents-than-max_doc".into(), json!({"max_doc": max_doc, "read": steps})));
        }
    }
    // the end is sticky
    for i in 0..2 {
        let r = sc.advance();
        if r != TERMINATED || sc.doc() != TERMINATED {
            return Err(("terminated-not-sticky[after=advance]".into(), json!({"advance_after_end": r, "doc()": sc.doc(), "attempt": i, "reference_len": out.len()})));
        }
    }
    Ok(out)
}

#[derive(Clone, Debug)]
enum Op {
    Advance,
    Seek(DocId),
    FillBuffer,
    FillBitset(DocId),
    Danger(DocId),
    CountAll,
    CountAlive,
    Hints,
}

impl Op {
    fn kind(&self) -> &'static str {
        match self {
            Op::Advance => "advance",
            Op::Seek(_) => "seek",
            Op::FillBuffer => "fill_buffer",
            Op::FillBitset(_) => "fill_bitset_block",
            Op::Danger(_) => "seek_danger",
            Op::CountAll => "count_including_deleted",
            Op::CountAlive => "count",
            Op::Hints => "size_hint+cost",
        }
    }
    fn json(&self) -> Value {
        match self {
            Op::Seek(t) => json!({"seek": t}),
            Op::FillBitset(t) => json!({"fill_bitset_block": t}),
            Op::Danger(t) => json!({"seek_danger": t}),
            o => json!(o.kind()),
        }
    }
}

fn first_at_or_after(r: &Reference, from: usize, t: DocId) -> usize {
    // first index >= from with doc >= t
    let s = &r[from.min(r.len())..];
    from.min(r.len()) + s.partition_point(|e| e.0 < t)
}

/// a seek / fill target >= cur, biased to +-1 around members and to the 128 / 1024 / 4096 strides
fn pick_target(rng: &mut Rng, r: &Reference, pos: usize, cur: DocId, max_doc: u32) -> DocId {
    if cur == TERMINATED {
        return TERMINATED;
    }
    let clip = |t: i64| -> DocId {
        let t = t.max(cur as i64);
        if t > max_doc as i64 + 1 {
            TERMINATED
        } else {
            t as DocId
        }
    };
    match rng.below(23) {
        0..=6 => {
            // around a member, mostly a near one
            let rem = r.len() - pos;
            if rem == 0 {
                return clip(cur as i64 + 1);
            }
            let span = if rng.chance(2, 3) { rem.min(6) } else { rem };
            let e = r[pos + rng.usize_below(span)].0 as i64;
            clip(e + rng.irange(-1, 1))
        }
        7..=10 => {
            let stride = *rng.pick(&[128i64, 128, 1024, 4096, 4096, 4096, 64]);
            let base = match rng.below(3) {
                0 => 0i64,
                1 => r.first().map(|e| e.0 as i64).unwrap_or(0),
                _ => cur as i64,
            };
            let j = if rng.chance(3, 4) { ((cur as i64 - base).max(0) / stride) + 1 } else { rng.irange(0, (max_doc as i64 / stride) + 1) };
            clip(base + j * stride + rng.irange(-1, 1))
        }
        11 | 12 => clip(cur as i64 + *rng.pick(&[1i64, 2, 63, 64, 65, 127, 128, 129, 1023, 1024, 1025, 4095, 4096, 4097, 8192])),
        13 => clip(max_doc as i64 + rng.irange(-2, 1)),
        14 => TERMINATED,
        15 => cur,
        16 | 17 => {
            // shortly before the end of a 4096-document union window (windows start at the first
            // member, later ones wherever the previous one ran out): a run of advances from there
            // crosses into the next window
            let base = r.first().map(|e| e.0 as i64).unwrap_or(0);
            let j = ((cur as i64 - base).max(0) / 4096) + 1;
            clip(base + j * 4096 - rng.irange(1, 150))
        }
        18 => clip(cur as i64 + rng.irange(100, 3900)),
        _ => clip(rng.irange(cur as i64, max_doc as i64 + 1)),
    }
}

struct Prog<'r> {
    r: &'r Reference,
    pos: usize,
    ops: Vec<Value>,
    kinds: BTreeSet<&'static str>,
    between: bool,
    last: &'static str,
    /// a fill_buffer / seek_danger call was issued on this scorer (including the current call)
    fill_seen: bool,
    danger_seen: bool,
    /// ... before the call that is being checked right now
    fill_before: bool,
    danger_before: bool,
    rounding_diffs: u64,
    /// target of the most recent seek_danger call of the whole program: the documented contract
    /// promises strictly increasing targets to the docset
    last_danger: Option<DocId>,
}

impl<'r> Prog<'r> {
    fn cur(&self) -> DocId {
        self.r.get(self.pos).map(|e| e.0).unwrap_or(TERMINATED)
    }
    /// to be called right before every call into the scorer
    fn begin(&mut self, kind: &'static str) {
        self.fill_before = self.fill_seen;
        self.danger_before = self.danger_seen;
        if kind == "fill_buffer" {
            self.fill_seen = true;
        }
        if kind == "seek_danger" {
            self.danger_seen = true;
        }
    }
    /// Signature tags in a fixed order: the base signature (which names the failing call, for
    /// post-call checks as `[reached-by=<call>]`), then `[fill_buffer-earlier]`, then
    /// `[seek_danger-earlier]` when such a call was issued on this scorer before the failing one.
    fn fail(&self, sig: impl Into<String>, d: Value) -> (String, Value) {
        let n = self.ops.len();
        let mut sig: String = sig.into();
        if self.fill_before {
            sig.push_str("[fill_buffer-earlier]");
        }
        if self.danger_before {
            sig.push_str("[seek_danger-earlier]");
        }
        (sig, json!({"problem": d, "program_tail": self.ops[n.saturating_sub(12)..].to_vec(), "program_len": n,
            "reference_len": self.r.len(), "reference_around": self.r[self.pos.saturating_sub(3)..(self.pos + 4).min(self.r.len())].iter().map(|e| e.0).collect::<Vec<_>>()}))
    }
    /// doc() and (often) score() must agree with the reference at the expected position
    fn check_here(&mut self, sc: &mut dyn Scorer, rng: &mut Rng, scored: bool) -> Result<(), (String, Value)> {
        let cur = self.cur();
        let d = sc.doc();
        if d != cur {
            return Err(self.fail(format!("doc()-differs-from-expected-position[reached-by={}]", self.last), json!({"doc()": d, "expected": cur})));
        }
        if scored && cur != TERMINATED && rng.chance(3, 4) {
            let reps = if rng.chance(1, 5) { 2 } else { 1 };
            for _ in 0..reps {
                let s = sc.score();
                let want = f32::from_bits(self.r[self.pos].1);
                if s.to_bits() != want.to_bits() {
                    let rel = ((s - want).abs() as f64) / (want.abs().max(f32::MIN_POSITIVE) as f64);
                    if s.is_finite() && want.is_finite() && rel <= 1e-6 {
                        // summation-order rounding inside score combiners: recorded, not a violation
                        self.rounding_diffs += 1;
                    } else {
                        return Err(self.fail(
                            format!("score-differs-from-reference[reached-by={}]", self.last),
                            json!({"doc": cur, "score": s, "reference_score": want}),
                        ));
                    }
                }
            }
        }
        Ok(())
    }
}

fn parse_danger(s: &str) -> Option<Option<DocId>> {
    if s == "Found" {
        return Some(None);
    }
    let inner = s.strip_prefix("SeekLowerBound(")?.strip_suffix(')')?;
    inner.trim().parse::<u32>().ok().map(Some)
}

/// runs one generated legal program; returns Err((signature, witness)) on the first contradiction
fn run_program(
    rng: &mut Rng,
    sc: &mut dyn Scorer,
    r: &Reference,
    reader: &SegmentReader,
    scored: bool,
    rep_ops: &mut Vec<(&'static str, u64)>,
    last_call: &mut &'static str,
) -> Result<(bool, BTreeSet<&'static str>, u64), (String, Value)> {
    let max_doc = reader.max_doc();
    let mut p = Prog { r, pos: 0, ops: vec![], kinds: BTreeSet::new(), between: false, last: "new", fill_seen: false, danger_seen: false, fill_before: false, danger_before: false, rounding_diffs: 0, last_danger: None };
    p.check_here(sc, rng, scored)?;
    let len = rng.urange(3, 40);
    // 0: seek-heavy 1: fill-heavy 2: danger-heavy 6: advance/seek only with long advance runs
    // (walks across union windows; no fill_buffer / seek_danger, so nothing is tagged)  else mixed
    let style = rng.below(7);
    let mut i = 0;
    while i < len {
        i += 1;
        let cur = p.cur();
        let w: [u32; 8] = match style {
            0 => [10, 60, 3, 3, 8, 1, 1, 2],
            1 => [10, 15, 30, 30, 5, 1, 1, 2],
            2 => [10, 15, 3, 3, 60, 1, 1, 2],
            6 => [45, 50, 0, 0, 0, 0, 0, 5],
            _ => [25, 30, 8, 8, 9, 2, 1, 2],
        };
        let op = match rng.weighted(&w) {
            0 => Op::Advance,
            1 => Op::Seek(pick_target(rng, r, p.pos, cur, max_doc)),
            2 => Op::FillBuffer,
            3 => {
                if cur == TERMINATED {
                    Op::Advance
                } else {
                    let t = pick_target(rng, r, p.pos, cur, max_doc);
                    // min_doc + BLOCK_WINDOW must stay a document id
                    Op::FillBitset(if t == TERMINATED { cur } else { t })
                }
            }
            4 => {
                // on an exhausted docset a chain cannot come back to a valid state: rare
                if cur == TERMINATED && !rng.chance(1, 10) {
                    Op::Seek(TERMINATED)
                } else {
                    Op::Danger(0)
                }
            }
            5 => Op::CountAll,
            6 => {
                if reader.alive_bitset().is_some() {
                    Op::CountAlive
                } else {
                    Op::CountAll
                }
            }
            _ => Op::Hints,
        };
        p.kinds.insert(op.kind());
        match op {
            Op::Advance => {
                // sometimes a long run: it walks through block and window boundaries
                let run = if rng.chance(if style == 6 { 1 } else { 0 }, 2) || rng.chance(1, 8) { rng.urange(10, 220) } else { 1 };
                p.ops.push(if run == 1 { op.json() } else { json!({"advance_times": run}) });
                for _ in 0..run {
                    let cur = p.cur();
                    p.begin("advance");
                    let ret = sc.advance();
                    if p.pos < r.len() {
                        p.pos += 1;
                    }
                    p.last = "advance";
                    if ret != p.cur() {
                        return Err(p.fail(
                            if cur == TERMINATED { "terminated-not-sticky[advance]".to_string() } else { "advance:unexpected-document".to_string() },
                            json!({"returned": ret, "expected": p.cur(), "from": cur}),
                        ));
                    }
                    p.check_here(sc, rng, scored)?;
                    if p.cur() == TERMINATED {
                        break;
                    }
                }
            }
            Op::Seek(t) => {
                p.ops.push(op.json());
                p.begin("seek");
                let ret = sc.seek(t);
                let np = first_at_or_after(r, p.pos, t);
                if t < TERMINATED && r.get(np).map(|e| e.0 != t).unwrap_or(false) && t > cur {
                    p.between = true;
                }
                p.pos = np;
                p.last = "seek";
                if ret != p.cur() {
                    let how = if cur == TERMINATED {
                        "terminated-not-sticky[seek]".to_string()
                    } else if r[p.pos.min(r.len())..].iter().any(|e| e.0 == ret) || ret == TERMINATED {
                        "seek:skipped-past-first-member>=target".to_string()
                    } else if ret < t {
                        "seek:landed-below-target".to_string()
                    } else {
                        "seek:landed-on-non-member".to_string()
                    };
                    return Err(p.fail(how, json!({"target": t, "returned": ret, "expected": p.cur(), "from": cur})));
                }
                p.check_here(sc, rng, scored)?;
            }
            Op::FillBuffer => {
                p.ops.push(op.json());
                let mut buf = [0u32; COLLECT_BLOCK_BUFFER_LEN];
                p.begin("fill_buffer");
                let n = sc.fill_buffer(&mut buf);
                let want_n = (r.len() - p.pos).min(COLLECT_BLOCK_BUFFER_LEN);
                let want: Vec<DocId> = r[p.pos..p.pos + want_n].iter().map(|e| e.0).collect();
                p.last = "fill_buffer";
                if n != want_n || buf[..n.min(COLLECT_BLOCK_BUFFER_LEN)] != want[..] {
                    return Err(p.fail(
                        "fill_buffer:unexpected-content",
                        json!({"returned_len": n, "expected_len": want_n, "got_head": buf[..n.min(8)].to_vec(), "expected_head": want[..want_n.min(8)].to_vec(), "from": cur}),
                    ));
                }
                p.pos += want_n;
                p.check_here(sc, rng, scored)?;
            }
            Op::FillBitset(min_doc) => {
                p.ops.push(op.json());
                let mut mask = [TinySet::empty(); BLOCK_NUM_TINYBITSETS];
                p.begin("fill_bitset_block");
                let ret = sc.fill_bitset_block(min_doc, &mut mask);
                let horizon = min_doc + BLOCK_WINDOW;
                let a = first_at_or_after(r, p.pos, min_doc);
                let b = first_at_or_after(r, p.pos, horizon);
                let want: Vec<DocId> = r[a..b].iter().map(|e| e.0).collect();
                let mut got: Vec<DocId> = vec![];
                for (k, ts) in mask.iter().enumerate() {
                    for bit in ts.into_iter() {
                        got.push(min_doc + k as u32 * 64 + bit);
                    }
                }
                if min_doc > cur && r.get(a).map(|e| e.0 != min_doc).unwrap_or(false) {
                    p.between = true;
                }
                p.pos = b;
                p.last = "fill_bitset_block";
                if got != want {
                    return Err(p.fail(
                        "fill_bitset_block:unexpected-mask",
                        json!({"min_doc": min_doc, "got_len": got.len(), "expected_len": want.len(),
                            "first_difference": got.iter().zip(want.iter()).find(|(x, y)| x != y).map(|(x, y)| json!([x, y]))}),
                    ));
                }
                if ret != p.cur() {
                    return Err(p.fail("fill_bitset_block:unexpected-return", json!({"min_doc": min_doc, "returned": ret, "expected": p.cur()})));
                }
                p.check_here(sc, rng, scored)?;
            }
            Op::Danger(_) => {
                // a chain of seek_danger calls with strictly increasing targets; every target is
                // >= the lower bound returned before; the chain ends on Found (valid state again)
                // or the program ends.
                let mut lower: DocId = cur; // next target must be >= lower
                let mut prev_t: Option<DocId> = p.last_danger;
                // variant used by tantivy itself (Exclude::new, BufferedUnionScorer::seek_danger
                // forwarding): first target below doc() but above the previous member
                let below_lo = {
                    let after_member = if p.pos == 0 { 0 } else { r[p.pos - 1].0 + 1 };
                    match p.last_danger {
                        Some(t) if t < TERMINATED => after_member.max(t + 1),
                        Some(_) => TERMINATED,
                        None => after_member,
                    }
                };
                let below = cur != TERMINATED && rng.chance(1, 8) && below_lo < cur;
                let mut steps = 0;
                loop {
                    steps += 1;
                    let min_t = match prev_t {
                        Some(t) => (t + 1).max(lower),
                        None => lower,
                    };
                    if prev_t == Some(TERMINATED) || min_t > TERMINATED {
                        // cannot be brought back to a valid state: the program ends here
                        let (b, k, rd) = (p.between, p.kinds.clone(), p.rounding_diffs);
                        rep_ops.push(("seek_danger_chain_left_invalid", 1));
                        return Ok((b, k, rd));
                    }
                    let t: DocId = if steps == 1 && below {
                        rng.range(below_lo as u64, cur as u64 - 1) as DocId
                    } else {
                        // member at or after min_t?
                        let k = first_at_or_after(r, p.pos, min_t);
                        let want_member = steps >= 3 || rng.chance(if steps == 1 { 1 } else { 3 }, if steps == 1 { 2 } else { 4 });
                        if want_member && k < r.len() {
                            let span = (r.len() - k).min(if rng.bool() { 3 } else { 64 });
                            r[k + rng.usize_below(span)].0
                        } else if min_t == TERMINATED || (k >= r.len() && rng.chance(1, 2)) {
                            TERMINATED
                        } else {
                            let mut t = pick_target(rng, r, k.min(r.len()), min_t, max_doc).max(min_t);
                            // mostly stay below the last member, so that the chain can still end
                            // on Found; 1 in 8 chains may run past the end
                            if let Some(last) = r.last() {
                                if t >= last.0 && k < r.len() && !rng.chance(1, 8) {
                                    let e = r[k + rng.usize_below((r.len() - k).min(4))].0;
                                    t = if e > min_t { e - 1 } else { e };
                                }
                            }
                            t
                        }
                    };
                    p.ops.push(Op::Danger(t).json());
                    p.last_danger = Some(t);
                    *last_call = if steps == 1 && below { "seek_danger[target-below-doc]" } else { "seek_danger" };
                    p.begin("seek_danger");
                    let res = format!("{:?}", sc.seek_danger(t));
                    *last_call = "other";
                    let parsed = match parse_danger(&res) {
                        Some(x) => x,
                        None => {
                            rep_ops.push(("seek_danger_result_unparsable", 1));
                            let (b, k, rd) = (p.between, p.kinds.clone(), p.rounding_diffs);
                            return Ok((b, k, rd));
                        }
                    };
                    let tag = if steps == 1 && below { "[target-below-doc]" } else { "" };
                    // membership among the not yet consumed members
                    let k = first_at_or_after(r, p.pos, t);
                    let is_member = t < TERMINATED && k < r.len() && r[k].0 == t;
                    p.last = "seek_danger";
                    match parsed {
                        None => {
                            if !is_member {
                                return Err(p.fail(format!("seek_danger:Found-for-non-member{tag}"), json!({"target": t, "result": res})));
                            }
                            p.pos = k;
                            p.check_here(sc, rng, scored)?;
                            break;
                        }
                        Some(lb) => {
                            if is_member {
                                return Err(p.fail(format!("seek_danger:member-not-Found{tag}"), json!({"target": t, "result": res})));
                            }
                            let next_member = r.get(k).map(|e| e.0).unwrap_or(TERMINATED);
                            if t == TERMINATED {
                                if lb < TERMINATED {
                                    return Err(p.fail("seek_danger:TERMINATED-target-lower-bound-below-TERMINATED", json!({"result": res})));
                                }
                            } else if lb <= t {
                                return Err(p.fail(format!("seek_danger:lower-bound-not-above-target{tag}"), json!({"target": t, "result": res})));
                            } else if lb > next_member {
                                return Err(p.fail(
                                    format!("seek_danger:lower-bound-beyond-next-member{tag}"),
                                    json!({"target": t, "result": res, "next_member": next_member, "doc_before_call": cur}),
                                ));
                            }
                            if t > cur && t < TERMINATED {
                                p.between = true;
                            }
                            // members below the target are gone for good
                            p.pos = k;
                            lower = lb;
                            prev_t = Some(t);
                        }
                    }
                }
            }
            Op::CountAll => {
                p.ops.push(op.json());
                p.begin("count_including_deleted");
                let n = sc.count_including_deleted();
                let want = (r.len() - p.pos) as u32;
                if n != want {
                    return Err(p.fail("count_including_deleted:unexpected", json!({"returned": n, "expected": want, "from": cur})));
                }
                break; // consumes the docset
            }
            Op::CountAlive => {
                p.ops.push(op.json());
                let alive = reader.alive_bitset().unwrap();
                p.begin("count");
                let n = sc.count(alive);
                let want = r[p.pos..].iter().filter(|e| alive.is_alive(e.0)).count() as u32;
                if n != want {
                    return Err(p.fail("count(alive):unexpected", json!({"returned": n, "expected": want, "from": cur})));
                }
                break;
            }
            Op::Hints => {
                p.ops.push(op.json());
                p.begin("size_hint+cost");
                let _ = sc.size_hint();
                let _ = sc.cost();
                p.check_here(sc, rng, scored)?;
            }
        }
    }
    Ok((p.between, p.kinds, p.rounding_diffs))
}

fn scorer_case(
    rep: &mut Report,
    rng: &mut Rng,
    q: &Q,
    tq: &dyn Query,
    searcher: &tantivy::Searcher,
    corpus: &Corpus,
    nprog: usize,
    sample: bool,
) {
    let scored = rng.chance(3, 4);
    let weight = {
        let es = if scored { EnableScoring::enabled_from_searcher(searcher) } else { EnableScoring::disabled_from_searcher(searcher) };
        match guarded(|| tq.weight(es)) {
            Ok(Ok(w)) => w,
            Ok(Err(_)) => {
                rep.count("queries_refused_by_weight()", 1);
                return;
            }
            Err(p) => {
                panic_violation(rep, &p, q, "weight", corpus);
                return;
            }
        }
    };
    let mut kinds = BTreeSet::new();
    q.kinds(&mut kinds);
    // the largest segment, and one more
    let mut ords: Vec<usize> = (0..searcher.segment_readers().len()).collect();
    ords.sort_by_key(|&o| std::cmp::Reverse(searcher.segment_reader(o as u32).max_doc()));
    if ords.len() > 2 {
        let extra = ords[1 + rng.usize_below(ords.len() - 1)];
        ords.truncate(1);
        ords.push(extra);
    }
    for ord in ords {
        let reader = searcher.segment_reader(ord as u32);
        let sc = Sc { weight: weight.as_ref(), reader };
        let max_doc = reader.max_doc();
        // ---- reference ------------------------------------------------------------------------
        let reference = match guarded(|| -> Result<Result<Reference, (String, Value)>, String> {
            let mut s = sc.fresh()?;
            Ok(read_reference(s.as_mut(), scored, max_doc))
        }) {
            Ok(Ok(Ok(r))) => r,
            Ok(Ok(Err((sig, d)))) => {
                push_violation(rep, sig, json!({"query": q.json(), "scoring": scored, "segment_max_doc": max_doc, "corpus": corpus.describe(), "detail": d}));
                continue;
            }
            Ok(Err(_)) => {
                rep.count("queries_refused_by_scorer()", 1);
                continue;
            }
            Err(p) => {
                panic_violation(rep, &p, q, "reference", corpus);
                continue;
            }
        };
        // a second reading that never calls score(): the documents must be the same
        match guarded(|| -> Result<Result<Reference, (String, Value)>, String> {
            let mut s = sc.fresh()?;
            Ok(read_reference(s.as_mut(), false, max_doc))
        }) {
            Ok(Ok(Ok(r2))) => {
                if r2.len() != reference.len() || r2.iter().zip(reference.iter()).any(|(a, b)| a.0 != b.0) {
                    push_violation(
                        rep,
                        "reference:documents-depend-on-calling-score()".into(),
                        json!({"query": q.json(), "scoring": scored, "with_score_len": reference.len(), "without_score_len": r2.len(), "corpus": corpus.describe()}),
                    );
                    continue;
                }
            }
            Ok(Ok(Err((sig, d)))) => {
                push_violation(rep, sig, json!({"query": q.json(), "scoring": scored, "corpus": corpus.describe(), "detail": d}));
                continue;
            }
            Ok(Err(_)) => continue,
            Err(p) => {
                panic_violation(rep, &p, q, "reference", corpus);
                continue;
            }
        }
        rep.count("scorers", 1);
        rep.count("reference_documents", reference.len() as u64);
        rep.observe(
            "reference_shape",
            format!(
                "{}|seg:{}",
                match reference.len() {
                    0 => "empty",
                    1 => "one",
                    2..=128 => "2-128",
                    129..=4096 => "129-4096",
                    _ => ">4096",
                },
                match max_doc {
                    0..=128 => "<=128",
                    129..=4096 => "129-4096",
                    4097..=8192 => "4097-8192",
                    _ => ">8192",
                }
            ),
        );
        if reference.len() as u32 == max_doc {
            rep.count("scorers_matching_every_doc", 1);
        }
        for k in &kinds {
            rep.observe("query_kind", k.clone());
        }
        // ---- programs -------------------------------------------------------------------------
        for pi in 0..nprog {
            rep.eval();
            rep.count("programs", 1);
            let mut prng = rng.fork();
            let mut extra: Vec<(&'static str, u64)> = vec![];
            let mut last_call: &'static str = "other";
            let res = guarded(|| -> Result<Result<(bool, BTreeSet<&'static str>, u64), (String, Value)>, String> {
                let mut s = sc.fresh()?;
                Ok(run_program(&mut prng, s.as_mut(), &reference, reader, scored, &mut extra, &mut last_call))
            });
            for (k, n) in extra {
                rep.count(k, n);
            }
            match res {
                Ok(Ok(Ok((between, opk, rd)))) => {
                    for k in &opk {
                        rep.observe("program_op", *k);
                        rep.count(&format!("programs_with:{k}"), 1);
                    }
                    if rd > 0 {
                        rep.count("score_rounding_level_differences", rd);
                    }
                    if between {
                        let ops: Vec<&str> = opk.iter().copied().collect();
                        rep.nontrivial(format!("{}|{}|{}|{}", q.shape(), ops.join(","), corpus.class, if scored { "s" } else { "n" }));
                        rep.count("programs_with_a_seek_strictly_between_members", 1);
                    }
                    if sample && pi == 0 {
                        rep.sample(json!({"query": q.json(), "scoring": scored, "segment_max_doc": max_doc,
                            "reference_len": reference.len(), "op_kinds": opk.iter().collect::<Vec<_>>(), "corpus": corpus.describe()}));
                    }
                }
                Ok(Ok(Err((sig, d)))) => {
                    push_violation(
                        rep,
                        full_signature(q, &sig),
                        json!({"query": q.json(), "scoring": scored, "segment_max_doc": max_doc, "corpus": corpus.describe(), "detail": d}),
                    );
                }
                Ok(Err(_)) => {
                    rep.count("queries_refused_by_scorer()", 1);
                }
                Err(p) => {
                    // a panic raised directly by the harness' own below-doc seek_danger call is
                    // tagged: that calling pattern is tantivy's (Exclude / union forwarding), but
                    // here it is the harness that issued it
                    let during = if last_call == "seek_danger[target-below-doc]" { "program[direct seek_danger target-below-doc]" } else { "program" };
                    panic_violation(rep, &p, q, during, corpus)
                }
            }
        }
    }
}

fn union_like(q: &Q) -> bool {
    match q {
        Q::DisMax(qs, _) => qs.len() >= 2,
        Q::Bool { clauses, .. } => clauses.iter().filter(|c| c.0 == Oc::Should).count() >= 2,
        // a term set over several fields is a union of one automaton scorer per field
        Q::TermSet { text, typed } => {
            let mut fields: BTreeSet<String> = text.iter().map(|t| t.0.name().to_string()).collect();
            fields.extend(typed.iter().map(|t| typed_name(t.0, t.1)));
            fields.len() >= 2
        }
        _ => false,
    }
}

fn contains_union(q: &Q) -> bool {
    if union_like(q) {
        return true;
    }
    match q {
        Q::Boost(c, _) | Q::Const(c, _) => contains_union(c),
        Q::DisMax(qs, _) => qs.iter().any(contains_union),
        Q::Bool { clauses, .. } => clauses.iter().any(|c| contains_union(&c.1)),
        _ => false,
    }
}

/// coarse, seed-stable class of the scorer tree a query produces: does a union sit below a
/// conjunction / exclusion (where it is driven by seek_danger), is there a union at all
fn structure_tag(q: &Q) -> &'static str {
    fn under_conj(q: &Q) -> bool {
        match q {
            Q::Boost(c, _) | Q::Const(c, _) => under_conj(c),
            Q::DisMax(qs, _) => qs.iter().any(under_conj),
            Q::Bool { clauses, msm } => {
                let conj = clauses.iter().any(|c| c.0 != Oc::Should) || msm.map(|m| m >= 2).unwrap_or(false);
                let n_incl = clauses.iter().filter(|c| c.0 != Oc::MustNot).count();
                if conj && (n_incl >= 2 || clauses.iter().any(|c| c.0 == Oc::MustNot)) {
                    // a union leg, or the should-union next to must clauses
                    let should_union = clauses.iter().filter(|c| c.0 == Oc::Should).count() >= 2;
                    if should_union || clauses.iter().any(|c| contains_union(&c.1)) {
                        return true;
                    }
                }
                clauses.iter().any(|c| under_conj(&c.1))
            }
            _ => false,
        }
    }
    if under_conj(q) {
        "union-under-conjunction"
    } else if contains_union(q) {
        "union"
    } else {
        "no-union"
    }
}

/// Does the query contain a union one of whose legs answers a missed `seek_danger` by standing on
/// a position it has not verified (phrase / phrase-prefix / regex-phrase scorers: candidate
/// document whose positions were not checked; intersections: legs not aligned)?  Only such legs
/// can be misread by BufferedUnionScorer::seek_danger -> self.seek() (known finding); term,
/// bitset, range, exists, exclude and disjunction legs use the default seek_danger and stay valid.
fn union_with_unverified_leg(q: &Q) -> bool {
    fn unverifying(q: &Q) -> bool {
        match q {
            Q::Phrase { .. } | Q::RegexPhrase { .. } => true,
            Q::PhrasePrefix { terms, .. } => !terms.is_empty(),
            Q::Boost(c, _) | Q::Const(c, _) => unverifying(c),
            // an intersection (>= 2 required legs, or required legs next to a required union)
            Q::Bool { clauses, .. } => {
                let n_must = clauses.iter().filter(|c| c.0 == Oc::Must).count();
                let n_should = clauses.iter().filter(|c| c.0 == Oc::Should).count();
                (n_must >= 2 || (n_must >= 1 && n_should >= 1)) || clauses.iter().any(|c| c.0 != Oc::MustNot && unverifying(&c.1))
            }
            Q::DisMax(qs, _) => qs.iter().any(unverifying),
            _ => false,
        }
    }
    let here = match q {
        Q::DisMax(qs, _) if qs.len() >= 2 => qs.iter().any(unverifying),
        Q::Bool { clauses, .. } if clauses.iter().filter(|c| c.0 == Oc::Should).count() >= 2 => {
            clauses.iter().any(|c| c.0 == Oc::Should && unverifying(&c.1))
        }
        _ => false,
    };
    here || match q {
        Q::Boost(c, _) | Q::Const(c, _) => union_with_unverified_leg(c),
        Q::DisMax(qs, _) => qs.iter().any(union_with_unverified_leg),
        Q::Bool { clauses, .. } => clauses.iter().any(|c| union_with_unverified_leg(&c.1)),
        _ => false,
    }
}

/// `[<structure>]<signature>[<tags>]`; the last tag says that the union is driven through
/// seek_danger by the enclosing conjunction / exclusion itself (no harness call needed) and has a
/// leg of the kind described at `union_with_unverified_leg`
fn full_signature(q: &Q, sig: &str) -> String {
    let st = structure_tag(q);
    let internal = st == "union-under-conjunction" && union_with_unverified_leg(q);
    format!("[{st}]{sig}{}", if internal { "[seek_danger-internal]" } else { "" })
}

fn panic_violation(rep: &mut Report, p: &PanicInfo, q: &Q, during: &str, corpus: &Corpus) {
    if p.in_harness() {
        rep.harness_error(format!("panic in harness at {}: {}", p.location, p.message));
    } else {
        let sig = if during.contains("target-below-doc") { format!("{}[target-below-doc]", p.sig()) } else { p.sig() };
        push_violation(
            rep,
            sig,
            json!({"panic_location": p.location, "panic_message": p.message, "query": q.json(), "during": during, "corpus": corpus.describe()}),
        );
    }
}

/// at most a few witnesses per signature and thread
fn push_violation(rep: &mut Report, sig: String, detail: Value) {
    let n = rep.violations.iter().filter(|v| v.sig == sig).count();
    if n >= 3 {
        rep.count("violations_beyond_3_per_signature_and_thread", 1);
        return;
    }
    rep.violation(sig, detail);
}


/// Watchdog: a generated case that never returns (a docset that stops making progress) must not
/// hang the check. After a generous wall-clock limit the run is reported INCONCLUSIVE (exit 2)
/// together with the cases still in flight; it is never reported as "held".
static IN_FLIGHT: std::sync::Mutex<Vec<u64>> = std::sync::Mutex::new(Vec::new());

struct InFlight(u64);
impl InFlight {
    fn enter(case: u64) -> InFlight {
        IN_FLIGHT.lock().unwrap_or_else(|e| e.into_inner()).push(case);
        InFlight(case)
    }
}
impl Drop for InFlight {
    fn drop(&mut self) {
        let mut g = IN_FLIGHT.lock().unwrap_or_else(|e| e.into_inner());
        if let Some(i) = g.iter().position(|c| *c == self.0) {
            g.remove(i);
        }
    }
}

fn start_watchdog(prop: &'static str, limit: std::time::Duration, seed: u64) {
    std::thread::spawn(move || {
        std::thread::sleep(limit);
        let cases = IN_FLIGHT.lock().unwrap_or_else(|e| e.into_inner()).clone();
        println!(
            "INCONCLUSIVE property={prop} watchdog: cases {cases:?} (stream main, seed {seed}) still running after {}s - a call into tantivy does not return (possible non-termination); replay one of them with --replay to investigate",
            limit.as_secs()
        );
        std::process::exit(2);
    });
}

fn run_case(case: u64, rng: &mut Rng, rep: &mut Report, quick: bool) {
    let _in_flight = InFlight::enter(case);
    let cfg = if quick {
        CorpusCfg { max_big: 4600, class_weights: [2, 4, 4, 3, 3] }
    } else {
        CorpusCfg { max_big: 10_000, class_weights: [2, 4, 4, 3, 3] }
    };
    let corpus = gen_corpus(rng, &cfg);
    rep.observe("corpus_class", corpus.class_key());
    rep.count("corpora", 1);
    let mut built = match guarded(|| build_index(&corpus)) {
        Ok(Ok(b)) => b,
        Ok(Err(e)) => {
            rep.violation("api-error:index-build", json!({"error": e, "corpus": corpus.describe()}));
            return;
        }
        Err(p) => {
            if p.in_harness() {
                rep.harness_error(format!("panic in harness at {}: {}", p.location, p.message));
            } else {
                rep.violation(p.sig(), json!({"panic_location": p.location, "panic_message": p.message, "corpus": corpus.describe()}));
            }
            return;
        }
    };
    if rng.chance(1, 5) {
        if let Ok(Ok(n)) = guarded(|| built.merge(None)) {
            if n > 0 {
                rep.count("corpora_merged_before_use", 1);
            }
        }
    }
    let searcher = built.searcher();
    let gen = QGen { corpus: &corpus, extra_kinds: true, max_depth: 3 };
    let nq = if quick { 40 } else { 110 };
    let nprog = if quick { 4 } else { 6 };
    for i in 0..nq {
        let q = match i % 5 {
            0 | 1 => gen.template(rng),
            2 => gen.leaf(rng),
            _ => gen.query(rng, 1 + (i % 3)),
        };
        let tq = match q.build(&built.fields) {
            Ok(t) => t,
            Err(_) => {
                rep.count("queries_refused_by_constructor", 1);
                continue;
            }
        };
        scorer_case(rep, rng, &q, tq.as_ref(), &searcher, &corpus, nprog, case < 2 && i == 3);
    }
}

fn main() {
    let ctx = Ctx::from_env("C13", "exploration");
    let quick = ctx.quick();
    if ctx.replay.is_none() {
        start_watchdog("C13", std::time::Duration::from_secs(std::env::var("VERIF_WATCHDOG_SECS").ok().and_then(|v| v.parse().ok()).unwrap_or(if quick { 240 } else { 1500 })), ctx.seed);
    }
    let n = ctx.scale(60, 600) as u64;
    let rep = run_cases(&ctx, "main", n, |case, rng, rep| run_case(case, rng, rep, quick));
    simple_finish(
        &ctx,
        rep,
        "evaluation = one generated legal call program (3-40 calls of advance / seek(t>=doc) / seek(doc) / seek(TERMINATED) / fill_buffer / fill_bitset_block(min_doc>=doc) / seek_danger chains / count_including_deleted / count(alive) / size_hint+cost, each followed by doc() and usually score()) on a fresh scorer from Weight::scorer(segment, 1.0), checked call by call against the (doc, score) sequence read from another fresh scorer by plain advance. Queries: term, all, empty, bitset (range/term-set/fuzzy/regex), buffered unions (term and boxed), SimpleUnion/BitSetPostingUnion via RegexPhraseQuery, intersections with >=3 legs, exclude single/multi, required-optional, minimum-should-match disjunction, phrase, phrase-prefix, fast-field range, exists, boost/const wrappers, nestings to depth 3, scoring enabled and disabled; corpora up to >8192 documents per segment, with deletes / sorted / merged. Non-trivial = the program contains a seek, fill_bitset_block or seek_danger whose target lies strictly between two members; distinct = query-kind tree shape x op-kind set x corpus class x scoring.",
        ctx.scale(500, 20_000),
        &[
            "legal programs only: seek targets >= doc(); on a terminated docset only seek(TERMINATED); fill_bitset_block only on a non-terminated docset with min_doc >= doc(); seek_danger targets strictly increasing and >= the previous lower bound, after a non-Found result only seek_danger until Found (else the program ends); count* ends the program",
            "seek_danger with a first target below doc() (but above the previous member) is generated in 1/8 of the chains because tantivy itself calls it that way (Exclude::new, BufferedUnionScorer::seek_danger forwarding); such findings carry the tag [target-below-doc]",
            "signature = [structure]problem[reached-by=<call>][fill_buffer-earlier][seek_danger-earlier][seek_danger-internal]: the -earlier tags say that such a call was issued on this scorer before the failing call; seek_danger-internal marks a union with a phrase / phrase-prefix / intersection leg below a conjunction or exclusion, which drives it through seek_danger by itself",
            "SeekDangerResult is not re-exported: it is read through its Debug rendering; BLOCK_NUM_TINYBITSETS = 16 is hard-coded",
            "a score that differs from the reference by <= 1e-6 relative (summation order inside score combiners) is counted, not reported",
            "size_hint() and cost() are called but not checked",
        ],
    );
}
