//! Run context, case runner, verdicts, evidence and known-findings handling shared by all checks.
//!
//! Verdicts are three-valued:
//!   exit 0  held on everything observed (known findings are printed as KNOWN-FINDING lines)
//!   exit 1  violation (a `VIOLATION property=<id> replay=<path>` line per distinct signature)
//!   exit 2  inconclusive (too few non-trivial cases, harness error, watchdog)

use std::cell::RefCell;
use std::collections::{BTreeMap, BTreeSet};
use std::panic::{catch_unwind, AssertUnwindSafe};
use std::path::{Path, PathBuf};
use std::sync::atomic::{AtomicBool, AtomicUsize, Ordering};
use std::sync::{Arc, Mutex, Once};
use std::time::{Duration, Instant};

use serde_json::{json, Map, Value};

use crate::rng::{mix, Rng};

pub const VERIF_ROOT: &str = "/verif";

#[derive(Clone, Copy, Debug, PartialEq, Eq)]
pub enum Tier {
    Quick,
    Thorough,
}

impl Tier {
    pub fn name(self) -> &'static str {
        match self {
            Tier::Quick => "quick",
            Tier::Thorough => "thorough",
        }
    }
}

#[derive(Clone, Debug)]
pub struct Ctx {
    pub prop: String,
    pub level: &'static str,
    pub tier: Tier,
    pub seed: u64,
    /// `--replay <file>`: re-run only the recorded case(s).
    pub replay: Option<Value>,
    pub start: Instant,
    /// soft deadline: no new case is started after it (cases already running finish)
    pub deadline: Duration,
    pub threads: usize,
    /// free-form `--key value` arguments (used by sub-process modes)
    pub args: BTreeMap<String, String>,
}

impl Ctx {
    /// Parses `<tier> [--replay file] [--key value]...`; env VERIF_SEED / VERIF_TIER override.
    pub fn from_env(prop: &str, level: &'static str) -> Ctx {
        install_panic_hook();
        let argv: Vec<String> = std::env::args().collect();
        let mut tier = Tier::Quick;
        let mut args = BTreeMap::new();
        let mut i = 1;
        while i < argv.len() {
            let a = &argv[i];
            if a == "quick" {
                tier = Tier::Quick;
            } else if a == "thorough" {
                tier = Tier::Thorough;
            } else if let Some(k) = a.strip_prefix("--") {
                let v = argv.get(i + 1).cloned().unwrap_or_default();
                args.insert(k.to_string(), v);
                i += 1;
            }
            i += 1;
        }
        if let Ok(t) = std::env::var("VERIF_TIER") {
            match t.as_str() {
                "quick" => tier = Tier::Quick,
                "thorough" => tier = Tier::Thorough,
                _ => {}
            }
        }
        let seed = std::env::var("VERIF_SEED")
            .ok()
            .and_then(|s| s.trim().parse::<i64>().ok())
            .map(|s| s as u64)
            .unwrap_or(1);
        let replay = args.get("replay").map(|p| {
            let txt = std::fs::read_to_string(p)
                .unwrap_or_else(|e| harness_fatal(&format!("cannot read replay {p}: {e}")));
            serde_json::from_str::<Value>(&txt)
                .unwrap_or_else(|e| harness_fatal(&format!("cannot parse replay {p}: {e}")))
        });
        let (seed, tier) = match &replay {
            Some(r) => (
                r.get("seed").and_then(|v| v.as_u64()).unwrap_or(seed),
                match r.get("tier").and_then(|v| v.as_str()) {
                    Some("thorough") => Tier::Thorough,
                    Some("quick") => Tier::Quick,
                    _ => tier,
                },
            ),
            None => (seed, tier),
        };
        let threads = std::env::var("VERIF_THREADS")
            .ok()
            .and_then(|s| s.parse().ok())
            .unwrap_or_else(|| {
                std::thread::available_parallelism()
                    .map(|n| n.get())
                    .unwrap_or(8)
                    .min(16)
            });
        let deadline = match tier {
            Tier::Quick => Duration::from_secs(env_u64("VERIF_QUICK_SECS", 150)),
            Tier::Thorough => Duration::from_secs(env_u64("VERIF_THOROUGH_SECS", 900)),
        };
        Ctx {
            prop: prop.to_string(),
            level,
            tier,
            seed,
            replay,
            start: Instant::now(),
            deadline,
            threads,
            args,
        }
    }

    pub fn quick(&self) -> bool {
        self.tier == Tier::Quick
    }

    /// picks the quick or the thorough value; `VERIF_SCALE_DIV=<n>` divides it (used by the
    /// sanitizer / valgrind re-runs of the same workload, which are 4-30x slower)
    pub fn scale(&self, quick: usize, thorough: usize) -> usize {
        let v = match self.tier {
            Tier::Quick => quick,
            Tier::Thorough => thorough,
        };
        let div = env_u64("VERIF_SCALE_DIV", 1).max(1) as usize;
        (v / div).max(1)
    }

    pub fn case_seed(&self, stream: &str, case: u64) -> u64 {
        let mut h = 0u64;
        for b in stream.bytes() {
            h = h.wrapping_mul(131).wrapping_add(b as u64);
        }
        mix(&[self.seed, h, case])
    }

    pub fn past_deadline(&self) -> bool {
        self.start.elapsed() > self.deadline
    }

    pub fn arg(&self, k: &str) -> Option<&str> {
        self.args.get(k).map(|s| s.as_str())
    }

    /// case indices recorded in a replay file for `stream` (None = run normally)
    pub fn replay_cases(&self, stream: &str) -> Option<Vec<u64>> {
        let r = self.replay.as_ref()?;
        if r.get("stream").and_then(|v| v.as_str()) != Some(stream) {
            return Some(vec![]);
        }
        Some(
            r.get("case")
                .and_then(|v| v.as_u64())
                .map(|c| vec![c])
                .unwrap_or_default(),
        )
    }
}

fn env_u64(k: &str, d: u64) -> u64 {
    std::env::var(k)
        .ok()
        .and_then(|s| s.parse().ok())
        .unwrap_or(d)
}

#[derive(Clone, Debug)]
pub struct Violation {
    /// stable signature used for deduplication and for matching known findings
    pub sig: String,
    pub stream: String,
    pub case: u64,
    pub detail: Value,
}

/// Per-thread / per-run accumulator. Merge with `merge`.
#[derive(Default, Debug)]
pub struct Report {
    pub evaluations: u64,
    pub shapes: BTreeSet<String>,
    pub samples: Vec<Value>,
    pub counters: BTreeMap<String, u64>,
    pub sets: BTreeMap<String, BTreeSet<String>>,
    pub violations: Vec<Violation>,
    pub harness_errors: Vec<String>,
    pub notes: Vec<String>,
    pub max_samples: usize,
    /// set by the runner
    pub cur_stream: String,
    pub cur_case: u64,
}

impl Report {
    pub fn new() -> Report {
        Report {
            max_samples: 6,
            ..Default::default()
        }
    }
    /// one case executed
    pub fn eval(&mut self) {
        self.evaluations += 1;
    }
    pub fn evals(&mut self, n: u64) {
        self.evaluations += n;
    }
    /// a case that is non-trivial by the check's rule; `shape` is its distinctness key
    pub fn nontrivial(&mut self, shape: impl Into<String>) {
        self.shapes.insert(shape.into());
    }
    pub fn sample(&mut self, v: Value) {
        if self.samples.len() < self.max_samples {
            self.samples.push(v);
        }
    }
    pub fn count(&mut self, key: &str, n: u64) {
        *self.counters.entry(key.to_string()).or_insert(0) += n;
    }
    /// records a member of a named set (distinct things observed, e.g. scorer kinds)
    pub fn observe(&mut self, set: &str, member: impl Into<String>) {
        let s = self.sets.entry(set.to_string()).or_default();
        if s.len() < 5000 {
            s.insert(member.into());
        }
    }
    pub fn violation(&mut self, sig: impl Into<String>, detail: Value) {
        let sig = sig.into();
        if self.violations.len() < 200 {
            self.violations.push(Violation {
                sig,
                stream: self.cur_stream.clone(),
                case: self.cur_case,
                detail,
            });
        } else {
            self.count("violations_dropped", 1);
        }
    }
    pub fn harness_error(&mut self, msg: impl Into<String>) {
        if self.harness_errors.len() < 50 {
            self.harness_errors.push(msg.into());
        }
    }
    pub fn note(&mut self, msg: impl Into<String>) {
        if self.notes.len() < 50 {
            self.notes.push(msg.into());
        }
    }
    pub fn merge(&mut self, o: Report) {
        self.evaluations += o.evaluations;
        self.shapes.extend(o.shapes);
        for s in o.samples {
            if self.samples.len() < self.max_samples.max(6) {
                self.samples.push(s);
            }
        }
        for (k, v) in o.counters {
            *self.counters.entry(k).or_insert(0) += v;
        }
        for (k, v) in o.sets {
            self.sets.entry(k).or_default().extend(v);
        }
        self.violations.extend(o.violations);
        self.harness_errors.extend(o.harness_errors);
        self.notes.extend(o.notes);
    }
}

// ---------------------------------------------------------------------------------------------
// panic capture

thread_local! {
    static LAST_PANIC: RefCell<Option<(String, String)>> = const { RefCell::new(None) };
    static QUIET: RefCell<bool> = const { RefCell::new(false) };
}
static HOOK: Once = Once::new();

pub fn install_panic_hook() {
    HOOK.call_once(|| {
        let default = std::panic::take_hook();
        std::panic::set_hook(Box::new(move |info| {
            // canonical path: a scratch copy of the repository (/tmp/.../repo/src/x.rs) reports
            // the same site as /repo/src/x.rs
            let loc = info
                .location()
                .map(|l| {
                    let f = l.file();
                    let f = match f.rfind("/repo/") {
                        Some(i) => format!("/repo/{}", &f[i + 6..]),
                        None => f.to_string(),
                    };
                    format!("{}:{}", f, l.line())
                })
                .unwrap_or_else(|| "?".into());
            let msg = if let Some(s) = info.payload().downcast_ref::<&str>() {
                s.to_string()
            } else if let Some(s) = info.payload().downcast_ref::<String>() {
                s.clone()
            } else {
                "<non-string panic>".to_string()
            };
            LAST_PANIC.with(|p| *p.borrow_mut() = Some((loc, msg)));
            let quiet = QUIET.with(|q| *q.borrow());
            if !quiet && std::env::var("VERIF_VERBOSE").is_ok() {
                default(info);
            }
        }));
    });
}

#[derive(Debug, Clone)]
pub struct PanicInfo {
    pub location: String,
    pub message: String,
}

impl PanicInfo {
    /// true when the panic originates in the harness itself (a harness bug, not a finding)
    pub fn in_harness(&self) -> bool {
        self.location.contains("harness/src") || self.location.starts_with("src/")
    }
    /// signature: location file (no line) + message with digits squashed
    pub fn sig(&self) -> String {
        let file = self.location.split(':').next().unwrap_or("?");
        let file = file.strip_prefix("/repo/").unwrap_or(file);
        let mut msg: String = self
            .message
            .chars()
            .map(|c| if c.is_ascii_digit() { '#' } else { c })
            .collect();
        while msg.contains("##") {
            msg = msg.replace("##", "#");
        }
        let msg: String = msg.chars().take(80).collect();
        format!("panic@{file}:{msg}")
    }
}

/// Runs `f`, converting a panic into `Err(PanicInfo)`.
pub fn guarded<T>(f: impl FnOnce() -> T) -> Result<T, PanicInfo> {
    install_panic_hook();
    LAST_PANIC.with(|p| *p.borrow_mut() = None);
    match catch_unwind(AssertUnwindSafe(f)) {
        Ok(v) => Ok(v),
        Err(_) => {
            let (location, message) = LAST_PANIC
                .with(|p| p.borrow_mut().take())
                .unwrap_or_else(|| ("?".into(), "?".into()));
            Err(PanicInfo { location, message })
        }
    }
}

pub fn harness_fatal(msg: &str) -> ! {
    println!("INCONCLUSIVE harness error: {msg}");
    std::process::exit(2);
}

// ---------------------------------------------------------------------------------------------
// parallel case runner

/// Runs cases `0..n` of `stream` on `ctx.threads` threads. Each case gets its own Rng derived
/// from (seed, stream, case index), so any single case can be replayed with `--replay`.
/// A panic outside the harness inside a case is recorded as a violation of the property
/// (signature = panic site), a panic in harness code as a harness error (=> inconclusive).
pub fn run_cases<F>(ctx: &Ctx, stream: &str, n: u64, f: F) -> Report
where F: Fn(u64, &mut Rng, &mut Report) + Sync {
    let cases: Vec<u64> = match ctx.replay_cases(stream) {
        Some(c) => c,
        None => (0..n).collect(),
    };
    let next = AtomicUsize::new(0);
    let stop = AtomicBool::new(false);
    let total = Mutex::new(Report::new());
    let nthreads = ctx.threads.max(1).min(cases.len().max(1));
    std::thread::scope(|scope| {
        for t in 0..nthreads {
            let cases = &cases;
            let next = &next;
            let stop = &stop;
            let total = &total;
            let f = &f;
            std::thread::Builder::new()
                .name(format!("tvmon-case-{t}"))
                .stack_size(64 << 20)
                .spawn_scoped(scope, move || {
                    let mut rep = Report::new();
                    rep.cur_stream = stream.to_string();
                    loop {
                        if stop.load(Ordering::Relaxed) {
                            break;
                        }
                        if ctx.replay.is_none() && ctx.past_deadline() {
                            rep.count("cases_cut_by_deadline", 1);
                            stop.store(true, Ordering::Relaxed);
                            break;
                        }
                        let i = next.fetch_add(1, Ordering::Relaxed);
                        if i >= cases.len() {
                            break;
                        }
                        let case = cases[i];
                        rep.cur_case = case;
                        let mut rng = Rng::new(ctx.case_seed(stream, case));
                        let r = guarded(|| f(case, &mut rng, &mut rep));
                        if let Err(p) = r {
                            if p.in_harness() {
                                rep.harness_error(format!(
                                    "{stream}#{case}: panic in harness at {}: {}",
                                    p.location, p.message
                                ));
                            } else {
                                rep.violation(
                                    p.sig(),
                                    json!({"panic_location": p.location, "panic_message": p.message}),
                                );
                            }
                        }
                    }
                    total.lock().unwrap().merge(rep);
                })
                .expect("spawn");
        }
    });
    let mut rep = total.into_inner().unwrap();
    rep.cur_stream = stream.to_string();
    rep
}

// ---------------------------------------------------------------------------------------------
// known findings

#[derive(Debug, Clone)]
pub struct KnownFinding {
    pub property: String,
    pub sig: String,
    pub text: String,
}


/// A known-finding signature matches by prefix; with `*` in it, it is a glob over the whole
/// signature (`*` = any run of characters).
pub fn sig_matches(pattern: &str, sig: &str) -> bool {
    if !pattern.contains('*') {
        return sig.starts_with(pattern);
    }
    let parts: Vec<&str> = pattern.split('*').collect();
    let mut pos = 0usize;
    for (i, part) in parts.iter().enumerate() {
        if part.is_empty() {
            continue;
        }
        if i == 0 {
            if !sig.starts_with(part) {
                return false;
            }
            pos = part.len();
        } else if i == parts.len() - 1 && !pattern.ends_with('*') {
            return sig.len() >= pos + part.len() && sig[pos..].ends_with(part);
        } else {
            match sig[pos..].find(part) {
                Some(j) => pos += j + part.len(),
                None => return false,
            }
        }
    }
    true
}

/// true when `sig` is listed as a known finding of `prop`
pub fn is_known(prop: &str, sig: &str) -> bool {
    static KNOWN: std::sync::OnceLock<Vec<KnownFinding>> = std::sync::OnceLock::new();
    KNOWN
        .get_or_init(load_known_findings)
        .iter()
        .any(|k| k.property == prop && sig_matches(&k.sig, sig))
}

/// `known_findings.txt` lines:
///   `known: property=C02 sig=<signature prefix> :: free text`
///   `fixed: property=C02 <commit> <what failed>`   (suppresses nothing)
pub fn load_known_findings() -> Vec<KnownFinding> {
    let p = Path::new(VERIF_ROOT).join("known_findings.txt");
    let mut out = vec![];
    if let Ok(txt) = std::fs::read_to_string(p) {
        for line in txt.lines() {
            let line = line.trim();
            if let Some(rest) = line.strip_prefix("known:") {
                let rest = rest.trim();
                let (head, text) = match rest.split_once("::") {
                    Some((h, t)) => (h.trim(), t.trim()),
                    None => (rest, ""),
                };
                let mut property = String::new();
                let mut sig = String::new();
                if let Some(i) = head.find("sig=") {
                    sig = head[i + 4..].trim().to_string();
                    for tok in head[..i].split_whitespace() {
                        if let Some(v) = tok.strip_prefix("property=") {
                            property = v.to_string();
                        }
                    }
                }
                if !property.is_empty() && !sig.is_empty() {
                    out.push(KnownFinding {
                        property,
                        sig,
                        text: text.to_string(),
                    });
                }
            }
        }
    }
    out
}

// ---------------------------------------------------------------------------------------------
// finishing

pub struct Finish<'a> {
    pub rule: &'a str,
    /// minimum number of distinct non-trivial cases for a "held" verdict
    pub floor: usize,
    pub assumptions: Vec<String>,
    /// extra keys merged into `coverage`
    pub extra: Map<String, Value>,
}

fn evidence_path(prop: &str) -> PathBuf {
    Path::new(VERIF_ROOT).join("evidence").join(format!("{prop}.json"))
}

/// Writes the evidence file, replay files, prints verdict lines and exits.
pub fn finish(ctx: &Ctx, rep: Report, fin: Finish) -> ! {
    let mut rep = rep;
    // results of add-on runs (sanitizers, Miri, valgrind) collected by scripts/addons.sh
    let mut addons: Option<Value> = None;
    if let Ok(p) = std::env::var("VERIF_EXTRA_EVIDENCE") {
        if let Ok(txt) = std::fs::read_to_string(&p) {
            if let Ok(v) = serde_json::from_str::<Value>(&txt) {
                if let Some(vs) = v.get("violations").and_then(|x| x.as_array()) {
                    for x in vs {
                        rep.cur_stream = "addon".into();
                        rep.cur_case = 0;
                        rep.violation(
                            x["sig"].as_str().unwrap_or("addon:unknown").to_string(),
                            x["detail"].clone(),
                        );
                    }
                }
                addons = Some(v);
            }
        }
    }
    let known = load_known_findings();
    let mut known_hit: BTreeMap<String, (KnownFinding, u64)> = BTreeMap::new();
    let mut new_viol: BTreeMap<String, Vec<&Violation>> = BTreeMap::new();
    for v in &rep.violations {
        if let Some(k) = known
            .iter()
            .find(|k| k.property == ctx.prop && sig_matches(&k.sig, &v.sig))
        {
            known_hit
                .entry(k.sig.clone())
                .or_insert_with(|| (k.clone(), 0))
                .1 += 1;
        } else {
            new_viol.entry(v.sig.clone()).or_default().push(v);
        }
    }
    let replay_dir = Path::new(VERIF_ROOT).join("replays").join(&ctx.prop);
    let mut violation_lines = vec![];
    if !new_viol.is_empty() {
        let _ = std::fs::create_dir_all(&replay_dir);
    }
    for (i, (sig, vs)) in new_viol.iter().enumerate() {
        if i >= 20 {
            break;
        }
        let v = vs[0];
        let name: String = sig
            .chars()
            .map(|c| if c.is_ascii_alphanumeric() { c } else { '_' })
            .take(60)
            .collect();
        let path = replay_dir.join(format!("{}-s{}-{}.json", ctx.tier.name(), ctx.seed, name));
        let body = json!({
            "property": ctx.prop, "signature": sig, "seed": ctx.seed, "tier": ctx.tier.name(),
            "stream": v.stream, "case": v.case, "occurrences": vs.len(), "detail": v.detail,
            "replay": format!("cd /verif && ./check {} --replay {}", ctx.prop, path.display()),
        });
        let _ = std::fs::write(&path, serde_json::to_string_pretty(&body).unwrap());
        violation_lines.push(format!(
            "VIOLATION property={} replay={}",
            ctx.prop,
            path.display()
        ));
    }
    let distinct = rep.shapes.len();
    let inconclusive = !rep.harness_errors.is_empty()
        || (ctx.replay.is_none() && distinct < fin.floor.max(2));

    let mut coverage = Map::new();
    coverage.insert("evaluations".into(), json!(rep.evaluations));
    coverage.insert("distinct_nontrivial".into(), json!(distinct));
    coverage.insert("rule".into(), json!(fin.rule));
    coverage.insert("samples".into(), json!(rep.samples));
    coverage.insert("floor_distinct_nontrivial".into(), json!(fin.floor));
    coverage.insert("counters".into(), json!(rep.counters));
    let mut sets = Map::new();
    for (k, v) in &rep.sets {
        let members: Vec<&String> = v.iter().take(60).collect();
        sets.insert(k.clone(), json!({"distinct": v.len(), "members": members}));
    }
    coverage.insert("observed_sets".into(), Value::Object(sets));
    coverage.insert(
        "known_findings_hit".into(),
        json!(known_hit
            .values()
            .map(|(k, n)| json!({"sig": k.sig, "occurrences": n}))
            .collect::<Vec<_>>()),
    );
    coverage.insert(
        "new_violation_signatures".into(),
        json!(new_viol.keys().collect::<Vec<_>>()),
    );
    if !rep.notes.is_empty() {
        coverage.insert("notes".into(), json!(rep.notes));
    }
    if !rep.harness_errors.is_empty() {
        coverage.insert("harness_errors".into(), json!(rep.harness_errors));
    }
    for (k, v) in fin.extra {
        coverage.insert(k, v);
    }
    if let Some(a) = addons {
        coverage.insert("addons".into(), a);
    }
    let verdict = if !new_viol.is_empty() {
        "violated"
    } else if inconclusive {
        "inconclusive"
    } else {
        "held_on_observed"
    };
    coverage.insert("verdict".into(), json!(verdict));
    let evidence = json!({
        "property_id": ctx.prop,
        "tier": ctx.tier.name(),
        "seed": ctx.seed as i64,
        "level": ctx.level,
        "coverage": Value::Object(coverage),
        "assumptions": fin.assumptions,
        "wall_s": ctx.start.elapsed().as_secs_f64(),
        "violations": new_viol.len(),
    });
    if ctx.replay.is_none() && ctx.arg("no-evidence").is_none() {
        let p = evidence_path(&ctx.prop);
        let _ = std::fs::create_dir_all(p.parent().unwrap());
        std::fs::write(&p, serde_json::to_string_pretty(&evidence).unwrap())
            .unwrap_or_else(|e| harness_fatal(&format!("cannot write evidence: {e}")));
    }
    for (k, n) in known_hit.values() {
        println!(
            "KNOWN-FINDING: property={} sig={} occurrences={} {}",
            ctx.prop, k.sig, n, k.text
        );
    }
    println!(
        "{} tier={} seed={} evaluations={} distinct_nontrivial={} (floor {}) violations={} known={} wall={:.1}s verdict={}",
        ctx.prop,
        ctx.tier.name(),
        ctx.seed,
        rep.evaluations,
        distinct,
        fin.floor,
        new_viol.len(),
        known_hit.len(),
        ctx.start.elapsed().as_secs_f64(),
        verdict
    );
    for (k, v) in &rep.counters {
        println!("  counter {k} = {v}");
    }
    for (k, v) in &rep.sets {
        println!("  observed {k}: {} distinct", v.len());
    }
    if !violation_lines.is_empty() {
        for (sig, vs) in new_viol.iter().take(20) {
            println!("  violation sig={sig} x{} first={}", vs.len(), vs[0].detail);
        }
        for l in violation_lines {
            println!("{l}");
        }
        std::process::exit(1);
    }
    if inconclusive {
        for e in rep.harness_errors.iter().take(10) {
            println!("  harness error: {e}");
        }
        println!(
            "INCONCLUSIVE property={} (distinct_nontrivial {} < floor {} or harness errors {})",
            ctx.prop,
            distinct,
            fin.floor,
            rep.harness_errors.len()
        );
        std::process::exit(2);
    }
    std::process::exit(0);
}

pub fn simple_finish(ctx: &Ctx, rep: Report, rule: &str, floor: usize, assumptions: &[&str]) -> ! {
    finish(
        ctx,
        rep,
        Finish {
            rule,
            floor,
            assumptions: assumptions.iter().map(|s| s.to_string()).collect(),
            extra: Map::new(),
        },
    )
}

/// shared, thread-safe report for monitors that are called from foreign threads
#[derive(Clone, Default)]
pub struct SharedReport(pub Arc<Mutex<Report>>);

impl SharedReport {
    pub fn new() -> Self {
        SharedReport(Arc::new(Mutex::new(Report::new())))
    }
    pub fn with<T>(&self, f: impl FnOnce(&mut Report) -> T) -> T {
        let mut g = self.0.lock().unwrap_or_else(|e| e.into_inner());
        f(&mut g)
    }
    pub fn take(&self) -> Report {
        let mut g = self.0.lock().unwrap_or_else(|e| e.into_inner());
        std::mem::replace(&mut *g, Report::new())
    }
}
