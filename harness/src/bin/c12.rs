//! C12 — Relevance scores are BM25 over the searcher's statistics; explain agrees.
//!
//! For generated corpora whose field lengths are placed on and around the boundaries of the
//! one-byte field-norm code, indexed under several segmentations, every matching document's score
//! (own exhaustive scoring collector) is compared with an independent f32 evaluation of the BM25
//! formula from PUBLIC statistics only; `explain().value()`, other collectors / K and other
//! segmentations must give the same score.
//!
//! Two corpus profiles: small corpora (<= 500 documents) whose field lengths walk the field-norm
//! buckets, and large ones whose single segment spans 2-4 windows of the buffered union scorer
//! (4096 documents; per-slot score-combiner state is reused from window to window and dropped on
//! seeks beyond the window), indexed also as chunks that all stay below one window and as a merge
//! of those chunks, with terms that are dense, rare or confined to doc-id ranges on window
//! boundaries, and with union-heavy queries (disjunction-max with tie breaker, should-booleans,
//! unions of unions, a required clause seeking into an optional union).
#[path = "scshared/mod.rs"]
mod scshared;

use std::collections::{BTreeMap, HashMap, HashSet};

use scshared::*;
use serde_json::{json, Value};
use tantivy::collector::sort_key::SortBySimilarityScore;
use tantivy::collector::TopDocs;
use tantivy::fieldnorm::FieldNormReader;
use tantivy::postings::Postings;
use tantivy::query::{Bm25Weight, Occur, Query};
use tantivy::schema::IndexRecordOption;
use tantivy::{DocAddress, DocId, DocSet, Index, Order, Score, Searcher, SegmentReader, Term, TERMINATED};
use tvmon::report::*;
use tvmon::rng::Rng;

const K1: f32 = 1.2;
const B: f32 = 0.75;

// ---------------------------------------------------------------------------------------------
// the formula (documented in query/bm25.rs), evaluated in f32

fn idf(doc_freq: u64, doc_count: u64) -> f32 {
    let x = ((doc_count - doc_freq) as f32 + 0.5) / (doc_freq as f32 + 0.5);
    (1.0 + x).ln()
}

/// idf_sum * (1 + k1) * boost * tf / (tf + k1 * (1 - b + b * dl / avgdl))
fn bm25(idf_sum: f32, boost: f32, tf: u32, dl: u32, avgdl: f32) -> f32 {
    let mut weight = idf_sum * (1.0 + K1);
    if boost != 1.0 {
        weight *= boost;
    }
    let norm = K1 * (1.0 - B + B * dl as f32 / avgdl);
    let tf = tf as f32;
    weight * (tf / (tf + norm))
}

// ---------------------------------------------------------------------------------------------
// corpus

const FOCUS: [u16; 6] = [0, 1, 2, 3, 4, 5];
const TITLE_WORDS: [u16; 5] = [200, 201, 202, 203, 204];

struct Corpus {
    docs: Vec<MDoc>,
    body_opt: IndexRecordOption,
    /// how the focus words were spread over the documents (for witnesses)
    presence: Vec<String>,
}

/// width of the document window of tantivy's buffered union scorer (64 * 64 documents): per-slot
/// scorer state is reused from one window to the next, so segments are made to span several
const WINDOW: usize = 4096;

#[derive(Clone, Copy, PartialEq, Eq, Debug)]
enum Profile {
    /// up to 500 documents, field lengths across the reachable field-norm buckets
    Small,
    /// more documents than one union window per segment (short fields), terms that are dense,
    /// rare, or confined to a few doc-id ranges placed on window boundaries
    Large,
}

/// which documents contain a focus word
enum Presence {
    /// every document with probability num/den
    Uniform(u64, u64),
    /// only documents of a few index ranges (start, end, per-mille inside the range): long gaps
    Clustered(Vec<(usize, usize, u64)>),
}

impl Presence {
    fn hit(&self, rng: &mut Rng, i: usize) -> bool {
        match self {
            Presence::Uniform(num, den) => rng.chance(*num, *den),
            Presence::Clustered(cs) => match cs.iter().find(|(a, b, _)| *a <= i && i < *b) {
                Some((_, _, pm)) => rng.chance(*pm, 1000),
                None => false,
            },
        }
    }

    fn describe(&self) -> String {
        match self {
            Presence::Uniform(num, den) => format!("{num}/{den}"),
            Presence::Clustered(cs) => format!(
                "ranges{:?}",
                cs.iter().map(|(a, b, pm)| format!("{a}..{b}@{pm}pm")).collect::<Vec<_>>()
            ),
        }
    }
}

fn large_presence(rng: &mut Rng, n: usize) -> Presence {
    if rng.chance(2, 3) {
        Presence::Uniform(*rng.pick(&[900u64, 600, 300, 100, 30, 5, 1]), 1000)
    } else {
        let k = rng.urange(1, 3);
        let mut cs = vec![];
        for _ in 0..k {
            let start = if rng.bool() {
                // on / next to a window boundary (0 included)
                let w = rng.usize_below(n / WINDOW + 1) * WINDOW;
                (w + rng.usize_below(5)).saturating_sub(2)
            } else {
                rng.usize_below(n)
            };
            let len = *rng.pick(&[1usize, 2, 5, 40, 300, 1500]);
            cs.push((start.min(n - 1), (start + len).min(n), *rng.pick(&[1000u64, 700, 300])));
        }
        Presence::Clustered(cs)
    }
}

fn gen_corpus(rng: &mut Rng, table: &[u32; 256], p: &Params) -> Corpus {
    let (cap_id, budget) = (p.cap_id, p.budget);
    let large = p.profile == Profile::Large;
    let body_opt = if rng.chance(3, 4) {
        IndexRecordOption::WithFreqsAndPositions
    } else {
        IndexRecordOption::WithFreqs
    };
    let n = if large {
        match rng.weighted(&[3, 3, 2, 3]) {
            0 => WINDOW + rng.urange(1, 300),          // a little into the second window
            1 => 2 * WINDOW - 2 + rng.urange(0, 300),  // around the end of the second window
            2 => (3 * WINDOW - 2 + rng.urange(0, 100)).min(p.max_docs),
            _ => rng.urange(WINDOW + 300, p.max_docs),
        }
    } else {
        match rng.weighted(&[3, 4, 2]) {
            0 => rng.urange(3, 40),
            1 => rng.urange(40, 200),
            _ => rng.urange(200, 500),
        }
    };
    let mut used = 0usize;
    let mut docs = Vec::with_capacity(n);
    // document-level probabilities of the focus words (shared by the corpus => document frequencies)
    let probs: Vec<Presence> = FOCUS
        .iter()
        .map(|_| {
            if large {
                large_presence(rng, n)
            } else {
                Presence::Uniform(*rng.pick(&[90u64, 60, 30, 10, 3]), 100)
            }
        })
        .collect();
    for i in 0..n {
        let mut d = MDoc::empty(i as u64 + 1);
        // length: on / next to a bucket boundary of the field-norm code
        let id = if large {
            match rng.weighted(&[12, 3, 1]) {
                0 => rng.urange(1, 24),
                1 => rng.urange(24, 48),
                _ => rng.urange(40, 72.min(cap_id)),
            }
        } else {
            match rng.weighted(&[10, 5, 2]) {
                0 => rng.urange(0, 48),
                1 => rng.urange(40, 90.min(cap_id)),
                _ => rng.urange(0, cap_id),
            }
        };
        let base = table[id] as usize;
        let next = table[(id + 1).min(255)] as usize;
        let mut len = match rng.below(4) {
            0 => base,
            1 => base + 1,
            2 => next.saturating_sub(1).max(base),
            _ => base + rng.usize_below((next - base).max(1)),
        };
        if used + len > budget {
            len = rng.urange(0, if large { 12 } else { 30 });
        }
        used += len;
        if rng.chance(1, 25) {
            len = 0;
        }
        // which focus words this document contains and how dense they are
        let present: Vec<u16> = FOCUS
            .iter()
            .zip(probs.iter())
            .filter(|(_, p)| p.hit(rng, i))
            .map(|(w, _)| *w)
            .collect();
        let density = *rng.pick(&[1u64, 3, 10, 30, 60]);
        let mut body = Vec::with_capacity(len);
        for _ in 0..len {
            if !present.is_empty() && rng.chance(density, 100) {
                body.push(*rng.pick(&present));
            } else {
                body.push(100 + rng.below(40) as u16);
            }
        }
        // make sure each chosen word occurs at least once in non-empty documents
        for (k, w) in present.iter().enumerate() {
            if k < body.len() && rng.chance(4, 5) {
                let pos = rng.usize_below(body.len());
                body[pos] = *w;
            }
        }
        d.body = body;
        let tl = *rng.pick(&[0usize, 1, 2, 3, 4, 6, 9]);
        d.title = (0..tl).map(|_| *rng.pick(&TITLE_WORDS)).collect();
        d.tag = rng.below(5) as u8;
        docs.push(d);
    }
    Corpus {
        docs,
        body_opt,
        presence: probs.iter().map(|p| p.describe()).collect(),
    }
}

// ---------------------------------------------------------------------------------------------
// queries

fn leaf(rng: &mut Rng, phrases_on_body: bool) -> Q {
    match rng.weighted(&[8, 3, 2, 2]) {
        0 => Q::term(TF::Body, *rng.pick(&FOCUS)),
        1 => Q::term(TF::Title, *rng.pick(&TITLE_WORDS)),
        2 if phrases_on_body => {
            let n = rng.urange(2, 3);
            Q::Phrase {
                f: TF::Body,
                ws: (0..n).map(|_| *rng.pick(&FOCUS[..4])).collect(),
            }
        }
        _ => Q::Phrase {
            f: TF::Title,
            ws: vec![*rng.pick(&TITLE_WORDS), *rng.pick(&TITLE_WORDS)],
        },
    }
}

const BOOSTS: [f32; 7] = [0.5, 2.0, 3.7, 0.1, 10.0, 1.0, 1.5];

fn boosted(rng: &mut Rng, q: Q) -> Q {
    Q::Boost(Box::new(q), *rng.pick(&BOOSTS))
}

fn bool_of(rng: &mut Rng, pb: bool, allow_nested: bool) -> Q {
    let n = rng.urange(2, 4);
    let shape = rng.below(4);
    let mut cs: Vec<(Occur, Q)> = vec![];
    for i in 0..n {
        let occur = match shape {
            0 => Occur::Should,
            1 => Occur::Must,
            _ => {
                if i == 0 {
                    Occur::Must
                } else if rng.bool() {
                    Occur::Should
                } else {
                    Occur::Must
                }
            }
        };
        let mut q = leaf(rng, pb);
        if allow_nested && rng.chance(1, 5) {
            q = match rng.below(3) {
                0 => boosted(rng, q),
                1 => Q::Const(Box::new(q), *rng.pick(&[0.25f32, 1.0, 7.5])),
                _ => {
                    let a = leaf(rng, pb);
                    Q::DisMax(vec![q, a], *rng.pick(&[0.0f32, 0.3, 1.0]))
                }
            };
        }
        cs.push((occur, q));
    }
    if rng.chance(1, 4) {
        // excluded clause: a plain term (never scores)
        cs.push((Occur::MustNot, Q::term(TF::Body, *rng.pick(&FOCUS))));
    }
    Q::Bool(cs)
}

const TIES: [f32; 5] = [0.0, 0.1, 0.3, 0.5, 1.0];

/// unions whose clauses are themselves unions, and wide disjunction-max queries: every clause
/// combiner (sum / max + tie breaker) below and above another one
fn union_of_unions(rng: &mut Rng, pb: bool) -> Q {
    let dm = |rng: &mut Rng| {
        let n = rng.urange(2, 3);
        Q::DisMax((0..n).map(|_| leaf(rng, pb)).collect(), *rng.pick(&TIES))
    };
    match rng.below(4) {
        0 => {
            // should-boolean over disjunction-max clauses and leaves
            let mut cs = vec![(Occur::Should, dm(rng)), (Occur::Should, leaf(rng, pb))];
            if rng.bool() {
                cs.push((Occur::Should, dm(rng)));
            }
            Q::Bool(cs)
        }
        1 => {
            // disjunction-max over a should-boolean, a leaf and a boosted leaf
            let n = rng.urange(2, 3);
            let b = Q::Bool((0..n).map(|_| (Occur::Should, leaf(rng, pb))).collect());
            let l = leaf(rng, pb);
            let bl = leaf(rng, pb);
            let bl = boosted(rng, bl);
            Q::DisMax(vec![b, l, bl], *rng.pick(&TIES))
        }
        2 => {
            // wide disjunction-max of terms of both fields
            let n = rng.urange(3, 5);
            let ds = (0..n)
                .map(|_| {
                    if rng.chance(2, 3) {
                        Q::term(TF::Body, *rng.pick(&FOCUS))
                    } else {
                        Q::term(TF::Title, *rng.pick(&TITLE_WORDS))
                    }
                })
                .collect();
            Q::DisMax(ds, *rng.pick(&TIES))
        }
        _ => {
            // required clause (possibly rare: long seeks into the optional part) + optional
            // disjunction-max, or a disjunction-max of disjunction-max
            if rng.bool() {
                Q::Bool(vec![
                    (Occur::Must, Q::term(TF::Body, *rng.pick(&FOCUS))),
                    (Occur::Should, dm(rng)),
                ])
            } else {
                Q::DisMax(vec![dm(rng), leaf(rng, pb)], *rng.pick(&TIES))
            }
        }
    }
}

fn gen_query(rng: &mut Rng, pb: bool, profile: Profile) -> (Q, &'static str) {
    let weights: [u32; 8] = match profile {
        Profile::Small => [5, 4, 6, 3, 3, 5, 3, 0],
        Profile::Large => [2, 2, 6, 2, 1, 7, 4, 6],
    };
    match rng.weighted(&weights) {
        7 => (union_of_unions(rng, pb), "union-of-unions"),
        0 => (
            if rng.chance(3, 4) {
                Q::term(TF::Body, *rng.pick(&FOCUS))
            } else {
                Q::term(TF::Title, *rng.pick(&TITLE_WORDS))
            },
            "term",
        ),
        1 => (
            loop {
                let l = leaf(rng, pb);
                if matches!(l, Q::Phrase { .. }) {
                    break l;
                }
            },
            "phrase",
        ),
        2 => (bool_of(rng, pb, true), "boolean"),
        3 => {
            let inner = match rng.below(3) {
                0 => bool_of(rng, pb, false),
                _ => leaf(rng, pb),
            };
            let q = boosted(rng, inner);
            (if rng.chance(1, 4) { boosted(rng, q) } else { q }, "boost")
        }
        4 => {
            let inner = match rng.below(3) {
                0 => bool_of(rng, pb, false),
                _ => leaf(rng, pb),
            };
            let c = Q::Const(Box::new(inner), *rng.pick(&[0.25f32, 1.0, 3.3, 42.0]));
            (if rng.chance(1, 3) { boosted(rng, c) } else { c }, "const-score")
        }
        5 => {
            let n = rng.urange(2, 3);
            let ds: Vec<Q> = (0..n)
                .map(|_| {
                    let l = leaf(rng, pb);
                    if rng.chance(1, 4) {
                        boosted(rng, l)
                    } else {
                        l
                    }
                })
                .collect();
            (Q::DisMax(ds, *rng.pick(&[0.0f32, 0.1, 0.3, 0.5, 1.0])), "disjunction-max")
        }
        _ => {
            // disjunction-max / boolean below a boost or inside a boolean
            let dm = Q::DisMax(vec![leaf(rng, pb), leaf(rng, pb)], *rng.pick(&[0.0f32, 0.3]));
            let q = match rng.below(2) {
                0 => boosted(rng, dm),
                _ => Q::Bool(vec![(Occur::Must, leaf(rng, pb)), (Occur::Should, dm)]),
            };
            (q, "nested")
        }
    }
}

// ---------------------------------------------------------------------------------------------
// one segmentation of the corpus and what can be read from it through public APIs

struct Layout {
    name: String,
    _index: Index,
    searcher: Searcher,
    nseg: usize,
    deletes: bool,
    merged: bool,
    n_docs: u64,
    tokens: HashMap<TF, u64>,
    fnorm: Vec<HashMap<TF, FieldNormReader>>,
    /// (field, word) -> (searcher doc_freq, per segment doc -> term_freq)
    terms: HashMap<(TF, u16), (u64, Vec<HashMap<DocId, u32>>)>,
}

fn open_layout(
    sch: &Sch,
    corpus: &Corpus,
    name: String,
    cuts: &[usize],
    deletes: &[u64],
    merge_first: usize,
) -> Result<Layout, (String, String)> {
    let index = build_index(sch, &corpus.docs, cuts, deletes, merge_first)?;
    let reader = index.reader().map_err(|e| ("reader".to_string(), e.to_string()))?;
    let searcher = reader.searcher();
    let mut tokens = HashMap::new();
    let mut fnorm = vec![];
    let mut n_docs = 0u64;
    for seg in searcher.segment_readers() {
        n_docs += seg.max_doc() as u64;
        let mut per = HashMap::new();
        for (tf, field) in [(TF::Body, sch.body), (TF::Title, sch.title)] {
            let inv = seg
                .inverted_index(field)
                .map_err(|e| ("inverted_index".to_string(), e.to_string()))?;
            *tokens.entry(tf).or_insert(0u64) += inv.total_num_tokens();
            per.insert(
                tf,
                seg.get_fieldnorms_reader(field)
                    .map_err(|e| ("get_fieldnorms_reader".to_string(), e.to_string()))?,
            );
        }
        fnorm.push(per);
    }
    let nseg = searcher.segment_readers().len();
    Ok(Layout {
        name,
        _index: index,
        searcher,
        nseg,
        deletes: !deletes.is_empty(),
        merged: merge_first >= 2,
        n_docs,
        tokens,
        fnorm,
        terms: HashMap::new(),
    })
}

impl Layout {
    fn load_term(&mut self, sch: &Sch, f: TF, w: u16) -> Result<(), (String, String)> {
        if self.terms.contains_key(&(f, w)) {
            return Ok(());
        }
        let term = Term::from_field_text(Q::field(sch, f), &word(w));
        let df = self
            .searcher
            .doc_freq(&term)
            .map_err(|e| ("doc_freq".to_string(), e.to_string()))?;
        let mut per_seg = vec![];
        for seg in self.searcher.segment_readers() {
            let mut map = HashMap::new();
            let inv = seg
                .inverted_index(term.field())
                .map_err(|e| ("inverted_index".to_string(), e.to_string()))?;
            if let Some(mut p) = inv
                .read_postings(&term, IndexRecordOption::WithFreqs)
                .map_err(|e| ("read_postings".to_string(), e.to_string()))?
            {
                let mut d = p.doc();
                while d != TERMINATED {
                    map.insert(d, p.term_freq());
                    d = p.advance();
                }
            }
            per_seg.push(map);
        }
        self.terms.insert((f, w), (df, per_seg));
        Ok(())
    }
}

// ---------------------------------------------------------------------------------------------
// oracle evaluation of a query on one document

struct DocCtx<'a> {
    lay: &'a Layout,
    table: &'a [u32; 256],
    mdoc: &'a MDoc,
    addr: DocAddress,
}

#[derive(Clone, Copy, Debug)]
struct Ev {
    v: f32,
    /// sum of the magnitudes of the leaf scores that went into `v` (scale of rounding errors)
    mag: f32,
    /// number of scoring clauses that matched the document
    k: u32,
}

fn phrase_count(tokens: &[u16], ws: &[u16]) -> u32 {
    if ws.is_empty() || tokens.len() < ws.len() {
        return 0;
    }
    let mut c = 0;
    for i in 0..=tokens.len() - ws.len() {
        if tokens[i..i + ws.len()] == *ws {
            c += 1;
        }
    }
    c
}

fn eval(q: &Q, boost: f32, c: &DocCtx) -> Option<Ev> {
    let seg = c.addr.segment_ord as usize;
    let field_stats = |f: TF| -> (u32, f32) {
        let id = c.lay.fnorm[seg][&f].fieldnorm_id(c.addr.doc_id);
        let dl = c.table[id as usize];
        let avg = c.lay.tokens[&f] as f32 / c.lay.n_docs as f32;
        (dl, avg)
    };
    match q {
        Q::Term { f, w, .. } => {
            let (df, per_seg) = c.lay.terms.get(&(*f, *w))?;
            let tf = *per_seg[seg].get(&c.addr.doc_id)?;
            let (dl, avg) = field_stats(*f);
            let v = bm25(idf(*df, c.lay.n_docs), boost, tf, dl, avg);
            Some(Ev { v, mag: v.abs(), k: 1 })
        }
        Q::Phrase { f, ws } => {
            let toks = if *f == TF::Body { &c.mdoc.body } else { &c.mdoc.title };
            let count = phrase_count(toks, ws);
            if count == 0 {
                return None;
            }
            let mut idf_sum = 0.0f32;
            for w in ws {
                let (df, _) = c.lay.terms.get(&(*f, *w))?;
                idf_sum += idf(*df, c.lay.n_docs);
            }
            let (dl, avg) = field_stats(*f);
            let v = bm25(idf_sum, boost, count, dl, avg);
            Some(Ev { v, mag: v.abs(), k: 1 })
        }
        Q::Tag(_) | Q::All | Q::MinShould(..) => None, // not generated by this check
        Q::Boost(inner, b) => eval(inner, boost * *b, c),
        Q::Const(inner, s) => {
            eval(inner, boost, c)?;
            let v = boost * *s;
            Some(Ev { v, mag: v.abs(), k: 1 })
        }
        Q::Bool(cs) => {
            let has_must = cs.iter().any(|(o, _)| *o == Occur::Must);
            let mut sum = 0.0f32;
            let mut mag = 0.0f32;
            let mut k = 0u32;
            let mut any_should = false;
            for (o, sub) in cs {
                let e = eval(sub, boost, c);
                match (o, e) {
                    (Occur::MustNot, Some(_)) => return None,
                    (Occur::MustNot, None) => {}
                    (Occur::Must, None) => return None,
                    (Occur::Must, Some(e)) => {
                        sum += e.v;
                        mag += e.mag;
                        k += e.k;
                    }
                    (Occur::Should, Some(e)) => {
                        any_should = true;
                        sum += e.v;
                        mag += e.mag;
                        k += e.k;
                    }
                    (Occur::Should, None) => {}
                }
            }
            if !has_must && !any_should {
                return None;
            }
            Some(Ev { v: sum, mag, k })
        }
        Q::DisMax(qs, tie) => {
            let mut max = 0.0f32;
            let mut sum = 0.0f32;
            let mut mag = 0.0f32;
            let mut k = 0u32;
            let mut any = false;
            for sub in qs {
                if let Some(e) = eval(sub, boost, c) {
                    any = true;
                    max = f32::max(e.v, max);
                    sum += e.v;
                    mag += e.mag;
                    k += e.k;
                }
            }
            if !any {
                return None;
            }
            Some(Ev {
                v: max + (sum - max) * *tie,
                mag,
                k,
            })
        }
    }
}

/// plain sum of the matching disjunct scores (used to recognise one specific defect)
fn dismax_sum(q: &Q, c: &DocCtx) -> Option<f32> {
    if let Q::DisMax(qs, _) = q {
        let mut sum = 0.0f32;
        let mut n = 0;
        for sub in qs {
            if let Some(e) = eval(sub, 1.0, c) {
                sum += e.v;
                n += 1;
            }
        }
        if n >= 2 {
            return Some(sum);
        }
    }
    None
}

fn is_bare_leaf(q: &Q) -> bool {
    matches!(q, Q::Term { .. } | Q::Phrase { .. })
}

/// 2 ulp per clause (plus 2 per boost factor stacked on it: every multiplication rounds once and
/// explain() multiplies in another order than the scorer), 4*n ulp for sums of n clauses
fn tolerance(n_leaves: usize, boosts: usize, e: &Ev) -> f32 {
    if n_leaves <= 1 {
        (2.0 + 2.0 * boosts as f32) * ulp(e.v)
    } else {
        (4.0 + 2.0 * boosts as f32) * n_leaves as f32 * ulp(e.mag.max(e.v.abs()))
    }
}

fn boost_depth(q: &Q) -> usize {
    match q {
        Q::Boost(inner, _) => 1 + boost_depth(inner),
        Q::Const(inner, _) => boost_depth(inner),
        Q::Bool(cs) => cs.iter().map(|(_, q)| boost_depth(q)).max().unwrap_or(0),
        Q::DisMax(qs, _) | Q::MinShould(qs, _) => qs.iter().map(boost_depth).max().unwrap_or(0),
        _ => 0,
    }
}

fn fx(x: f32) -> String {
    format!("{x:e}/0x{:08x}", x.to_bits())
}

// ---------------------------------------------------------------------------------------------

const LARGE_Q: usize = 48;
const LARGE_T: usize = 400;

struct Params {
    profile: Profile,
    cap_id: usize,
    budget: usize,
    queries: usize,
    /// upper bound of the number of documents of a corpus of the large profile
    max_docs: usize,
}

fn case(case: u64, rng: &mut Rng, rep: &mut Report, p: &Params) {
    let table = my_fieldnorm_table();
    let corpus = gen_corpus(rng, &table, p);
    let sch = mk_schema(corpus.body_opt);
    let n = corpus.docs.len();
    let by_id = ids_to_docs(&corpus.docs);
    let pb = corpus.body_opt == IndexRecordOption::WithFreqsAndPositions;
    // layouts: one segment; 1-2 random segmentations; sometimes merged; sometimes with deletes.
    // Large profile: the one segment spans several union windows; the same documents are also
    // indexed as chunks that all stay below one window (sometimes merged back into one segment)
    let large = p.profile == Profile::Large;
    let mut specs: Vec<(String, Vec<usize>, Vec<u64>, usize)> = vec![("1-segment".into(), vec![], vec![], 0)];
    if large {
        let step = rng.urange(700, WINDOW - 1);
        let cuts: Vec<usize> = (1..).map(|k| k * step).take_while(|c| *c < n).collect();
        let nchunks = cuts.len() + 1;
        let merge = if rng.chance(1, 3) { nchunks } else { 0 };
        specs.push((
            format!("{nchunks}-chunks-below-one-window{}", if merge > 0 { "+merge-all" } else { "" }),
            cuts,
            vec![],
            merge,
        ));
    }
    let extra = if large { 1 } else { rng.urange(1, 2) };
    for _ in 0..extra {
        let nseg = rng.urange(2, 8).min(n.max(1));
        let cuts = random_cuts(rng, n, nseg);
        let merge = if cuts.len() >= 2 && rng.chance(1, 4) { 2 } else { 0 };
        specs.push((
            format!("{}-chunks{}", cuts.len() + 1, if merge > 0 { "+merge2" } else { "" }),
            cuts,
            vec![],
            merge,
        ));
    }
    if rng.chance(1, 3) {
        let nseg = rng.urange(1, 4).min(n.max(1));
        let cuts = random_cuts(rng, n, nseg);
        let dels: Vec<u64> = (1..=n as u64).filter(|_| rng.chance(1, 5)).collect();
        if !dels.is_empty() && dels.len() < n {
            specs.push((format!("{}-chunks+deletes", cuts.len() + 1), cuts, dels, 0));
        }
    }
    let mut layouts: Vec<Layout> = vec![];
    for (name, cuts, dels, merge) in specs {
        match open_layout(&sch, &corpus, name, &cuts, &dels, merge) {
            Ok(l) => layouts.push(l),
            Err((call, e)) => {
                rep.violation(format!("api-error:{call}"), json!({"error": e, "case": case}));
                return;
            }
        }
    }
    rep.count("corpora", 1);
    rep.count("segmentations", layouts.len() as u64);
    let corpus_desc = json!({
        "case": case, "profile": format!("{:?}", p.profile), "docs": n, "body_index_option": format!("{:?}", corpus.body_opt),
        "focus_word_presence": corpus.presence,
        "layouts": layouts.iter().map(|l| json!({"name": l.name, "segments": l.nseg,
             "max_docs": l.searcher.segment_readers().iter().map(|s| s.max_doc()).collect::<Vec<_>>()})).collect::<Vec<_>>(),
        "max_body_len": corpus.docs.iter().map(|d| d.body.len()).max().unwrap_or(0),
    });
    // statistics against the documents themselves (no deletes, so nothing is an estimate)
    let model_tokens: HashMap<TF, u64> = [
        (TF::Body, corpus.docs.iter().map(|d| d.body.len() as u64).sum()),
        (TF::Title, corpus.docs.iter().map(|d| d.title.len() as u64).sum()),
    ]
    .into_iter()
    .collect();
    for l in &layouts {
        rep.observe("segments", l.nseg.to_string());
        rep.observe("layout_kind", if l.deletes { "deletes" } else if l.merged { "merged" } else { "plain" });
        if l.deletes {
            continue;
        }
        if l.n_docs != n as u64 {
            rep.violation(
                "stats:total-docs-differs-from-number-of-documents",
                json!({"layout": l.name, "sum_max_doc": l.n_docs, "documents": n, "corpus": corpus_desc}),
            );
        }
        for f in [TF::Body, TF::Title] {
            if l.tokens[&f] != model_tokens[&f] {
                rep.violation(
                    "stats:total-num-tokens-differs-from-sum-of-field-lengths",
                    json!({"layout": l.name, "field": format!("{f:?}"), "total_num_tokens": l.tokens[&f],
                           "sum_of_lengths": model_tokens[&f], "corpus": corpus_desc}),
                );
            }
        }
    }
    for qi in 0..p.queries {
        let (q, qkind) = gen_query(rng, pb, p.profile);
        let qdesc = q.describe();
        let query = q.to_query(&sch);
        let n_leaves = q.n_leaves().max(1);
        let boosts = boost_depth(&q);
        let mut terms = vec![];
        q.terms(&mut terms);
        rep.count("corpus_query_pairs", 1);
        rep.observe("query_kind", qkind);
        // scores per layout keyed by document id (for the cross-segmentation comparison)
        let mut per_layout_scores: Vec<Option<HashMap<u64, f32>>> = vec![];
        for li in 0..layouts.len() {
            let mut failed = None;
            for (f, w) in &terms {
                if let Err((call, e)) = layouts[li].load_term(&sch, *f, *w) {
                    failed = Some((call, e));
                    break;
                }
            }
            if let Some((call, e)) = failed {
                rep.violation(format!("api-error:{call}"), json!({"error": e, "corpus": corpus_desc}));
                per_layout_scores.push(None);
                continue;
            }
            let l = &layouts[li];
            // document frequencies against the documents
            if !l.deletes {
                for (f, w) in &terms {
                    let model_df = corpus
                        .docs
                        .iter()
                        .filter(|d| if *f == TF::Body { d.body.contains(w) } else { d.title.contains(w) })
                        .count() as u64;
                    if l.terms[&(*f, *w)].0 != model_df {
                        rep.violation(
                            "stats:doc-freq-differs-from-number-of-documents-containing-the-term",
                            json!({"layout": l.name, "term": format!("{f:?}:w{w}"), "doc_freq": l.terms[&(*f, *w)].0,
                                   "documents_containing": model_df, "corpus": corpus_desc}),
                        );
                    }
                }
            }
            let searcher = &l.searcher;
            let hits: Vec<Hit> = match catch_search(|| searcher.search(&*query, &Exhaustive)) {
                Ok(Ok(h)) => h,
                Ok(Err(e)) => {
                    rep.violation(
                        "api-error:search[scoring-collector]",
                        json!({"error": e.to_string(), "query": qdesc, "corpus": corpus_desc}),
                    );
                    per_layout_scores.push(None);
                    continue;
                }
                Err(pn) => {
                    rep.violation(panic_sig(&pn), json!({"panic": pn, "query": qdesc, "corpus": corpus_desc}));
                    per_layout_scores.push(None);
                    continue;
                }
            };
            rep.count("searches", 1);
            let m = hits.len();
            rep.evals(m as u64);
            rep.count("scored_docs", m as u64);
            let mut scores_by_id = HashMap::with_capacity(m);
            let mut by_addr: HashMap<DocAddress, f32> = HashMap::with_capacity(m);
            let mut reported = 0;
            for h in &hits {
                scores_by_id.insert(h.id, h.score);
                by_addr.insert(h.addr, h.score);
                let Some(&di) = by_id.get(&h.id) else {
                    rep.harness_error(format!("case {case}: unknown id {}", h.id));
                    return;
                };
                let mdoc = &corpus.docs[di];
                let ctx = DocCtx {
                    lay: l,
                    table: &table,
                    mdoc,
                    addr: h.addr,
                };
                // field-norm byte against the document's real length (quantised = largest
                // representable length <= real length), per field used by the query
                let seg = h.addr.segment_ord as usize;
                let mut max_tf = 0u32;
                let mut fid_seen = 0u8;
                for (f, w) in &terms {
                    let len = if *f == TF::Body { mdoc.body.len() } else { mdoc.title.len() } as u32;
                    let fid = l.fnorm[seg][f].fieldnorm_id(h.addr.doc_id);
                    fid_seen = fid_seen.max(fid);
                    if fid != floor_bucket(&table, len) && reported < 3 {
                        reported += 1;
                        rep.violation(
                            "fieldnorm:id-is-not-the-largest-representable-length-below-the-field-length",
                            json!({"layout": l.name, "field": format!("{f:?}"), "length": len, "fieldnorm_id": fid,
                                   "expected_id": floor_bucket(&table, len), "doc_id_field": h.id, "corpus": corpus_desc}),
                        );
                    }
                    let model_tf = if *f == TF::Body { &mdoc.body } else { &mdoc.title }
                        .iter()
                        .filter(|x| *x == w)
                        .count() as u32;
                    let post_tf = l.terms[&(*f, *w)].1[seg].get(&h.addr.doc_id).copied().unwrap_or(0);
                    max_tf = max_tf.max(post_tf);
                    if model_tf != post_tf && reported < 3 {
                        reported += 1;
                        rep.violation(
                            "stats:postings-term-freq-differs-from-occurrences-in-the-document",
                            json!({"layout": l.name, "term": format!("{f:?}:w{w}"), "term_freq": post_tf,
                                   "occurrences": model_tf, "doc_id_field": h.id, "corpus": corpus_desc}),
                        );
                    }
                }
                rep.observe("fieldnorm_id_of_scored_doc", format!("{fid_seen:03}"));
                // which window of the buffered union the document falls into (0 = first)
                let win = (h.addr.doc_id as usize / WINDOW).min(3);
                if max_tf > 1 || n_leaves >= 2 || l.nseg >= 2 {
                    rep.nontrivial(format!(
                        "{qkind}|n{}|s{}|w{win}|fn{}|tf{}",
                        n_leaves.min(4),
                        l.nseg,
                        fid_seen,
                        match max_tf {
                            0 => "0",
                            1 => "1",
                            2..=9 => "2-9",
                            10..=99 => "10-99",
                            _ => "100+",
                        }
                    ));
                }
                match eval(&q, 1.0, &ctx) {
                    None => {
                        if reported < 3 {
                            reported += 1;
                            rep.violation(
                                "score:document-scored-although-the-query-does-not-match-it-in-the-oracle",
                                json!({"layout": l.name, "query": qdesc, "doc_id_field": h.id, "score": fx(h.score), "corpus": corpus_desc}),
                            );
                        }
                    }
                    Some(e) => {
                        if win >= 1 {
                            rep.count("scored_docs_beyond_first_union_window", 1);
                            if e.k >= 2 {
                                rep.count("scored_docs_beyond_first_union_window_matching_several_clauses", 1);
                                rep.observe("union_window_of_doc_matching_several_clauses", format!("{qkind}|w{win}"));
                            }
                        }
                        let tol = tolerance(n_leaves, boosts, &e);
                        if !((h.score - e.v).abs() <= tol) && reported < 3 {
                            reported += 1;
                            rep.violation(
                                format!(
                                    "score:differs-from-bm25-formula[{}]",
                                    if n_leaves == 1 { "single-clause" } else { "several-clauses" }
                                ),
                                json!({"layout": l.name, "segments": l.nseg, "query": qdesc, "query_kind": qkind,
                                       "doc_id_field": h.id, "addr": [h.addr.segment_ord, h.addr.doc_id],
                                       "score": fx(h.score), "formula": fx(e.v), "tolerance": format!("{tol:e}"),
                                       "ulps_apart": ulps_apart(h.score, e.v),
                                       "total_docs": l.n_docs, "tokens": format!("{:?}", l.tokens),
                                       "doc_freqs": terms.iter().map(|(f, w)| json!([format!("{f:?}:w{w}"), l.terms[&(*f, *w)].0])).collect::<Vec<_>>(),
                                       "corpus": corpus_desc}),
                            );
                        } else if h.score.to_bits() == e.v.to_bits() {
                            rep.count("scores_bit_identical_to_formula", 1);
                        }
                    }
                }
            }
            if case < 2 && qi < 2 && li < 2 && m > 0 {
                let h = &hits[m / 2];
                rep.sample(json!({"corpus": corpus_desc, "layout": l.name, "query": qdesc, "matches": m,
                    "doc": [h.addr.segment_ord, h.addr.doc_id], "score": fx(h.score),
                    "formula": eval(&q, 1.0, &DocCtx{lay: l, table: &table, mdoc: &corpus.docs[by_id[&h.id]], addr: h.addr}).map(|e| fx(e.v))}));
            }
            // ---- explain
            if m > 0 {
                let mut picks: Vec<usize> = vec![0, m - 1, m / 2];
                let best = (0..m).max_by(|a, b| hits[*a].score.partial_cmp(&hits[*b].score).unwrap()).unwrap();
                picks.push(best);
                for _ in 0..12.min(m) {
                    picks.push(rng.usize_below(m));
                }
                // both sides of every union-window boundary inside a segment (explain seeks from
                // the start of the segment: a seek further than one window for those documents)
                let mut boundary_picks = 0;
                for i in 1..m {
                    let (a, b) = (hits[i - 1].addr, hits[i].addr);
                    if a.segment_ord == b.segment_ord
                        && a.doc_id as usize / WINDOW != b.doc_id as usize / WINDOW
                        && boundary_picks < 8
                    {
                        boundary_picks += 1;
                        picks.push(i - 1);
                        picks.push(i);
                    }
                }
                picks.sort_unstable();
                picks.dedup();
                for pi in picks {
                    let h = &hits[pi];
                    rep.count("explains", 1);
                    if h.addr.doc_id as usize >= WINDOW {
                        rep.count("explains_beyond_first_union_window", 1);
                    }
                    match catch_search(|| query.explain(searcher, h.addr)) {
                        Ok(Ok(ex)) => {
                            let v = ex.value();
                            let ok = if is_bare_leaf(&q) {
                                v.to_bits() == h.score.to_bits()
                            } else {
                                let e = Ev { v: h.score, mag: h.score.abs(), k: 1 };
                                (v - h.score).abs() <= tolerance(n_leaves, boosts, &e)
                            };
                            if !ok {
                                rep.violation(
                                    format!(
                                        "explain:value-differs-from-collected-score[{}]",
                                        if is_bare_leaf(&q) {
                                            "bare-clause,bit-exact"
                                        } else if n_leaves == 1 {
                                            "single-clause"
                                        } else {
                                            "several-clauses"
                                        }
                                    ),
                                    json!({"layout": l.name, "query": qdesc, "query_kind": qkind, "addr": [h.addr.segment_ord, h.addr.doc_id],
                                           "score": fx(h.score), "explain_value": fx(v), "ulps_apart": ulps_apart(v, h.score),
                                           "explanation": serde_json::from_str::<Value>(&ex.to_pretty_json()).unwrap_or(Value::Null),
                                           "corpus": corpus_desc}),
                                );
                            }
                        }
                        Ok(Err(e)) => rep.violation(
                            "explain:error-for-a-matching-document",
                            json!({"layout": l.name, "query": qdesc, "addr": [h.addr.segment_ord, h.addr.doc_id], "error": e.to_string(), "corpus": corpus_desc}),
                        ),
                        Err(pn) => rep.violation(
                            panic_sig(&pn).replace("panic-in-search:", "explain:panic:"),
                            json!({"panic": pn, "call": "Query::explain on a matching document", "query": qdesc,
                                   "addr": [h.addr.segment_ord, h.addr.doc_id], "layout": l.name, "corpus": corpus_desc}),
                        ),
                    }
                }
            }
            // ---- other collectors / K on the same searcher
            let mut variants: Vec<(&'static str, Result<Vec<(Score, DocAddress)>, String>)> = vec![];
            let run = |name: &'static str,
                       f: &dyn Fn() -> tantivy::Result<Vec<(Score, DocAddress)>>|
             -> (&'static str, Result<Vec<(Score, DocAddress)>, String>) {
                (
                    name,
                    match catch_search(f) {
                        Ok(Ok(v)) => Ok(v),
                        Ok(Err(e)) => Err(e.to_string()),
                        Err(pn) => Err(pn),
                    },
                )
            };
            let ksmall = *rng.pick(&[1usize, 2, 5, 10]);
            variants.push(run("TopDocs(all).order_by_score", &|| {
                searcher.search(&*query, &TopDocs::with_limit(m + 5).order_by_score())
            }));
            variants.push(run("TopDocs(small K).order_by_score", &|| {
                searcher.search(&*query, &TopDocs::with_limit(ksmall).order_by_score())
            }));
            variants.push(run("TopDocs(small K, offset).order_by_score", &|| {
                searcher.search(&*query, &TopDocs::with_limit(ksmall).and_offset(1).order_by_score())
            }));
            variants.push(run("TopDocs(all).order_by(SimilarityScore)", &|| {
                searcher.search(
                    &*query,
                    &TopDocs::with_limit(m + 5).order_by((SortBySimilarityScore, Order::Desc)),
                )
            }));
            variants.push(run("TopDocs(all).tweak_score(identity)", &|| {
                searcher.search(
                    &*query,
                    &TopDocs::with_limit(m + 5)
                        .tweak_score(move |_seg: &SegmentReader| move |_doc: DocId, score: Score| score),
                )
            }));
            for (name, res) in variants {
                rep.count("searches", 1);
                rep.observe("collector", name);
                match res {
                    Err(e) => {
                        let sig = if e.starts_with(PANIC_PREFIX) {
                            panic_sig(&e)
                        } else {
                            "api-error:search[TopDocs]".to_string()
                        };
                        rep.violation(sig, json!({"collector": name, "error": e, "query": qdesc, "corpus": corpus_desc}));
                    }
                    Ok(list) => {
                        let mut bad = 0;
                        for (s, a) in &list {
                            let Some(&es) = by_addr.get(a) else {
                                if bad < 1 {
                                    bad += 1;
                                    rep.violation(
                                        "collector-dependence:document-returned-that-the-scoring-collector-did-not-see",
                                        json!({"collector": name, "query": qdesc, "addr": [a.segment_ord, a.doc_id], "corpus": corpus_desc}),
                                    );
                                }
                                continue;
                            };
                            rep.count("scores_compared_across_collectors", 1);
                            let e = Ev { v: es, mag: es.abs(), k: 1 };
                            let ok = if n_leaves == 1 {
                                s.to_bits() == es.to_bits()
                            } else {
                                (s - es).abs() <= tolerance(n_leaves, boosts, &e)
                            };
                            if !ok && bad < 1 {
                                bad += 1;
                                // one specific defect: a top-level disjunction-max of term clauses is
                                // collected through block-WAND, which adds the clause scores up
                                let di = by_id[&hits.iter().find(|h| h.addr == *a).map(|h| h.id).unwrap_or(0)];
                                let ctx = DocCtx { lay: l, table: &table, mdoc: &corpus.docs[di], addr: *a };
                                let is_sum = dismax_sum(&q, &ctx)
                                    .map(|sum| (s - sum).abs() <= 8.0 * n_leaves as f32 * ulp(sum))
                                    .unwrap_or(false);
                                let sig = if is_sum && name.contains("order_by_score") {
                                    "collector-dependence:top-level-disjunction-max-scored-as-plain-sum-by-TopDocs-order_by_score".to_string()
                                } else {
                                    format!(
                                        "collector-dependence:score-differs-between-collectors[{}]",
                                        if n_leaves == 1 { "single-clause" } else { "several-clauses" }
                                    )
                                };
                                rep.violation(
                                    sig,
                                    json!({"collector": name, "layout": l.name, "query": qdesc, "query_kind": qkind,
                                           "addr": [a.segment_ord, a.doc_id], "score_from_this_collector": fx(*s),
                                           "score_from_scoring_collector": fx(es), "ulps_apart": ulps_apart(*s, es),
                                           "matches": m, "corpus": corpus_desc}),
                                );
                            }
                        }
                    }
                }
            }
            per_layout_scores.push(Some(scores_by_id));
        }
        // ---- segmentation independence (layouts without deletes)
        let base = layouts
            .iter()
            .position(|l| !l.deletes)
            .and_then(|i| per_layout_scores[i].as_ref().map(|s| (i, s)));
        if let Some((bi, bs)) = base {
            for (li, other) in per_layout_scores.iter().enumerate() {
                if li == bi || layouts[li].deletes {
                    continue;
                }
                let Some(os) = other else { continue };
                rep.count("segmentation_pairs_compared", 1);
                let ids_a: HashSet<&u64> = bs.keys().collect();
                let ids_b: HashSet<&u64> = os.keys().collect();
                if ids_a != ids_b {
                    rep.violation(
                        "segmentation:different-set-of-scored-documents",
                        json!({"query": qdesc, "a": layouts[bi].name, "b": layouts[li].name, "count_a": bs.len(), "count_b": os.len(), "corpus": corpus_desc}),
                    );
                    continue;
                }
                for (id, sa) in bs {
                    let sb = os[id];
                    let e = Ev { v: *sa, mag: sa.abs(), k: 1 };
                    let ok = if n_leaves == 1 {
                        sa.to_bits() == sb.to_bits()
                    } else {
                        (sa - sb).abs() <= tolerance(n_leaves, boosts, &e)
                    };
                    if !ok {
                        rep.violation(
                            format!(
                                "segmentation:score-depends-on-the-segmentation[{}]",
                                if n_leaves == 1 { "single-clause" } else { "several-clauses" }
                            ),
                            json!({"query": qdesc, "doc_id_field": id, "a": layouts[bi].name, "score_a": fx(*sa),
                                   "b": layouts[li].name, "score_b": fx(sb), "ulps_apart": ulps_apart(*sa, sb), "corpus": corpus_desc}),
                        );
                        break;
                    }
                }
            }
        }
    }
}

/// the public `Bm25Weight` API on all 256 field-norm ids (real documents cannot reach the upper
/// buckets: id 255 is a 2-billion-token field), and the public field-norm code functions
fn weight_api_case(_case: u64, rng: &mut Rng, rep: &mut Report) {
    let table = my_fieldnorm_table();
    let total_docs = match rng.below(3) {
        0 => rng.range(1, 100),
        1 => rng.range(100, 1_000_000),
        _ => rng.range(1_000_000, 4_000_000_000),
    };
    let df = match rng.below(4) {
        0 => 1,
        1 => total_docs,
        _ => rng.range(1, total_docs),
    };
    let avg = match rng.below(3) {
        0 => rng.range(1, 20) as f32,
        1 => (rng.f64() * 1000.0 + 0.01) as f32,
        _ => (rng.f64() * 1.0e6 + 1.0) as f32,
    };
    let boost = *rng.pick(&[1.0f32, 0.5, 2.0, 3.7]);
    let w = Bm25Weight::for_one_term(df, total_docs, avg).boost_by(boost);
    let w2 = Bm25Weight::for_one_term_without_explain(df, total_docs, avg).boost_by(boost);
    let tfs = [1u32, 2, 3, 10, 1000, rng.range(1, 5000) as u32, 2_013_265_944];
    for id in 0..=255u8 {
        rep.eval();
        if FieldNormReader::id_to_fieldnorm(id) != table[id as usize] {
            rep.violation(
                "fieldnorm:id_to_fieldnorm-differs-from-the-documented-code",
                json!({"id": id, "got": FieldNormReader::id_to_fieldnorm(id), "expected": table[id as usize]}),
            );
        }
        for len in [table[id as usize].saturating_sub(1), table[id as usize], table[id as usize].saturating_add(1)] {
            if FieldNormReader::fieldnorm_to_id(len) != floor_bucket(&table, len) {
                rep.violation(
                    "fieldnorm:fieldnorm_to_id-is-not-the-largest-representable-length-below",
                    json!({"length": len, "got": FieldNormReader::fieldnorm_to_id(len), "expected": floor_bucket(&table, len)}),
                );
            }
        }
        for tf in tfs {
            let got = w.score(id, tf);
            let exp = bm25(idf(df, total_docs), boost, tf, table[id as usize], avg);
            rep.count("weight_api_scores", 1);
            if !((got - exp).abs() <= 2.0 * ulp(exp)) {
                rep.violation(
                    "score:Bm25Weight-score-differs-from-bm25-formula",
                    json!({"doc_freq": df, "total_docs": total_docs, "avg_fieldnorm": avg, "boost": boost,
                           "fieldnorm_id": id, "term_freq": tf, "got": fx(got), "formula": fx(exp), "ulps_apart": ulps_apart(got, exp)}),
                );
                return;
            }
            let ex = w.explain(id, tf).value();
            if ex.to_bits() != got.to_bits() || w2.score(id, tf).to_bits() != got.to_bits() {
                rep.violation(
                    "explain:Bm25Weight-explain-value-differs-from-score",
                    json!({"fieldnorm_id": id, "term_freq": tf, "score": fx(got), "explain": fx(ex), "without_explain": fx(w2.score(id, tf))}),
                );
                return;
            }
        }
        rep.nontrivial(format!("weight-api|fn{id}"));
        rep.observe("fieldnorm_id_via_weight_api", format!("{id:03}"));
    }
}

fn main() {
    let ctx = Ctx::from_env("C12", "exploration");
    let p = Params {
        profile: Profile::Small,
        cap_id: ctx.scale(122, 132),
        budget: ctx.scale(120_000, 250_000),
        queries: 10,
        max_docs: 0,
    };
    let n = ctx.scale(100, 2000) as u64;
    let mut rep = run_cases(&ctx, "bm25", n, |c, rng, rep| case(c, rng, rep, &p));
    // segments larger than the 4096-document window of the buffered union scorer
    let pl = Params {
        profile: Profile::Large,
        cap_id: 72,
        budget: ctx.scale(300_000, 600_000),
        queries: 8,
        max_docs: ctx.scale(13_000, 30_000),
    };
    let nl = ctx.scale(LARGE_Q, LARGE_T) as u64;
    rep.merge(run_cases(&ctx, "bm25-large-segments", nl, |c, rng, rep| case(c, rng, rep, &pl)));
    rep.merge(run_cases(&ctx, "weight-api", ctx.scale(40, 1000) as u64, weight_api_case));
    let mut notes = BTreeMap::new();
    notes.insert("pairs", rep.counters.get("corpus_query_pairs").copied().unwrap_or(0));
    simple_finish(
        &ctx,
        rep,
        "evaluation = one scored (query, document, segmentation): the score from an exhaustive scoring collector compared with an f32 evaluation of idf*(1+k1)*boost*tf/(tf+k1*(1-b+b*dl/avgdl)) from Searcher::doc_freq, sum of max_doc, sum of total_num_tokens, postings term_freq and the field-norm byte (decoded with an independently written table), summed / maxed per boolean / disjunction-max structure; plus explain() on sampled documents, five other collector/K variants and the same documents under 2-5 segmentations; plus the public Bm25Weight API on all 256 field-norm ids. Stream bm25 = corpora of <= 500 documents with field lengths across the reachable field-norm buckets; stream bm25-large-segments = corpora of 4097..13k (thorough 30k) short documents whose single segment spans several 4096-document windows of the buffered union scorer, also indexed as chunks below one window (sometimes merged back), union-heavy queries, explain() on both sides of every window boundary. Non-trivial = tf>1 or >=2 scoring clauses or >=2 segments. Distinct = query kind x clause count x segment count x union window of the document x field-norm id x tf class.",
        ctx.scale(500, 5000),
        &[
            "total docs = sum of max_doc (deleted documents count), as documented for Bm25StatisticsProvider",
            "phrase frequency = number of start positions of the phrase in the generated token list (slop 0, single-valued field)",
            "tolerance: 2 ulp for a single scoring clause, 4*n ulp of the summed magnitude for n clauses; bit-identity is required for explain() of a bare term/phrase query, and for a single clause across collectors, K and segmentations",
            "field lengths reach field-norm ids up to ~130 with real documents (ids above need > 200k tokens per field); all 256 ids are covered through the public Bm25Weight / FieldNormReader functions",
            "bare AllQuery clauses, minimum_should_match, negative boosts and MustNot phrase clauses are not generated",
        ],
    );
}
