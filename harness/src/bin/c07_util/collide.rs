//! Workload helper (never part of the oracle): builds DISTINCT in-memory term keys that have the
//! same 32-bit hash in the indexing-time term table (`stacker`, murmurhash2 of the `murmurhash32`
//! crate), with the difference confined to a chosen set of byte positions. Two terms only ever
//! reach the table's key comparison when their hashes are equal, so without such inputs the
//! comparison (chunked, with an overlapping tail) is never asked to tell two different keys apart.
//!
//! The hash is re-implemented here from the published algorithm and checked against the reference
//! vectors of the crate (`self_test`). It only steers the generator: if it were wrong, the planted
//! terms would simply not collide (a weaker workload, never a false alarm).
use std::collections::HashMap;

use tvmon::rng::{mix, Rng};

const SEED: u32 = 3_242_157_231;
const M: u32 = 0x5bd1_e995;

#[inline]
fn absorb_word(h: u32, w: &[u8]) -> u32 {
    let mut k = u32::from_le_bytes([w[0], w[1], w[2], w[3]]);
    k = k.wrapping_mul(M);
    k ^= k >> 24;
    k = k.wrapping_mul(M);
    h.wrapping_mul(M) ^ k
}

#[inline]
fn finish(mut h: u32, rem: &[u8]) -> u32 {
    if !rem.is_empty() {
        for (i, &b) in rem.iter().enumerate() {
            h ^= (b as u32) << (8 * i);
        }
        h = h.wrapping_mul(M);
    }
    h ^= h >> 13;
    h = h.wrapping_mul(M);
    h ^ (h >> 15)
}

pub fn murmur2(key: &[u8]) -> u32 {
    let mut h = SEED ^ key.len() as u32;
    let nw = key.len() / 4;
    for w in 0..nw {
        h = absorb_word(h, &key[4 * w..4 * w + 4]);
    }
    finish(h, &key[4 * nw..])
}

/// reference vectors of the murmurhash32 crate
pub fn self_test() -> bool {
    murmur2(b"") == 3_632_506_080
        && murmur2(b"a") == 455_683_869
        && murmur2(b"ab") == 2_448_092_234
        && murmur2(b"abc") == 2_066_295_634
        && murmur2(b"abcd") == 2_588_571_162
        && murmur2(b"abcde") == 2_988_696_942
        && murmur2(b"abcdefghijklmnop") == 2_350_868_870
}

#[derive(Clone, Copy, PartialEq, Eq, Debug)]
pub enum Alphabet {
    /// a-z0-9: a token of every tokenizer used by the check ("default" keeps it as it is)
    LowerAlnum,
    /// any byte (bytes fields, numeric values)
    Bytes,
}

impl Alphabet {
    pub fn size(self) -> u64 {
        match self {
            Alphabet::LowerAlnum => 36,
            Alphabet::Bytes => 256,
        }
    }
    #[inline]
    fn draw(self, rng: &mut Rng) -> u8 {
        match self {
            Alphabet::LowerAlnum => b"abcdefghijklmnopqrstuvwxyz0123456789"[rng.usize_below(36)],
            Alphabet::Bytes => rng.next_u64() as u8,
        }
    }
}

/// A family of keys of one length: `heads[i] ++ body` with the bytes of `body` at `holes`
/// (positions in the whole key, sorted, all >= head length) drawn from `alphabet`.
pub struct Template {
    /// alternative fixed beginnings of equal length (e.g. the 4-byte ids of different fields)
    pub heads: Vec<Vec<u8>>,
    /// the whole key (the head part is overwritten per candidate)
    pub key: Vec<u8>,
    pub holes: Vec<usize>,
    pub alphabet: Alphabet,
}

impl Template {
    fn candidate(&self, base: u64, i: u64, out: &mut Vec<u8>) {
        let mut r = Rng::new(mix(&[base, i]));
        out.clear();
        out.extend_from_slice(&self.key);
        if self.heads.len() > 1 {
            let h = &self.heads[r.usize_below(self.heads.len())];
            out[..h.len()].copy_from_slice(h);
        } else if let Some(h) = self.heads.first() {
            out[..h.len()].copy_from_slice(h);
        }
        for &p in &self.holes {
            out[p] = self.alphabet.draw(&mut r);
        }
    }

    fn space(&self) -> u64 {
        let mut s = self.heads.len().max(1) as u64;
        for _ in 0..self.holes.len() {
            s = s.saturating_mul(self.alphabet.size());
        }
        s
    }
}

/// Two keys that differ inside a single aligned 4-byte word only (or inside the 1..3 tail bytes
/// only) never have the same hash: every step of the hash is a bijection of the state for a fixed
/// input word. The variable bytes must touch at least two words.
pub fn can_collide(holes: &[usize], nheads: usize) -> bool {
    nheads > 1 || matches!((holes.first(), holes.last()), (Some(a), Some(b)) if a / 4 != b / 4)
}

/// Birthday search: up to `want` pairs of distinct keys of the template with equal murmurhash2.
/// The internal hash state right after the last word that can differ decides the final hash
/// (all later steps are bijections of the state for a fixed rest of the key), so only the words
/// between the first and the last variable byte are hashed per candidate.
pub fn find_pairs(rng: &mut Rng, t: &Template, want: usize, max_candidates: u64) -> Vec<(Vec<u8>, Vec<u8>)> {
    let len = t.key.len();
    let mut out = vec![];
    if t.holes.is_empty() && t.heads.len() < 2 {
        return out;
    }
    let first_var = if t.heads.len() > 1 { 0 } else { t.holes[0] };
    let last_var = t.holes.last().copied().unwrap_or(0).max(if t.heads.len() > 1 { t.heads[0].len() - 1 } else { 0 });
    let nw = len / 4;
    let w0 = first_var / 4;
    // the tail (len % 4 bytes) is only folded in when a variable byte lies in it
    let in_tail = last_var / 4 >= nw;
    let w1 = if in_tail { nw } else { last_var / 4 + 1 };
    let mut h0 = SEED ^ len as u32;
    let head = t.heads.first().cloned().unwrap_or_default();
    let mut fixed = t.key.clone();
    fixed[..head.len()].copy_from_slice(&head);
    for w in 0..w0 {
        h0 = absorb_word(h0, &fixed[4 * w..4 * w + 4]);
    }
    let budget = max_candidates.min(t.space().saturating_mul(3));
    let base = rng.next_u64();
    let mut seen: HashMap<u32, u64> = HashMap::with_capacity(budget.min(1 << 18) as usize);
    let mut cand = Vec::with_capacity(len);
    let mut other = Vec::with_capacity(len);
    for i in 0..budget {
        t.candidate(base, i, &mut cand);
        let mut h = h0;
        for w in w0..w1 {
            h = absorb_word(h, &cand[4 * w..4 * w + 4]);
        }
        if in_tail {
            h = finish(h, &cand[4 * nw..]);
        }
        match seen.get(&h) {
            Some(&j) => {
                t.candidate(base, j, &mut other);
                if other != cand && murmur2(&other) == murmur2(&cand) {
                    // keep the pairs of one search disjoint
                    if !out.iter().any(|(a, b): &(Vec<u8>, Vec<u8>)| *a == other || *b == other || *a == cand || *b == cand) {
                        out.push((other.clone(), cand.clone()));
                        if out.len() >= want {
                            break;
                        }
                    }
                }
            }
            None => {
                seen.insert(h, i);
            }
        }
    }
    out
}

/// Where the variable bytes of a key of `len` bytes (value part starting at `vstart`) are put,
/// relative to the structure of a comparison done in 16-byte chunks (and 8 / 4-byte halves for
/// short keys) plus one overlapping chunk at the end: the cut points are the chunk starts, the
/// start of the overlapping end chunk(s) and the ends of the key.
pub struct Window {
    pub holes: Vec<usize>,
    pub class: &'static str,
}

pub fn pick_window(rng: &mut Rng, len: usize, vstart: usize, min_w: usize) -> Option<Window> {
    if len < vstart + min_w {
        return None;
    }
    let mut cuts: Vec<usize> = vec![vstart, len];
    let mut c = 16;
    while c < len {
        cuts.push(c);
        c += 16;
    }
    for back in [16usize, 8, 4] {
        if len > back {
            cuts.push(len - back);
        }
    }
    cuts.push(8);
    cuts.retain(|&c| c >= vstart && c <= len);
    cuts.sort_unstable();
    cuts.dedup();
    let regions: Vec<(usize, usize)> = cuts.windows(2).map(|w| (w[0], w[1])).filter(|(a, b)| b - a >= min_w).collect();
    let mode = rng.below(8);
    let span = |a: usize, b: usize| -> Vec<usize> { (a..b).collect() };
    match mode {
        0 | 1 if !regions.is_empty() => {
            // one whole region between two cut points (at most 24 variable bytes, taken from
            // either end of the region)
            let (a, b) = *rng.pick(&regions);
            let w = (b - a).min(24);
            let holes = if rng.bool() { span(a, a + w) } else { span(b - w, b) };
            Some(Window { holes, class: "whole-region" })
        }
        2 | 3 if !regions.is_empty() => {
            let (a, b) = *rng.pick(&regions);
            let w = rng.urange(min_w, (b - a).min(16));
            let o = rng.urange(a, b - w);
            Some(Window { holes: span(o, o + w), class: "inside-region" })
        }
        4 | 5 => {
            // anywhere, crossing cut points freely
            let avail = len - vstart;
            let w = rng.urange(min_w, avail.min(20));
            let o = rng.urange(vstart, len - w);
            Some(Window { holes: span(o, o + w), class: "anywhere" })
        }
        6 => {
            // two separate short runs (e.g. near the start and near the end)
            let avail = len - vstart;
            if avail < 2 * min_w + 4 {
                let w = min_w.min(avail);
                return Some(Window { holes: span(len - w, len), class: "end" });
            }
            let w1 = rng.urange(2, min_w.max(3));
            let w2 = rng.urange(2, min_w.max(3));
            let o1 = rng.urange(vstart, len - w1 - w2 - 1);
            let o2 = rng.urange(o1 + w1 + 1, len - w2);
            // bound the cost of the search on long keys
            if o2 - o1 > 400 {
                return Some(Window { holes: span(o2, o2 + w2.max(min_w).min(len - o2)), class: "anywhere" });
            }
            let mut holes = span(o1, o1 + w1);
            holes.extend(o2..o2 + w2);
            Some(Window { holes, class: "two-runs" })
        }
        _ => {
            // the last bytes / the first bytes of the value
            let w = rng.urange(min_w, (len - vstart).min(12));
            if rng.bool() {
                Some(Window { holes: span(len - w, len), class: "end" })
            } else {
                Some(Window { holes: span(vstart, vstart + w), class: "start" })
            }
        }
    }
}

/// key lengths (whole in-memory key) around the boundaries of the chunked comparison
pub fn pick_key_len(rng: &mut Rng, min_len: usize, max_len: usize) -> usize {
    const LENS: [usize; 34] = [
        7, 8, 9, 12, 15, 16, 17, 20, 24, 31, 32, 33, 40, 43, 47, 48, 49, 63, 64, 65, 79, 80, 81, 95, 96, 97, 127,
        128, 129, 255, 256, 257, 1000, 4099,
    ];
    let l = match rng.below(5) {
        0 | 1 => *rng.pick(&LENS),
        2 => rng.urange(5, 48),
        3 => rng.urange(17, 130),
        _ => rng.urange(33, 300),
    };
    l.clamp(min_len, max_len)
}
