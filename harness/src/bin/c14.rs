//! C14 — aggregations equal a direct computation and do not depend on partitioning.
//!
//! A case = one generated corpus, indexed in four partitions (1 segment; k contiguous segments;
//! k' shuffled segments; m separately searched indexes), and a few generated requests. Every
//! (corpus, request, partition) triple is compared with a naive evaluator over the model documents.
#[path = "c14_util/mod.rs"]
mod c14_util;

use std::collections::BTreeSet;
use std::ops::Bound;

use c14_util::cmp::*;
use c14_util::model::*;
use c14_util::oracle::*;
use c14_util::req::*;
use serde_json::{json, Value};
use tantivy::aggregation::agg_req::Aggregations;
use tantivy::aggregation::intermediate_agg_result::IntermediateAggregationResults;
use tantivy::aggregation::{
    AggContextParams, AggregationCollector, AggregationLimitsGuard, DistributedAggregationCollector,
};
use tantivy::query::{AllQuery, Query, RangeQuery, TermQuery};
use tantivy::schema::IndexRecordOption;
use tantivy::Term;
use tvmon::report::*;
use tvmon::rng::Rng;

#[derive(Clone, Debug)]
enum Q {
    All,
    Cat(String),
    IRange(i64, i64),
    IdRange(u64, u64),
}

fn q_matches(c: &Corpus, d: usize, q: &Q) -> bool {
    match q {
        Q::All => true,
        Q::Cat(x) => filter_matches(c, d, &FilterQ::Cat(x.clone())),
        Q::IRange(a, b) => filter_matches(c, d, &FilterQ::IRange(*a, *b)),
        Q::IdRange(a, b) => filter_matches(c, d, &FilterQ::IdRange(*a, *b)),
    }
}

fn q_build(s: &Sch, q: &Q) -> Box<dyn Query> {
    match q {
        Q::All => Box::new(AllQuery),
        Q::Cat(x) => Box::new(TermQuery::new(
            Term::from_field_text(s.f[Fd::Cat.idx()], x),
            IndexRecordOption::Basic,
        )),
        Q::IRange(a, b) => Box::new(RangeQuery::new(
            Bound::Included(Term::from_field_i64(s.f[Fd::Fi.idx()], *a)),
            Bound::Included(Term::from_field_i64(s.f[Fd::Fi.idx()], *b)),
        )),
        Q::IdRange(a, b) => Box::new(RangeQuery::new(
            Bound::Included(Term::from_field_u64(s.f[Fd::Id.idx()], *a)),
            Bound::Included(Term::from_field_u64(s.f[Fd::Id.idx()], *b)),
        )),
    }
}

/// at most 3 witnesses per signature and thread (the occurrence count is kept as a counter)
fn viol(rep: &mut Report, sig: impl Into<String>, w: Value) {
    let sig = sig.into();
    let key = format!("occurrences[{sig}]");
    let n = rep.counters.get(&key).cloned().unwrap_or(0);
    rep.count(&key, 1);
    if n < 3 {
        rep.violation(sig, w);
    }
}

fn squash(e: &str) -> String {
    let mut s: String = e
        .chars()
        .map(|c| if c.is_ascii_digit() { '#' } else { c })
        .collect();
    while s.contains("##") {
        s = s.replace("##", "#");
    }
    s.chars().take(70).collect()
}

fn ctx_params(b: &Built, limits: AggregationLimitsGuard) -> AggContextParams {
    AggContextParams::new(limits, b.index.tokenizers().clone())
}

/// Ok(json) | Err(("error"|"panic", message))
fn run_single(
    b: &Built,
    q: &dyn Query,
    req: &Aggregations,
    limits: AggregationLimitsGuard,
) -> Result<Value, (String, String)> {
    let coll = AggregationCollector::from_aggs(req.clone(), ctx_params(b, limits));
    match guarded(|| b.searcher.search(q, &coll)) {
        Ok(Ok(res)) => serde_json::to_value(&res).map_err(|e| ("error".into(), format!("serialize: {e}"))),
        Ok(Err(e)) => Err(("error".into(), e.to_string())),
        Err(p) => Err(("panic".into(), format!("{} @ {}", p.message, p.location))),
    }
}

fn run_distributed_piece(
    b: &Built,
    q: &dyn Query,
    req: &Aggregations,
    limits: AggregationLimitsGuard,
) -> Result<IntermediateAggregationResults, (String, String)> {
    let coll = DistributedAggregationCollector::from_aggs(req.clone(), ctx_params(b, limits));
    match guarded(|| b.searcher.search(q, &coll)) {
        Ok(Ok(res)) => Ok(res),
        Ok(Err(e)) => Err(("error".into(), e.to_string())),
        Err(p) => Err(("panic".into(), format!("{} @ {}", p.message, p.location))),
    }
}

fn postcard_rt(x: &IntermediateAggregationResults) -> Result<IntermediateAggregationResults, String> {
    let bytes = postcard::to_allocvec(x).map_err(|e| format!("postcard serialize: {e}"))?;
    postcard::from_bytes(&bytes).map_err(|e| format!("postcard deserialize: {e}"))
}

fn fold(pieces: Vec<IntermediateAggregationResults>) -> Result<IntermediateAggregationResults, String> {
    let mut it = pieces.into_iter();
    let mut acc = it.next().unwrap_or_default();
    for p in it {
        acc.merge_fruits(p).map_err(|e| format!("merge_fruits: {e}"))?;
    }
    Ok(acc)
}

fn fold_right(pieces: Vec<IntermediateAggregationResults>) -> Result<IntermediateAggregationResults, String> {
    let mut it = pieces.into_iter().rev();
    let mut acc = it.next().unwrap_or_default();
    for mut p in it {
        p.merge_fruits(acc).map_err(|e| format!("merge_fruits: {e}"))?;
        acc = p;
    }
    Ok(acc)
}

fn tree(mut pieces: Vec<IntermediateAggregationResults>) -> Result<IntermediateAggregationResults, String> {
    while pieces.len() > 1 {
        let mut next = vec![];
        let mut it = pieces.into_iter();
        while let Some(mut a) = it.next() {
            if let Some(b) = it.next() {
                a.merge_fruits(b).map_err(|e| format!("merge_fruits: {e}"))?;
            }
            next.push(a);
        }
        pieces = next;
    }
    Ok(pieces.pop().unwrap_or_default())
}

/// number of buckets tantivy counts against the bucket limit
fn count_buckets(aggs: &Aggs, got: &Value) -> u64 {
    let mut n = 0;
    for (name, a) in aggs {
        let g = &got[name];
        let Some(subs) = a.subs() else { continue };
        if let Agg::Filter { .. } = a {
            n += count_buckets(subs, g);
            continue;
        }
        match &g["buckets"] {
            Value::Array(bs) => {
                for b in bs {
                    n += 1 + count_buckets(subs, b);
                }
            }
            Value::Object(m) => {
                for b in m.values() {
                    n += 1 + count_buckets(subs, b);
                }
            }
            _ => {}
        }
    }
    n
}

fn shape_with_fields(aggs: &Aggs) -> String {
    fn one(a: &Agg) -> String {
        let mut f = vec![];
        // only the aggregation's own field(s)
        match a {
            Agg::Metric { field, .. }
            | Agg::Pct { field, .. }
            | Agg::Card { field, .. }
            | Agg::Range { field, .. }
            | Agg::Hist { field, .. }
            | Agg::DateHist { field, .. }
            | Agg::Terms { field, .. } => f.push(field.name()),
            Agg::Composite { sources, .. } => f.extend(sources.iter().map(|s| s.field.name())),
            _ => {}
        }
        let head = format!("{}:{}", a.kind(), f.join("+"));
        match a.subs() {
            Some(s) if !s.is_empty() => {
                let mut v: Vec<String> = s.iter().map(|(_, a)| one(a)).collect();
                v.sort();
                format!("{head}({})", v.join(","))
            }
            _ => head,
        }
    }
    let mut v: Vec<String> = aggs.iter().map(|(_, a)| one(a)).collect();
    v.sort();
    v.join(";")
}

#[derive(Clone, Copy, PartialEq, Eq, Debug)]
enum Probe {
    None,
    /// range / histogram / composite over a multi-valued field
    MvBucket,
    /// top_hits with `from` beyond the number of hits
    TopHitsFrom,
    /// range with fractional bounds on an integer field
    RangeFrac,
}

struct ReqCase {
    aggs: Aggs,
    probe: Probe,
    /// tag of the focus shape ("" = free generator)
    focus: String,
    /// the shape is about segments with many matching documents: prefer the match-all query
    prefer_all: bool,
    /// the shape is about terms / buckets that lose their documents in some partitions: prefer a
    /// filtering query
    prefer_filter: bool,
    /// memory limit of every run of this request (None = the default of 500 MB)
    mem_limit: Option<u64>,
}

/// The placeholder stream (corpora of at most a few hundred documents, at most three sub
/// aggregations) runs under a memory limit of 32 MB, far above what a correct answer needs. A
/// histogram finalised in the wrong unit (nanosecond keys, millisecond interval) fills millions of
/// gap buckets before the bucket limit is checked; the memory limit, checked up front, is what
/// bounds the time such an answer takes.
const PLACEHOLDER_MEM_LIMIT: u64 = 32 << 20;

impl ReqCase {
    fn plain(aggs: Aggs, probe: Probe) -> ReqCase {
        ReqCase {
            aggs,
            probe,
            focus: String::new(),
            prefer_all: false,
            prefer_filter: false,
            mem_limit: None,
        }
    }
    fn focus(a: ((String, Agg), String), prefer_all: bool) -> ReqCase {
        ReqCase {
            aggs: vec![a.0],
            probe: Probe::None,
            focus: a.1,
            prefer_all,
            prefer_filter: false,
            mem_limit: None,
        }
    }
    fn focus_filtered(a: ((String, Agg), String)) -> ReqCase {
        ReqCase {
            aggs: vec![a.0],
            probe: Probe::None,
            focus: a.1,
            prefer_all: false,
            prefer_filter: true,
            mem_limit: Some(PLACEHOLDER_MEM_LIMIT),
        }
    }
}

/// what a stream of cases is about
#[derive(Clone, Copy, PartialEq, Eq, Debug)]
enum Mode {
    /// every request shape
    Main,
    /// terms(min_doc_count = 0) x every sub aggregation kind under a filtering query: placeholder
    /// results of terms without matching documents in one partition merged with real results
    Placeholder,
    /// top-level terms x one histogram leaf (the fused collector) x include / exclude x hard_bounds
    Fused,
}

fn gen_req_case(rng: &mut Rng, corpus: &Corpus, mode: Mode) -> ReqCase {
    let mut g = Gen {
        rng,
        corpus,
        counter: 0,
    };
    match mode {
        Mode::Placeholder => return ReqCase::focus_filtered(g.gen_terms_mdc0_over_sub()),
        Mode::Fused => return ReqCase::focus(g.gen_fused_terms_hist(), false),
        Mode::Main => {}
    }
    // segments beyond the sub-aggregation flush threshold: mostly nested requests
    let multi_flush = corpus.docs.len() > 2048;
    // long runs of one value with a long mantissa: more metrics over the buckets of that field
    let wide_runs = !corpus.wide_run_fields().is_empty()
        || (corpus.docs.len() >= 30 && !corpus.absent_numeric_fields().is_empty());
    let r = g.rng.weighted(&[50, 10, 7, 3, 3, 10, if wide_runs { 30 } else { 8 }, 6, if multi_flush { 60 } else { 5 }, 4]);
    match r {
        9 => ReqCase::focus(g.gen_fused_terms_hist(), false),
        0 => ReqCase::plain(g.gen_request(), Probe::None),
        1 => ReqCase::plain(vec![g.gen_terms_approx()], Probe::None),
        5 => ReqCase::focus(g.gen_terms_by_key(), false),
        6 => ReqCase::focus(g.gen_same_field_metric(), wide_runs),
        7 => ReqCase::focus(g.gen_empty_parent_bucket(), false),
        8 => ReqCase::focus(g.gen_bucket_over_any_sub(), multi_flush),
        2 => {
            // multi-valued field in a value-bucketing aggregation, optionally one metric below
            let field = *g.rng.pick(&[Fd::Im, Fd::Fm]);
            let subs = if g.rng.bool() {
                vec![(
                    "vcount_1".to_string(),
                    Agg::Metric {
                        kind: MK::Count,
                        field: Fd::Id,
                        missing: None,
                        sigma: None,
                    },
                )]
            } else {
                vec![]
            };
            let a = match g.rng.below(3) {
                0 => Agg::Hist {
                    field,
                    interval: *g.rng.pick(&[2.0, 5.0, 10.0]),
                    offset: None,
                    min_doc_count: Some(1),
                    hard: None,
                    ext: None,
                    keyed: false,
                    subs,
                },
                1 => Agg::Range {
                    field,
                    ranges: vec![
                        Rg {
                            from: None,
                            to: Some(0.0),
                            key: None,
                        },
                        Rg {
                            from: Some(0.0),
                            to: None,
                            key: None,
                        },
                    ],
                    keyed: false,
                    subs,
                },
                _ => Agg::Composite {
                    sources: vec![CSrc {
                        name: "s0".into(),
                        kind: CK::Terms,
                        field,
                        asc: true,
                        missing_bucket: false,
                        missing_order: 0,
                    }],
                    size: 1000,
                    after: None,
                    subs,
                },
            };
            ReqCase::plain(vec![(format!("{}_9", a.kind()), a)], Probe::MvBucket)
        }
        3 => {
            let a = Agg::Terms {
                field: Fd::Cat,
                size: Some(200),
                segment_size: Some(400),
                min_doc_count: None,
                order: Some((OrdT::Key, true)),
                missing: None,
                show_err: None,
                approx: false,
                include: None,
                exclude: None,
                subs: vec![(
                    "tophits_1".to_string(),
                    Agg::TopHits {
                        sort: vec![(Fd::Id, true)],
                        size: 2,
                        from: Some(g.rng.urange(1, 4)),
                        dvf: vec![],
                    },
                )],
            };
            ReqCase::plain(vec![("terms_9".to_string(), a)], Probe::TopHitsFrom)
        }
        _ => {
            let a = Agg::Range {
                field: *g.rng.pick(&[Fd::Fi, Fd::Rank]),
                ranges: vec![Rg {
                    from: Some(-1.5),
                    to: Some(2.5),
                    key: None,
                }],
                keyed: false,
                subs: vec![],
            };
            ReqCase::plain(vec![("range_9".to_string(), a)], Probe::RangeFrac)
        }
    }
}


fn has_tophits_without_docvalues(aggs: &Aggs) -> bool {
    aggs.iter().any(|(_, a)| match a {
        Agg::TopHits { dvf, .. } => dvf.is_empty(),
        other => other.subs().map(has_tophits_without_docvalues).unwrap_or(false),
    })
}

fn probe_tag(p: Probe) -> &'static str {
    match p {
        Probe::MvBucket => "multivalued-bucket-field/",
        Probe::TopHitsFrom => "tophits-from-beyond-hits/",
        Probe::RangeFrac => "range-fractional-bound-on-integer-field/",
        Probe::None => "",
    }
}

/// signature of an Err / panic outcome: the message (digits squashed), never the location
fn error_signature(corpus: &Corpus, prefix: &str, kind: &str, e: &str, rc: &ReqCase) -> String {
    let msg = e.split(" @ ").next().unwrap_or(e);
    if let Some(sig) = placeholder_error_sig(&request_tags(corpus, &rc.aggs), e) {
        return sig.to_string();
    }
    if msg.contains("postcard deserialize") && has_tophits_without_docvalues(&rc.aggs) {
        // `DocSortValuesAndFields::doc_value_fields` is `skip_serializing_if = "HashMap::is_empty"`,
        // which a non self-describing format cannot read back
        return "serialisation/postcard-roundtrip-fails:top_hits-without-docvalue_fields".to_string();
    }
    if msg.contains("fetch_block requires docs sorted ascending without duplicates") && rc.probe == Probe::MvBucket {
        return "multivalued-bucket-field/duplicate-doc-ids-forwarded-to-sub-aggregation:debug_assert-in-fetch_block".to_string();
    }
    if msg.contains("out of range for slice") && rc.probe == Probe::TopHitsFrom {
        return "tophits-from-beyond-hits/panic-in-into_final_result:drain-out-of-range".to_string();
    }
    if msg.contains("fetch_block requires docs sorted ascending without duplicates") {
        let mut ct = BTreeSet::new();
        for (_, a) in &rc.aggs {
            cond_tags(a, corpus, &mut ct);
        }
        if ct.contains("terms-numeric-missing-with-sub-aggregation/") {
            // documents that take the `missing` key are appended after the documents that really
            // carry that value: the doc id block handed to the sub aggregation is not ascending
            return "terms-numeric-missing-with-sub-aggregation/unsorted-doc-ids-forwarded-to-sub-aggregation:debug_assert-in-fetch_block".to_string();
        }
    }
    if msg.contains("index out of bounds") && e.contains("bucket/composite/collector.rs") {
        return "composite-as-sub-aggregation/panic:index-out-of-bounds-in-add_intermediate_bucket_result".to_string();
    }
    if msg.contains("attempt to subtract with overflow") && e.contains("bucket/composite/collector.rs") {
        return "composite/memory-accounting:subtract-with-overflow-when-the-bucket-map-shrinks".to_string();
    }
    if msg.contains("buckets[pos].range.contains(&val)") {
        return "range/value-u64-max:debug_assert-range-contains-fails-for-the-last-open-bucket".to_string();
    }
    let file = e
        .split(" @ ")
        .nth(1)
        .and_then(|l| l.strip_prefix("/repo/"))
        .and_then(|l| l.split(':').next())
        .map(|f| format!("@{f}"))
        .unwrap_or_default();
    format!("{prefix}/{}{kind}:{}{file}", probe_tag(rc.probe), squash(msg))
}

const TAG_MISSING_IS_REAL: &str = "terms-numeric-missing-equal-to-a-real-value-with-sub-aggregation/";
const TAG_PH_HIST: &str = "terms-min_doc_count-0>histogram-on-date-field/";
const TAG_PH_RANGE: &str = "terms-min_doc_count-0>range-on-date-field/";
/// `empty_from_req` builds `Histogram { is_date_agg: false }` for a `histogram` request whatever
/// the column type, and merge_fruits keeps the flag of the left operand: when the placeholder is
/// on the left the buckets of that term are finalised as a plain numeric histogram (keys in ns
/// instead of ms, no key_as_string, interval / offset / bounds not scaled: gap filling and
/// extended bounds then run in the wrong unit - extra buckets, bucket / memory limit errors,
/// arithmetic overflow)
const SIG_PH_HIST: &str =
    "terms-min_doc_count-0/histogram-on-date-field:the-is_date_agg-flag-of-the-empty-placeholder-wins-the-merge";
/// `IntermediateRangeBucketResult::default()` has `column_type: None` and merge_fruits only merges
/// the bucket maps
const SIG_PH_RANGE: &str =
    "terms-min_doc_count-0/range-on-date-field:from_as_string-to_as_string-lost-when-the-empty-placeholder-is-the-left-operand";

fn request_tags(corpus: &Corpus, aggs: &Aggs) -> BTreeSet<&'static str> {
    let mut ct = BTreeSet::new();
    for (_, a) in aggs {
        cond_tags(a, corpus, &mut ct);
    }
    ct
}

/// the two placeholder defects, recognised by the request condition AND the place / kind of the
/// deviation (everything else keeps its generic signature)
fn placeholder_mismatch_sig(ct: &BTreeSet<&'static str>, m: &Mis) -> Option<&'static str> {
    if ct.contains(TAG_PH_HIST) && m.path.ends_with("terms>hist") && (m.what == "keys" || m.what == "buckets-len") {
        return Some(SIG_PH_HIST);
    }
    if ct.contains(TAG_PH_RANGE) && m.path.ends_with("terms>range") && m.what == "keys" && m.detail.contains("_as_string") {
        return Some(SIG_PH_RANGE);
    }
    None
}

fn placeholder_error_sig(ct: &BTreeSet<&'static str>, e: &str) -> Option<&'static str> {
    let unit_mixup = e.contains("bucket limit was exceeded")
        || e.contains("memory limit was exceeded")
        || (e.contains("with overflow") && e.contains("bucket/histogram/histogram.rs"));
    (ct.contains(TAG_PH_HIST) && unit_mixup).then_some(SIG_PH_HIST)
}

/// conditions of the request (not of the outcome) that select a specific, known defect class
fn cond_tags(a: &Agg, corpus: &Corpus, out: &mut BTreeSet<&'static str>) {
    if let Agg::Composite { sources, .. } = a {
        for s in sources {
            let histo = matches!(s.kind, CK::Hist(_) | CK::DateHist(..));
            if histo && s.missing_order == 2 {
                // `None => precompute_missing_after_key(true, ..)` makes the first page skip everything
                out.insert("composite-histogram-source-missing_order-last-skips-every-value/");
            }
            if matches!(s.kind, CK::DateHist(..))
                && corpus.docs.iter().any(|d| d.get(Fd::Fdt).iter().any(|v| matches!(v, V::D(ns) if *ns < 0)))
            {
                out.insert("composite-date_histogram-negative-timestamp/");
            }
        }
    }
    if let Agg::Terms {
        field,
        size,
        segment_size,
        order: Some((OrdT::Key, _)),
        ..
    } = a
    {
        if matches!(field.ty(), Ty::Date | Ty::Ip) {
            let size = size.unwrap_or(10);
            let seg = segment_size.unwrap_or(size.saturating_mul(10)).max(size);
            if corpus.distinct(*field) > seg as usize {
                // a segment keeps its first `segment_size` terms in VALUE order (chronological /
                // numeric address order) while the final result orders and cuts the keys by their
                // rendered STRING (RFC 3339 text without trailing zeros, dotted / colon address
                // text): the two orders disagree, so the cut-off drops buckets the final order needs
                out.insert("terms-key-order-on-date-or-ip-field-with-segment-cut/");
            }
        }
    }
    if let Agg::Terms {
        min_doc_count: Some(0),
        subs,
        ..
    } = a
    {
        // a term of a segment's dictionary without matching document in that segment gets the
        // placeholder `empty_from_req(sub aggregations)`; only the direct sub aggregations are
        // concerned (a placeholder has no buckets of its own)
        for (_, sub) in subs {
            match sub {
                Agg::Hist { field, .. } if field.ty() == Ty::Date => {
                    out.insert(TAG_PH_HIST);
                }
                Agg::Range { field, .. } if field.ty() == Ty::Date => {
                    out.insert(TAG_PH_RANGE);
                }
                _ => {}
            }
        }
    }
    if let Agg::Terms { field, missing: Some(m), subs, .. } = a {
        if m.is_number() && !subs.is_empty() {
            out.insert("terms-numeric-missing-with-sub-aggregation/");
            // the bucket of the `missing` key receives real documents AND documents without a
            // value: that is where the doc ids reach the sub aggregations out of order
            let mv = m.as_f64().unwrap_or(f64::NAN);
            let some_without = corpus.docs.iter().any(|d| d.get(*field).is_empty());
            let some_equal = corpus.docs.iter().any(|d| d.get(*field).iter().any(|v| v.num() == Some(mv)));
            if some_without && some_equal {
                out.insert(TAG_MISSING_IS_REAL);
            }
        }
    }
    if let Some(subs) = a.subs() {
        for (_, x) in subs {
            cond_tags(x, corpus, out);
        }
    }
}

struct Part {
    label: &'static str,
    built: Vec<Built>,
    absent: Vec<Fd>,
    shape: String,
    nparts: usize,
}

struct Facts<'a> {
    corpus: &'a Corpus,
    all: &'a [usize],
    matching: &'a [usize],
    rc: &'a ReqCase,
}

/// does the alternative oracle explain the whole result of top level aggregation `top`?
fn alt_explains(f: &Facts, top: &str, got: &Value, per_value: bool, trunc_date: bool) -> bool {
    let Some((_, a)) = f.rc.aggs.iter().find(|(n, _)| n == top) else {
        return false;
    };
    let env = Env {
        corpus: f.corpus,
        all_docs: f.all,
        per_value,
        trunc_date,
    };
    let exp = eval_agg(a, f.matching, &env);
    let mut c = Cmp::new();
    c.cmp(&exp, &got[top]);
    c.out.is_empty()
}

fn report_mismatches(
    f: &Facts,
    rep: &mut Report,
    mis: &[Mis],
    prefix: &str,
    part: &Part,
    got: &Value,
    witness: &Value,
) {
    let rc = f.rc;
    let corpus = f.corpus;
    let take = if rc.probe == Probe::None { 3 } else { 1 };
    let mut reported: BTreeSet<String> = BTreeSet::new();
    for m in mis.iter().take(take) {
        let mut ct = BTreeSet::new();
        let mut absent = false;
        if let Some((_, a)) = rc.aggs.iter().find(|(n, _)| *n == m.top) {
            cond_tags(a, corpus, &mut ct);
            let mut fl = vec![];
            a.fields(&mut fl);
            absent = fl.iter().any(|x| part.absent.contains(x));
        }
        let tophits_truncation = m.path.ends_with("tophits") && m.path.contains('>') && corpus.docs.len() > 2048;
        let sig = if witness["variant"] == "postcard" && has_tophits_without_docvalues(&rc.aggs) {
            // the misaligned stream can also deserialise "successfully" into different content
            "serialisation/postcard-roundtrip-fails:top_hits-without-docvalue_fields".to_string()
        } else if let Some(sig) = placeholder_mismatch_sig(&ct, m) {
            sig.to_string()
        } else if ct.contains(TAG_MISSING_IS_REAL) && m.path.contains("terms>") {
            // same defect as the debug_assert in fetch_block above, on a path without that
            // assertion: the sub aggregation of the bucket that mixes real and missing documents
            // gets a doc id block that is not ascending and reads the values of other rows
            "terms-numeric-missing-with-sub-aggregation/unsorted-doc-ids-forwarded-to-sub-aggregation:sub-aggregation-reads-wrong-rows".to_string()
        } else if tophits_truncation {
            // TopHitsSegmentCollector::prepare_max_bucket uses Vec::resize, which truncates the
            // per-bucket state when a later flush of the parent carries a smaller max bucket id
            "tophits-sub-aggregation/hits-lost-after-second-flush:prepare_max_bucket-resize-truncates".to_string()
        } else if rc.probe == Probe::MvBucket {
            if alt_explains(f, &m.top, got, true, false) {
                "multivalued-bucket-field/values-counted-instead-of-documents".to_string()
            } else {
                format!("{prefix}/multivalued-bucket-field/{}:{}", m.path, m.what)
            }
        } else if rc.probe != Probe::None {
            format!("{}{}:{}", probe_tag(rc.probe), m.path, m.what)
        } else if m.path.ends_with("xstats")
            && m.detail.ends_with("got null")
            && (m.what.starts_with("std_deviation") || m.what.starts_with("lower") || m.what.starts_with("upper"))
        {
            // rounding made the variance of (nearly) constant data slightly negative; its square
            // root is NaN, serialised as null
            "extended_stats/std_deviation-is-NaN-when-rounding-makes-the-variance-negative".to_string()
        } else if ct.contains("terms-key-order-on-date-or-ip-field-with-segment-cut/") && m.path.contains("terms") {
            "terms/_key-order-on-date-or-ip-field:segment-cut-off-in-value-order-but-final-order-by-rendered-string".to_string()
        } else if m.what == "order-key-f64-mixed" {
            "terms/_key-order-on-f64-field:integral-keys-sorted-before-fractional-keys".to_string()
        } else if ct.contains("composite-histogram-source-missing_order-last-skips-every-value/") {
            "composite/histogram-source-with-missing_order-last:first-page-skips-every-value".to_string()
        } else if ct.contains("composite-date_histogram-negative-timestamp/") && alt_explains(f, &m.top, got, false, true) {
            "composite/date_histogram-source:negative-timestamps-truncated-toward-zero".to_string()
        } else {
            format!("{prefix}/{}{}:{}", if absent { "absent-column/" } else { "" }, m.path, m.what)
        };
        if !reported.insert(sig.clone()) {
            continue;
        }
        let mut w = witness.clone();
        w["mismatch"] = json!(m.detail);
        w["partition"] = json!(part.shape);
        viol(rep, sig, w);
    }
}

fn case_fn(quick: bool, mode: Mode) -> impl Fn(u64, &mut Rng, &mut Report) + Sync {
    move |case: u64, rng: &mut Rng, rep: &mut Report| {
        let case_t0 = std::time::Instant::now();
        let sch = build_schema();
        // quick: every 10th case is a corpus just beyond a multiple of the flush threshold
        let corpus = if mode == Mode::Main {
            gen_corpus(rng, !quick || case % 6 == 5, quick && case % 10 == 7)
        } else {
            // the focused streams are about merges and collector choice, not about volume: small
            // corpora (thorough: one in nine of the fused stream beyond the flush threshold, where
            // the fused collector is fed by several blocks)
            gen_corpus(rng, !quick && mode == Mode::Fused, false)
        };
        let n = corpus.docs.len();
        let all: Vec<usize> = (0..n).collect();
        // partitions
        let k1 = rng.urange(1, 6);
        let l0: Layout = vec![all.clone()];
        let l1 = split_contiguous(rng, &all, k1);
        let mut shuffled = all.clone();
        rng.shuffle(&mut shuffled);
        let k2 = rng.urange(2, 6);
        let l2 = split_contiguous(rng, &shuffled, k2);
        // the placeholder stream is about merges: at least two separately searched indexes
        let m = rng.urange(if mode == Mode::Placeholder { 2 } else { 1 }, 3);
        let mut shuffled2 = all.clone();
        rng.shuffle(&mut shuffled2);
        let groups = split_contiguous(rng, &shuffled2, m);
        let dl: Vec<Layout> = groups
            .iter()
            .map(|g| {
                let k = rng.urange(1, 3);
                split_contiguous(rng, g, k)
            })
            .collect();
        let mut parts: Vec<Part> = vec![];
        for (label, layouts) in [
            ("direct", vec![l0]),
            ("segments", vec![l1]),
            ("segments", vec![l2]),
            ("distributed", dl),
        ] {
            let mut built = vec![];
            for l in &layouts {
                match build_index(&sch, &corpus, l) {
                    Ok(b) => built.push(b),
                    Err(e) => {
                        viol(rep, format!("api-error:index-build:{}", squash(&e)), json!({"error": e}));
                        return;
                    }
                }
            }
            let refs: Vec<&Layout> = built.iter().map(|b| &b.layout).collect();
            let absent = absent_fields(&corpus, &refs);
            let segs: Vec<String> = built.iter().map(|b| b.layout.len().to_string()).collect();
            let nparts: usize = built.iter().map(|b| b.layout.len().max(1)).sum();
            parts.push(Part {
                label,
                shape: format!("{}[{}]", if label == "distributed" { "idx" } else { "seg" }, segs.join("+")),
                built,
                absent,
                nparts,
            });
        }
        for p in &parts {
            rep.observe("partition_shape", p.shape.clone());
        }
        rep.observe("corpus_size_class", format!("{}", if n == 0 { 0 } else { (n as f64).log2() as u32 + 1 }));

        let nreq = if mode == Mode::Main { rng.urange(3, 4) } else { rng.urange(5, 6) };
        for ri in 0..nreq {
            let rc = gen_req_case(rng, &corpus, mode);
            let weights = if rc.prefer_all {
                [90, 5, 5, 0]
            } else if rc.prefer_filter {
                [8, 22, 25, 45]
            } else {
                [60, 20, 20, 0]
            };
            let q = match rng.weighted(&weights) {
                0 => Q::All,
                1 => Q::Cat(format!("c{}", rng.usize_below(corpus.cat_pool))),
                2 => {
                    let a = rng.irange(-60, 40);
                    Q::IRange(a, a + rng.irange(0, 100))
                }
                _ => {
                    // a run of consecutive documents: empties whole contiguous segments and
                    // thins out shuffled ones
                    let a = rng.range(0, n as u64);
                    Q::IdRange(a, a + rng.range(0, (n as u64 * 2 / 3).max(1)))
                }
            };
            let matching: Vec<usize> = all.iter().cloned().filter(|&d| q_matches(&corpus, d, &q)).collect();
            let req_json = aggs_json(&rc.aggs);
            let req: Aggregations = match serde_json::from_value(req_json.clone()) {
                Ok(r) => r,
                Err(e) => {
                    viol(rep, 
                        format!("api-error:request-deserialize:{}", squash(&e.to_string())),
                        json!({"request": req_json, "error": e.to_string()}),
                    );
                    continue;
                }
            };
            let env = Env {
                corpus: &corpus,
                all_docs: &all,
                per_value: false,
                trunc_date: false,
            };
            let exp = Exp::Obj(eval_aggs_map(&rc.aggs, &matching, &env));
            let shape = shape_with_fields(&rc.aggs);
            for (_, a) in &rc.aggs {
                rep.observe("nesting_shape", a.shape());
                rep.observe("depth", a.depth().to_string());
                let mut stack = vec![a];
                while let Some(x) = stack.pop() {
                    rep.observe("agg_kind", x.kind());
                    if let Some(s) = x.subs() {
                        stack.extend(s.iter().map(|(_, a)| a));
                    }
                }
            }
            rep.observe("query_kind", match q { Q::All => "all", Q::Cat(_) => "term", Q::IRange(..) => "range", Q::IdRange(..) => "id-range" });
            rep.observe("probe", format!("{:?}", rc.probe));
            if ri == 0 && !corpus.wide_run_fields().is_empty() {
                rep.count("corpora_with_a_long_run_of_one_wide_value", 1);
            }
            if !rc.focus.is_empty() {
                rep.observe("focus_shape", rc.focus.clone());
                rep.count(&format!("focus[{}]", rc.focus.split('/').next().unwrap_or("")), 1);
                if corpus.docs.len() > 2048 {
                    rep.count("focus_requests_on_multi_flush_corpora", 1);
                }
                if rc.focus.ends_with("/wide-run") {
                    rep.count("metric_requests_over_buckets_of_a_wide_run_field", 1);
                }
            }
            let witness = json!({
                "corpus": corpus.descr, "request": req_json, "query": format!("{q:?}"),
                "matching_docs": matching.len(), "request_index": ri,
            });
            let tq = q_build(&sch, &q);
            let facts = Facts {
                corpus: &corpus,
                all: &all,
                matching: &matching,
                rc: &rc,
            };
            let mut direct_ok = true;
            let mut reference: Option<Value> = None;
            // buckets in the unlimited result of every single-index partition (None: it failed)
            let mut part_buckets: Vec<Option<u64>> = vec![None; parts.len()];
            let req_t0 = std::time::Instant::now();
            for (pi, part) in parts.iter().enumerate() {
                rep.eval();
                rep.count("triples", 1);
                let prefix = if direct_ok { part.label } else { "direct" };
                // ---- run
                let mut finals: Vec<(String, Result<Value, (String, String)>)> = vec![];
                if part.label != "distributed" {
                    finals.push(("search".into(), run_single(&part.built[0], tq.as_ref(), &req, AggregationLimitsGuard::new(rc.mem_limit, None))));
                } else {
                    let mut pieces = vec![];
                    let mut failed = None;
                    for b in &part.built {
                        match run_distributed_piece(b, tq.as_ref(), &req, AggregationLimitsGuard::new(rc.mem_limit, None)) {
                            Ok(p) => pieces.push(p),
                            Err(e) => {
                                failed = Some(e);
                                break;
                            }
                        }
                    }
                    if let Some(e) = failed {
                        finals.push(("distributed-search".into(), Err(e)));
                    } else {
                        let mut variants: Vec<(String, Result<IntermediateAggregationResults, String>)> = vec![];
                        let g = |f: &dyn Fn() -> Result<IntermediateAggregationResults, String>| match guarded(f) {
                            Ok(r) => r,
                            Err(p) => Err(format!("panic: {} @ {}", p.message, p.location)),
                        };
                        variants.push(("fold".into(), g(&|| fold(pieces.clone()))));
                        // the same pieces the other way round: every pair of pieces is merged
                        // with either one as the left operand
                        let rev: Vec<IntermediateAggregationResults> = pieces.iter().rev().cloned().collect();
                        variants.push(("fold-reversed".into(), g(&|| fold(rev.clone()))));
                        let mut perm = pieces.clone();
                        rng.shuffle(&mut perm);
                        variants.push(("fold-right-permuted".into(), g(&|| fold_right(perm.clone()))));
                        let mut perm2 = pieces.clone();
                        rng.shuffle(&mut perm2);
                        if rng.bool() {
                            perm2.push(IntermediateAggregationResults::default());
                            rng.shuffle(&mut perm2);
                        }
                        variants.push(("tree-permuted".into(), g(&|| tree(perm2.clone()))));
                        let mut perm3 = pieces.clone();
                        rng.shuffle(&mut perm3);
                        variants.push((
                            "postcard".into(),
                            g(&|| {
                                let rt: Result<Vec<_>, String> = perm3.iter().map(postcard_rt).collect();
                                let merged = fold(rt?)?;
                                postcard_rt(&merged)
                            }),
                        ));
                        for (name, v) in variants {
                            rep.count("merge_variants", 1);
                            let fin = match v {
                                Err(e) => Err(("error".to_string(), e)),
                                Ok(inter) => match guarded(|| inter.into_final_result(req.clone(), AggregationLimitsGuard::new(rc.mem_limit, None))) {
                                    Ok(Ok(r)) => serde_json::to_value(&r).map_err(|e| ("error".into(), e.to_string())),
                                    Ok(Err(e)) => Err(("error".into(), e.to_string())),
                                    Err(p) => Err(("panic".into(), format!("{} @ {}", p.message, p.location))),
                                },
                            };
                            finals.push((name, fin));
                        }
                    }
                }
                // ---- check
                let mut nbuckets = 0;
                for (variant, fin) in &finals {
                    match fin {
                        Err((kind, e)) => {
                            let mut w = witness.clone();
                            w["error"] = json!(e);
                            w["partition"] = json!(part.shape);
                            w["variant"] = json!(variant);
                            w["kinds"] = json!(shape);
                            viol(rep, error_signature(&corpus, prefix, kind, e, &rc), w);
                            if pi == 0 {
                                direct_ok = false;
                            }
                        }
                        Ok(got) => {
                            let mut c = Cmp::new();
                            c.cmp(&exp, got);
                            if !c.out.is_empty() {
                                let mut w = witness.clone();
                                w["variant"] = json!(variant);
                                w["got"] = json!(got.to_string().chars().take(1500).collect::<String>());
                                if std::env::var("C14_DEBUG").is_ok() {
                                    eprintln!("C14_DEBUG partition={} variant={variant}\nGOT {got}\nEXP {exp:?}", part.shape);
                                }
                                report_mismatches(&facts, rep, &c.out, prefix, part, got, &w);
                                if pi == 0 {
                                    direct_ok = false;
                                }
                            } else {
                                rep.count("results_matching_oracle", 1);
                            }
                            nbuckets = nbuckets.max(count_buckets(&rc.aggs, got));
                            if variant == "search" {
                                part_buckets[pi] = Some(count_buckets(&rc.aggs, got));
                            }
                            if pi == 0 {
                                reference = Some(got.clone());
                            }
                        }
                    }
                }
                if nbuckets >= 2 || part.nparts >= 2 {
                    rep.nontrivial(format!("{shape}|{}|{}", part.shape, matches!(q, Q::All)));
                }
                if case < 2 && ri == 0 && pi == 1 {
                    rep.sample(json!({"request": req_json, "corpus": corpus.descr, "partition": part.shape,
                        "query": format!("{q:?}"), "result": finals.first().and_then(|f| f.1.as_ref().ok())}));
                }
            }
            if std::env::var("C14_SLOW").is_ok() && req_t0.elapsed().as_millis() > 1500 {
                eprintln!("C14_SLOW {mode:?}#{case} req {ri}: {} ms (case so far {} ms) n={n} {}", req_t0.elapsed().as_millis(), case_t0.elapsed().as_millis(), req_json);
            }
            // ---- limits: an error or the unlimited result, never something else
            if let Some(reference) = &reference {
                if rng.chance(1, 2) {
                    let total = count_buckets(&rc.aggs, reference);
                    let limit = rng.range(0, total + 2) as u32;
                    let pidx = rng.urange(0, 2);
                    let part = &parts[pidx];
                    // what must not fail is a limit that the unlimited result of the SAME index
                    // respects: with ties at the `size` cut of a terms aggregation another
                    // partition may legitimately keep other term buckets, with more sub buckets
                    let own_total = part_buckets[pidx].unwrap_or(total);
                    rep.count("limit_checks", 1);
                    let r = run_single(&part.built[0], tq.as_ref(), &req, AggregationLimitsGuard::new(rc.mem_limit, Some(limit)));
                    let w = |extra: Value| {
                        let mut w = witness.clone();
                        w["bucket_limit"] = json!(limit);
                        w["buckets_in_unlimited_result"] = json!(total);
                        w["outcome"] = extra;
                        w
                    };
                    match r {
                        Err((kind, e)) => {
                            if kind == "panic" {
                                viol(rep, error_signature(&corpus, "limits", &kind, &e, &rc), w(json!(e)));
                            } else if total <= limit as u64 && own_total <= limit as u64 && direct_ok {
                                let sig = placeholder_error_sig(&request_tags(&corpus, &rc.aggs), &e)
                                    .unwrap_or("limits/bucket-limit:error-although-within-limit");
                                viol(rep, sig, w(json!(e)));
                            } else {
                                rep.count("limit_errors_observed", 1);
                                rep.observe("limit_error", squash(&e));
                            }
                        }
                        Ok(got) => {
                            // the returned result itself is what must respect the limit: with ties
                            // at the `size` cut of a terms parent another partition may
                            // legitimately return other (and fewer) buckets than the reference.
                            // A result cut short by the limit fails the comparison below.
                            if count_buckets(&rc.aggs, &got) > limit as u64 {
                                viol(rep, "limits/bucket-limit:no-error-above-limit", w(got));
                            } else if direct_ok {
                                let mut c = Cmp::new();
                                c.cmp(&exp, &got);
                                if !c.out.is_empty() {
                                    let sig = placeholder_mismatch_sig(&request_tags(&corpus, &rc.aggs), &c.out[0])
                                        .unwrap_or("limits/bucket-limit:different-result-within-limit");
                                    viol(rep, sig, w(json!(c.out[0].detail)));
                                }
                            }
                        }
                    }
                    // tiny memory limit
                    let mem = *rng.pick(&[1u64, 64, 1000, 5000]);
                    let r = run_single(&part.built[0], tq.as_ref(), &req, AggregationLimitsGuard::new(Some(mem), None));
                    match r {
                        Err((kind, e)) if kind == "panic" => {
                            viol(rep, error_signature(&corpus, "limits", &kind, &e, &rc), json!({"witness": witness, "memory_limit": mem, "error": e}));
                        }
                        Err((_, e)) => {
                            rep.count("limit_errors_observed", 1);
                            rep.observe("limit_error", squash(&e));
                        }
                        Ok(got) => {
                            if direct_ok {
                                let mut c = Cmp::new();
                                c.cmp(&exp, &got);
                                if !c.out.is_empty() {
                                    let sig = placeholder_mismatch_sig(&request_tags(&corpus, &rc.aggs), &c.out[0])
                                        .unwrap_or("limits/memory-limit:silently-different-result");
                                    viol(rep,
                                        sig,
                                        json!({"witness": witness, "memory_limit": mem, "mismatch": c.out[0].detail}),
                                    );
                                }
                            }
                        }
                    }
                }
            }
        }
    }
}

fn main() {
    let ctx = Ctx::from_env("C14", "exploration");
    // the two focused streams are short and run first: the soft deadline can only cut the main one
    let mut rep = Report::new();
    for (stream, n, mode) in [
        ("placeholder", ctx.scale(120, 1500), Mode::Placeholder),
        ("fused", ctx.scale(70, 700), Mode::Fused),
        ("main", ctx.scale(900, 6000), Mode::Main),
    ] {
        let t0 = std::time::Instant::now();
        rep.merge(run_cases(&ctx, stream, n as u64, case_fn(ctx.quick(), mode)));
        rep.count(&format!("wall_ms[{stream}]"), t0.elapsed().as_millis() as u64);
    }
    simple_finish(
        &ctx,
        rep,
        "three streams. placeholder (quick 120 / thorough 1500 cases): small corpus x 5-6 requests of the form top-level \
         terms over a string field with min_doc_count 0 (with or without include / exclude) x 1-3 direct sub aggregations \
         of every kind (the kinds whose intermediate result carries request or column state - extended_stats with a \
         non-default sigma, percentiles, cardinality, top_hits, histogram / range / terms over the date field, \
         date_histogram, composite - twice as often) x a filtering query (id range 45 %, i64 range, term; match-all \
         8 %) x >= 2 separately searched indexes: a term of a partition's dictionary without matching document there \
         gets the empty placeholder of its sub aggregations, which is merged as the left or the right operand with the \
         real result of another partition; every run of this stream has a memory limit of 32 MB (a correct answer \
         needs far less; it bounds the time of answers that fill gaps in the wrong unit). fused (70 / 700 cases): 5-6 requests of the form top-level terms over a string \
         field (a full column when the corpus has one) x exactly one histogram / date_histogram leaf over a numeric / \
         date field (full column preferred) x include / exclude (two thirds; exact values incl. absent ones, prefix / \
         character class / alternation regular expressions) x hard_bounds (cutting both sides, one side, a single \
         point, exactly the span, wider than the span, none) x min_doc_count / order / size of the terms x \
         min_doc_count / offset / extended_bounds of the histogram, terms x buckets mostly below and sometimes above \
         the 16384 cells of the fused collector. main: \
         a case = one generated corpus (0..6000 docs; f64/i64/u64/date/bool/ip, STRING|FAST and tokenized text fast \
         fields; missing, multi-valued, negative, fractional, on-boundary values, high-cardinality terms) indexed in 4 \
         partitions (1 segment / k contiguous segments / k' shuffled segments / 1-3 separately searched indexes merged \
         through DistributedAggregationCollector + merge_fruits in fold, reversed fold, permuted right-nested, \
         pairwise-tree and postcard round-tripped order) x 3-4 generated request trees (depth <= 3, focus shapes wrapped in a parent \
         <= 4) over value_count, sum, min, max, avg, \
         stats, extended_stats, percentiles, cardinality, top_hits, range, histogram, date_histogram, terms, filter \
         (single `filter`; a plural `filters` aggregation does not exist in this version), composite (terms / histogram \
         / fixed-interval date_histogram sources, first page only; calendar intervals and `after` pagination not \
         generated) x a filtering query (all / term / range). About a third of the requests are focus shapes: \
         terms ordered by _key on every field type, top-level or below another bucket aggregation, with a per \
         segment cut-off (explicit segment_size or the default 10 x size below the number of distinct terms) or \
         without; a value bucket (terms / histogram / composite / filter) with extended_stats, stats, avg or sum \
         of the same single-valued field (constant and nearly constant buckets; fields holding a run of >= 30 \
         equal values with a long f64 mantissa - ns timestamps, non-dyadic fractions - are \
         preferred and such corpora get four times as many of these requests), or of a field that no document has \
         with a random long-mantissa `missing` value (every document contributes the same value); \
         a range with buckets no document falls into x one sub aggregation of a uniformly chosen kind; any bucket \
         aggregation x one sub aggregation of a uniformly chosen kind. In quick every 10th corpus (thorough: one in \
         27) has 2048 k + 1..48 documents, so that one-segment partitions feed their sub aggregations by a full \
         flush followed by a short one; there a third of the requests are of the last shape. evaluations = (corpus, request, partition) triples, each \
         compared with a naive evaluator over the model documents. non-trivial = the result has >= 2 buckets or >= 2 \
         segments/indexes were merged; distinct = distinct (request kind+field tree, partition shape, query is-all) keys.",
        ctx.scale(400, 5000),
        &[
            "terms aggregations are compared exactly only with segment_size >= cardinality; with a small segment_size only the documented bounds are asserted",
            "exception: terms ordered by _key with min_doc_count <= 1 and no `missing` are compared exactly also when segments cut (every segment keeps its first segment_size >= size keys in the requested order, so no bucket among the first `size` can lose a document); only doc_count_error_upper_bound is then not required to be 0",
            "ties in _count / metric order are canonicalised: the sequence of sort values and the per-key contents are compared, not the order inside a tie",
            "histogram bucket keys follow the documented f64 formula floor((v-offset)/interval)*interval+offset evaluated in f64",
            "a range aggregation below an empty parent bucket may list every range with doc_count 0 or no bucket at all (both accepted)",
            "percentiles within DDSketch relative accuracy 1 %; cardinality within 5 %+1 (<= 150 distinct) or 12 %+2",
            "terms include / exclude are generated for string fields without `missing` only; a term is kept when it matches include (if given) and not exclude; regular expressions must match the whole term and are evaluated in the oracle by the `regex` crate on `^(?:pattern)$`",
            "min_doc_count 0 is generated for top-level terms over string fields only (below a parent bucket the set of zero-count terms depends on which segments instantiated the parent)",
        ],
    );
}

#[allow(dead_code)]
fn _unused(_: BTreeSet<u8>) {}
