#!/bin/bash
# Runs one check against a MUTATED copy of /repo without touching /repo itself.
#   scripts/mutant_run.sh <patch.diff | ""> <ID> [tier] [extra args...]
# Keeps a scratch worktree + harness copy + target dir under $MUT_ROOT (default /tmp/mut) for
# incremental builds; remove with: scripts/mutant_run.sh --clean
set -u
MUT_ROOT=${MUT_ROOT:-/tmp/mut}
if [ "${1:-}" = "--clean" ]; then
  git -C /repo worktree remove --force "$MUT_ROOT/repo" 2>/dev/null
  rm -rf "$MUT_ROOT"; git -C /repo worktree prune; exit 0
fi
patch=$1; id=$2; tier=${3:-quick}; shift 3 2>/dev/null || shift $#
bin=$(echo "$id" | tr 'A-Z' 'a-z')
mkdir -p "$MUT_ROOT"
if [ ! -d "$MUT_ROOT/repo" ]; then
  git -C /repo worktree add --detach "$MUT_ROOT/repo" HEAD >/dev/null 2>&1 || exit 3
fi
( cd "$MUT_ROOT/repo" && git checkout -q --detach "$(git -C /repo rev-parse HEAD)" && git checkout -q -- . && git clean -fdq -e target ) || exit 3
if [ -n "$patch" ]; then
  ( cd "$MUT_ROOT/repo" && git apply "$patch" ) || { echo "patch does not apply"; exit 3; }
fi
mkdir -p "$MUT_ROOT/harness"
rsync -a --delete --exclude target --exclude 'build-*.log' /verif/harness/ "$MUT_ROOT/harness/"
sed -i "s|path = \"/repo|path = \"$MUT_ROOT/repo|g" "$MUT_ROOT/harness/Cargo.toml"
cd "$MUT_ROOT/harness" || exit 3
export CARGO_NET_OFFLINE=true CARGO_TARGET_DIR="$MUT_ROOT/target"
if ! cargo build --profile verif --bin "$bin" >"$MUT_ROOT/build.log" 2>&1; then
  echo "MUTANT BUILD FAILED"; grep -E "^error" -A8 "$MUT_ROOT/build.log" | head -30; exit 4
fi
cd /verif
"$MUT_ROOT/target/verif/$bin" "$tier" --no-evidence 1 "$@"
