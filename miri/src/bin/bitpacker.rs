use tantivy_bitpacker::{BitPacker, BitUnpacker, BlockedBitpacker};
use tvmiri::*;
fn main() {
    let mut r = Rng(seed());
    for &bits in &[0u8, 1, 7, 8, 13, 31, 32, 33, 56, 64] {
        let n = 1 + r.below(70) as usize;
        let mask = if bits == 64 { u64::MAX } else if bits == 0 { 0 } else { (1u64 << bits) - 1 };
        let vals: Vec<u64> = (0..n).map(|_| r.next() & mask).collect();
        let mut data = vec![];
        let mut bp = BitPacker::new();
        for v in &vals { bp.write(*v, bits, &mut data).unwrap(); }
        bp.close(&mut data).unwrap();
        let un = BitUnpacker::new(bits);
        for (i, v) in vals.iter().enumerate() {
            if un.get(i as u32, &data) != *v { mismatch("get"); }
        }
        let lo = r.next() & mask; let hi = lo.saturating_add(r.next() & mask & 0xffff);
        let mut pos = vec![];
        un.get_ids_for_value_range(lo..=hi, 0..n as u32, &data, &mut pos);
        let want: Vec<u32> = vals.iter().enumerate().filter(|(_, v)| **v >= lo && **v <= hi).map(|(i, _)| i as u32).collect();
        if pos != want { mismatch("value range"); }
    }
    let mut bb = BlockedBitpacker::new();
    let vals: Vec<u64> = (0..300).map(|i| if i % 97 == 0 { u64::MAX - i } else { r.below(1000) }).collect();
    for v in &vals { bb.add(*v); }
    for (i, v) in vals.iter().enumerate() { if bb.get(i) != *v { mismatch("blocked get"); } }
    if bb.iter().collect::<Vec<_>>() != vals { mismatch("blocked iter"); }
    println!("bitpacker ok");
}
