#!/usr/bin/env python3
"""Generates /verif/MANIFEST.json from the table below (keeps it schema-valid)."""
import json, sys

ALL = ["C%02d" % i for i in range(1, 21)]

# id -> (category, technique, level text, level note, design section)
CHECKS = {
 "C15": ("exploration",
         "differential runtime monitoring of sstable::Dictionary and tantivy::termdict against a BTreeMap model, with harness-side automata run naively over every key; merges against sorted unions and ordinal maps; out-of-order insertions must be rejected",
         "Held (apart from the listed known finding) on the dictionaries generated (quick ~800 cases, thorough ~68 000): get/term_ord/ord_to_term/term_ord_or_next/range(ge,gt,le,lt,limit)/prefix_range/search(automaton)/stream for 4 value types, block lengths 16..4000 and 1..1000+ blocks (crossing the 128-entry block-address store), keys up to 40 KB, shared prefixes around the keep/add >= 16 escape, 0x00/0xFF runs; fst termdict around 255/256/257 and 511..513 term-info block edges; sstable / TermMerger / columnar dictionary merges with old->new ordinal maps; IndexWriter::merge of 2-6 segments; duplicate / earlier / prefix / empty keys at every block position must be refused.",
         "Trusted: the BTreeMap model and the harness automata (whose can_match / will_always_match contract is itself checked).",
         "DESIGN.md §7 C15"),
 "C06": ("exploration",
         "differential runtime monitoring: every TopDocs variant (score, fast fields, string, tweak, custom sort key computers, tuples; K/offset grid; single and multi-threaded executor) vs entries O..O+K of an exhaustive non-pruning collector on the same searcher",
         "Held on the searches executed (quick ~26 k, thorough ~3e5) over corpora with massive ties, block-max edge cases, postings > 128 and > 4096, 1-8 segments, deletes, missing values: exact equality for single-leaf scores, two-term sums and all non-score keys, 4n-ulp order-statistic check for longer sums, paging enumerates every match once. Three defects of the unchanged tree are listed in known_findings.txt. NaN/-0.0 keys, negative boosts and multi-valued sort fields are not generated.",
         "Trusted: the exhaustive collector (requires_scoring, no pruning) and the generator's own documents for fast-field keys.",
         "DESIGN.md §7 C06"),
 "C08": ("exploration",
         "differential runtime monitoring of the columnar writer -> file -> reader -> merge pipeline and of tantivy fast fields against a Vec<Vec<value>> model, with value profiles chosen to select every codec and index kind",
         "Held on the columns read back in full (quick ~3 000, thorough ~36 000): values_for_doc/first/min/max/num_docs/cardinality, get_docids_for_value_range probes, optional-index rank/select, dictionary ordinals and terms, through ColumnarWriter->ColumnarReader, merge_columnar (Stack/Shuffled, alive bitsets, 1-5 inputs, coercions), tantivy fast-field accessors before and after IndexWriter::merge with deletes, and each u64 codec forced in turn. Codec and cardinality actually chosen are read from the column header and reported.",
         "Trusted: the Vec model and the documented coercion rules; sparse/dense block variant inferred from counts.",
         "DESIGN.md §7 C08"),
 "C09": ("exploration",
         "differential runtime monitoring of the doc store: generated documents of every value type read back through Searcher::doc, StoreReader::get/iter under every compressor, block size, cache size and adversarial access order, before and after stacking / re-compressing merges",
         "Held on the stores checked (quick ~800, thorough ~17 000): per field same values in the same order (f64 by bit pattern, dates by nanoseconds, JSON numbers strictly typed), non-stored fields never returned, iteration in doc-id order under adversarial alive bitsets; block counts on skip-index layer boundaries (1..10, 63..66, 511..513, 4095..4097); compressors none/lz4/zstd levels; block sizes 0..u32::MAX; dedicated compressor thread on/off; merge paths stack / recompress / sorted remap.",
         "Trusted: the model document and the block-layout replay used only to classify coverage.",
         "DESIGN.md §7 C09"),
 "C12": ("exploration",
         "differential runtime monitoring: collected scores and explain() vs an independent f32 evaluation of the BM25 formula from public statistics, across collectors and segmentations",
         "Held on the scored (query, doc, segmentation) triples (quick ~1.3e5, thorough ~2.5e6): score == formula within 2 ulp per clause (bit-identical for > 99 %), explain().value() == collected score (bit-exact for a single clause), identical single-clause scores across collectors/K on one searcher and across segmentations without deletes; field-norm byte == bucket of the real length for lengths across the quantisation table (all 256 ids through the public Bm25Weight/FieldNormReader functions).",
         "Trusted: the harness' own field-norm table and formula; Bm25Weight is never used as oracle.",
         "DESIGN.md §7 C12"),
 "C14": ("exploration",
         "differential runtime monitoring: AggregationCollector results vs a naive evaluator over the model documents, and partition independence through segmentations, DistributedAggregationCollector + merge_fruits in permuted / regrouped order and postcard round-trips",
         "Held (apart from the listed known findings) on the (corpus, request, partition) triples executed (quick ~1 700, thorough ~47 000): exact counts, keys and bucket sets; 1e-9 relative for sums/avg/stats; DDSketch and HLL bounds for percentiles/cardinality; documented bounds for truncated terms; limits error instead of truncating. Kinds: value_count..extended_stats, percentiles, cardinality, top_hits, range, histogram, date_histogram, terms, filter, composite, nested to depth 3. 14 defect classes of the unchanged tree are listed in known_findings.txt; a request matching one of their narrow conditions is attributed to it.",
         "Trusted: the naive evaluator (c14_util/oracle.rs) and its reading of the documented semantics.",
         "DESIGN.md §7 C14"),
 "C19": ("exploration",
         "runtime monitoring of every token of every built-in tokenizer x filter chain on hostile UTF-8 texts (offset/boundary/position/slice assertions, offsets unchanged by filters) and of SnippetGenerator output (substring, length in characters, highlight ranges, re-analysis, independent HTML rendering)",
         "Held (apart from the listed known findings) on ~2.8e4 (quick) / ~1.3e6 (thorough) evaluations: 52 tokenizers x 128 filter subsets, 17 text classes incl. case mappings that change byte length, combining marks, ZWJ emoji, control characters, tokens up to 1 MB; snippets over 15 query kinds with max_num_chars swept over 0..len+10. Panics are violations.",
         "Trusted: the harness' escaper and char-boundary arithmetic.",
         "DESIGN.md §7 C19"),
 "C07": ("exploration",
         "differential runtime monitoring: every (term, doc, tf, positions), doc_freq, field norm and token total of generated segments read back (scan, seek programs, block cursor, position skipping) against a naive model inverted index",
         "Held on the segments generated (quick ~250, thorough ~5 600 segments / 1.2e8 docs): term dictionary == sorted distinct model terms for all 10 value types incl. JSON paths; postings under Basic/WithFreqs/WithFreqsAndPositions by scan and by generated seek programs; posting-list lengths 1,127..129,255..257,k*128(+-1) up to millions, doc-gap widths 1..22 bits, tf/position counts crossing 128, terms of 0..65 530 bytes; degrade rules when more is requested than indexed. Gaps wider than ~22 bits and merged/sorted segments are out of this check (C04/C17).",
         "Trusted: the model tokenisation rules for default/raw/whitespace tokenizers; unique planted terms; public Term constructors.",
         "DESIGN.md §7 C07"),
 "C20": ("exploration",
         "differential runtime monitoring with exhaustive damage enumeration on small files: own footer parser + crc32 vs ManagedDirectory/Index validation on intact and damaged copies of generated indexes",
         "Held on the indexes generated (quick 24 / ~5e6 damaged copies, thorough 1000 / ~2.5e8): intact files validate, open_read returns exactly the body, footer carries crc32(body) and the current version (also under short writes); for every segment file with a body <= 4 KB every bit flip, every truncation length, inserts, appends and 256 multi-byte damages are detected (exhaustive for those files; sampled for larger ones), at ManagedDirectory level always and through Index::validate_checksum on a sample; versions outside [oldest supported, current] are refused with IncompatibleIndex. A CRC32 collision is possible in principle and has its own signature.",
         "Trusted: the harness' footer parser and crc32fast; MonDir images.",
         "DESIGN.md §7 C20"),
 "C04": ("translation_validation",
         "run-time translation validation of every merge performed: canonical dump of the merged segment vs dumps of the sources' live documents; forced merge-thread schedules through the monitoring Directory checked against the sequential model",
         "Each merge actually executed (IndexWriter::merge on 1-6 segments with/without deletes, fully deleted sources, big/small stores, sorted or not; merge_indices) is validated as a translation: stored document, field norm, every fast-field value and every (term, tf, positions) of every live source document reappear unchanged, each source contiguous and in order (or the output in sort order). Forced schedules park the merge thread at its k-th storage operation while deletes+commits, rollbacks, other merges, GC or writer drop happen; afterwards the searcher equals the sequential model. Held on the merges and schedules executed only.",
         "Trusted: dump.rs (reads through the public SegmentReader API); source dumps are taken at a quiescent committed state.",
         "DESIGN.md §7 C04"),
 "C11": ("fault_enumeration",
         "fault injection at storage operations selected from the fault-free run of the same history (role x op x file kind x occurrence; once/permanent/dead), each scenario in its own child process with watchdog, CPU-progress test and gdb stacks",
         "For every executed scenario: a failed commit took effect completely or not at all, every commit that returned Ok is recoverable from the durable image at its return, after faults stop the storage holds exactly the last successful commit and a new writer can add and commit, the child neither died by signal nor hung. Fault points are those that occur in the executed histories (sampled in quick, broader in thorough); error kinds are not varied.",
         "Trusted: MonDir's fault injection and durability model; the sequential model; hang = 60 s watchdog and no CPU progress.",
         "DESIGN.md §7 C11"),
 "C17": ("exploration",
         "runtime monitoring: monotonicity monitor over every segment of every searcher + sequential model + per-document canonical dump equality across merges, on histories under IndexSettings::sort_by_field",
         "Held on the histories executed over six sort-field types x two directions with duplicate, missing, extreme and per-transaction-disjoint values, same-transaction deletes, commits, rollbacks, explicit and policy merges: every segment is monotone in the sort key with missing values first (asc) / last (desc), content equals the model and merges preserve every document's dump.",
         "Trusted: all sort fields are order-preserving functions of one model value; dump.rs; the sequential model.",
         "DESIGN.md §7 C17"),
 "C18": ("exploration",
         "runtime monitoring: generated writer lifecycles on MonDir / RamDirectory / MmapDirectory (incl. concurrent creation bursts, injected worker death and failed rollback, cross-process attempts) against a one-boolean model",
         "Held on the lifecycles executed: never two live writers, every refusal is a lock error and leaves the live writer able to commit, a writer can always be created after drop / wait_merging_threads / failed construction / worker death / failed rollback + drop, exactly one winner in concurrent bursts.",
         "Trusted: a writer object that exists counts as alive; flock semantics of the host for MmapDirectory.",
         "DESIGN.md §7 C18"),
 "C01": ("fault_enumeration",
         "crash-point enumeration over the recorded storage-op log of real runs (monitoring Directory with a visible/durable model), recovery with Index::open compared with the sequential model; online commit-point monitor T1",
         "Every boundary after a mutating storage operation of each executed history is a crash point; at each, the persistence outcomes {nothing pending survives, everything, every M1 prefix, sampled M2 subsets} x {unsynced data lost / complete / random prefix} are materialised and recovered (quick ~2e5 images, thorough millions): recovery succeeds, shows exactly the last acknowledged or the in-flight commit (all fields on a sample, ids always), every referenced file passes its checksum, and the image accepts writer + commit + GC. Enumeration is complete for the boundaries of the executed runs only; other interleavings of the same history are reached by repetition and noise.",
         "Trusted: the durability model (data durable at terminate, directory entries at the next sync_directory; DESIGN.md §3.1), MonDir, the sequential model. Sector-level torn writes are only covered as prefixes.",
         "DESIGN.md §7 C01"),
 "C05": ("exploration",
         "runtime monitoring: concurrent reader threads observing reloads against the list of committed model states (exact set match, freshness, monotonicity), re-fingerprinting of held searchers, forced schedules parking a loading reader at each file open via the monitoring Directory",
         "Held on the stress runs and forced schedules executed (MonDir, RamDirectory and MmapDirectory): every reload equals exactly one committed state, never older than commits completed before it started, monotone per reader; held searchers stay bit-identical in content during the run and after writer shutdown + GC; a reader parked between meta.json and any segment-file open while commits, merges and GC run still loads a whole commit.",
         "Trusted: unique ids + one marker document per commit identify commits; schedules are those forced or produced, not all.",
         "DESIGN.md §7 C05"),
 "C10": ("exploration",
         "runtime monitoring: online delete monitor (T3) in the monitoring Directory, file-set equality at quiescent points, forced GC-vs-writer/merge schedules through gates, recovered crash images continued with commit+GC",
         "Held on the histories, forced schedules and crash images executed: GC never deleted a file referenced by the visible or durable meta.json, nothing a loading thread needed vanished, and at every quiescent point the directory equals the committed segments' files + meta.json + .managed.json with .managed.json listing exactly the managed files present. Known finding (M2-only orphan after a crash) is listed in known_findings.txt.",
         "Trusted: quiescence = wait_merging_threads + new writer + explicit GC; durability model of DESIGN.md §3.1.",
         "DESIGN.md §7 C10"),
 "C02": ("exploration",
         "runtime monitoring: generated histories on the real IndexWriter checked after every commit/rollback/reopen against a sequential model; interval-order check for concurrent producers",
         "Held on the histories executed (quick ~200, thorough several thousand; 5-60 operations each, 1-8 indexing threads, merge policy on/off, sorted or not, segment cuts forced inside transactions): every observation after a commit / rollback / reopen equals the sequential replay of the acknowledged operations (all fields, exactly once, term and range queries, opstamps, payload). Not a proof: says nothing about histories or interleavings that were not produced.",
         "Trusted: the 150-line sequential model in harness/src/hist.rs; MonDir storage; unique document ids make observations unambiguous.",
         "DESIGN.md §7 C02"),
}

NOT_YET = "check not built yet in this session (planned, see DESIGN.md §7); not claimed until it runs clean"

def main():
    checks = []
    for pid in ALL:
        if pid not in CHECKS:
            continue
        cat, tech, text, note, ref = CHECKS[pid]
        checks.append({
            "property_id": pid,
            "quick_cmd": f"./check {pid} quick",
            "thorough_cmd": f"./check {pid} thorough",
            "evidence_file": f"/verif/evidence/{pid}.json",
            "replay_cmd_template": f"./check {pid} --replay {{path}}",
            "engine": "tvmon",
            "level_claimed": {"category": cat, "text": text, "design_ref": ref},
            "level_note": note,
            "technique": tech,
        })
    na = [{"property_id": p, "reason": NOT_YET} for p in ALL if p not in CHECKS]
    m = {
        "version": 1,
        "setup_cmd": "cd /verif/harness && CARGO_NET_OFFLINE=true cargo build --profile verif --bins",
        "hooks": {
            "guard": "cargo feature `failpoints` of the tantivy crate (pre-existing, off by default, not built by the baseline)",
            "enable": "the harness depends on tantivy by path with features=[\"failpoints\"]; ./check rebuilds it from /repo's working tree",
            "baseline_off_cmd": "/verif/scripts/baseline.sh",
            "source_commits": [],
            "add_only": True,
        },
        "engines": [
            {"name": "tvmon", "path": "/verif/harness",
             "serves_properties": sorted(CHECKS.keys()),
             "kind_free_text": "Rust harness: monitoring Directory (MonDir) with durability model, op log, gates, faults and online trace monitors; sequential index model; seeded boundary-aware generators; per-property workload+oracle binaries"},
        ],
        "checks": checks,
        "notes": "Runtime monitoring and sanitizers only. Verdicts are three-valued: exit 0 held on what was observed, exit 1 VIOLATION with replay file, exit 2 inconclusive. Known findings: /verif/known_findings.txt.",
        "not_applicable": na,
    }
    json.dump(m, open("/verif/MANIFEST.json", "w"), indent=1)
    print("wrote MANIFEST.json with", len(checks), "checks,", len(na), "not claimed")

main()
