//! C07 — the inverted index records exactly the terms, documents, frequencies, positions.
//!
//! Every case builds one segment (Index::create_in_ram, one indexing thread, NoMergePolicy, one
//! commit) from generated documents, builds a naive model inverted index from the same generated
//! token lists / typed values (`c07_util::model`), and reads everything back through
//! `SegmentReader::inverted_index(field)` (`c07_util::verify`).
#[path = "c07_util/mod.rs"]
mod c07_util;

use c07_util::model::*;
use c07_util::verify::*;
use serde_json::json;
use tantivy::schema::IndexRecordOption;
use tvmon::report::*;
use tvmon::rng::Rng;

type Planted = Vec<(usize, Vec<u8>)>;
type PlanResult = Result<(Built, Planted), String>;

const MB: usize = 1 << 20;

// ------------------------------------------------------------------------------------------
// small generators

fn word(i: usize) -> String {
    let mut s = String::new();
    let mut x = i;
    loop {
        s.push((b'a' + (x % 26) as u8) as char);
        x /= 26;
        if x == 0 {
            break;
        }
    }
    s
}

/// skewed index in [0, v)
fn zipf(rng: &mut Rng, v: usize) -> usize {
    let x = (v as f64 + 1.0).powf(rng.f64()) as usize;
    x.saturating_sub(1).min(v - 1)
}

fn ropt(rng: &mut Rng) -> IndexRecordOption {
    *rng.pick(&[
        IndexRecordOption::Basic,
        IndexRecordOption::WithFreqs,
        IndexRecordOption::WithFreqsAndPositions,
        IndexRecordOption::WithFreqsAndPositions,
    ])
}

fn rtok(rng: &mut Rng) -> Tok {
    *rng.pick(&[Tok::Default, Tok::Default, Tok::White, Tok::Raw])
}

fn budget(rng: &mut Rng) -> usize {
    // the budget also decides the initial size of the term hash table
    *rng.pick(&[15 * MB, 16 * MB, 40 * MB, 120 * MB])
}

/// one word obeying the rules of tokenizer `tok` (never contains ASCII whitespace)
fn gen_word(rng: &mut Rng, tok: Tok, vocab: usize) -> String {
    let w = word(zipf(rng, vocab));
    match tok {
        Tok::Default => {
            if rng.chance(1, 25) {
                // around the RemoveLongFilter limit of the default analyzer
                let len = *rng.pick(&[38usize, 39, 40, 41, 60]);
                let mut s = "x".repeat(len - w.len().min(len));
                s.push_str(&w);
                s.truncate(len);
                s
            } else if rng.chance(1, 10) {
                format!("{w}{}", rng.below(10))
            } else {
                w
            }
        }
        Tok::White | Tok::Raw => match rng.below(8) {
            0 => format!("{w},"),
            1 => format!("{w}\u{e9}"),
            2 => format!("\u{df}-{w}!"),
            3 => format!("{w}.{w}"),
            _ => w,
        },
    }
}

fn gen_text(rng: &mut Rng, tok: Tok, vocab: usize) -> String {
    let n = match tok {
        Tok::Raw => *rng.pick(&[0usize, 1, 1, 1, 2, 3]),
        _ => *rng.pick(&[0usize, 1, 2, 3, 5, 8, 12]),
    };
    (0..n).map(|_| gen_word(rng, tok, vocab)).collect::<Vec<_>>().join(" ")
}

fn gen_pretok(rng: &mut Rng, vocab: usize) -> Vec<(u32, u32, String)> {
    let n = rng.urange(0, 6);
    let mut pos = rng.below(3) as u32;
    let mut out = vec![];
    for _ in 0..n {
        let plen = *rng.pick(&[1u32, 1, 1, 2, 3]);
        out.push((pos, plen, gen_word(rng, Tok::White, vocab)));
        pos += match rng.below(6) {
            0 => 0,
            1 => rng.below(40) as u32,
            2 => 1u32 << rng.below(16),
            _ => 1,
        };
    }
    out
}

fn gen_u64(rng: &mut Rng) -> u64 {
    match rng.below(8) {
        0 => *rng.pick(&[0u64, 1, u64::MAX, u64::MAX - 1, i64::MAX as u64, i64::MAX as u64 + 1, 255, 256, 1 << 32]),
        1 => rng.next_u64(),
        2 => 1u64 << rng.below(64),
        _ => rng.below(12),
    }
}
fn gen_i64(rng: &mut Rng) -> i64 {
    match rng.below(8) {
        0 => *rng.pick(&[i64::MIN, i64::MIN + 1, -1, 0, 1, i64::MAX, i64::MAX - 1]),
        1 => rng.next_u64() as i64,
        _ => rng.irange(-6, 6),
    }
}
fn gen_f64(rng: &mut Rng) -> f64 {
    match rng.below(8) {
        0 => *rng.pick(&[
            0.0f64,
            -0.0,
            f64::INFINITY,
            f64::NEG_INFINITY,
            f64::NAN,
            f64::MIN_POSITIVE,
            f64::MAX,
            f64::MIN,
            f64::EPSILON,
            9.223372036854775807e18,
            1.8446744073709552e19,
            1e19,
            -9.3e18,
        ]),
        1 => f64::from_bits(rng.next_u64()),
        2 => rng.irange(-5, 5) as f64,
        _ => rng.irange(-40, 40) as f64 / 8.0,
    }
}
fn gen_date(rng: &mut Rng) -> i64 {
    match rng.below(6) {
        0 => *rng.pick(&[
            0i64,
            1,
            -1,
            999_999_999,
            1_000_000_000,
            -999_999_999,
            -1_000_000_000,
            -1_000_000_001,
            i64::MAX,
            i64::MIN,
        ]),
        1 => rng.next_u64() as i64,
        _ => rng.irange(-5, 5) * 1_000_000_000 + rng.irange(0, 2) * 500_000_000,
    }
}
fn gen_bytes(rng: &mut Rng) -> Vec<u8> {
    match rng.below(6) {
        0 => vec![],
        1 => vec![*rng.pick(&[0u8, 1, 255])],
        2 => {
            let n = rng.urange(1, 24);
            rng.bytes(n)
        }
        _ => {
            let n = rng.urange(1, 6);
            (0..n).map(|_| *rng.pick(&[0u8, 1, b'a', 255])).collect()
        }
    }
}
fn gen_ip(rng: &mut Rng) -> u128 {
    match rng.below(6) {
        0 => *rng.pick(&[0u128, 1, u128::MAX, u128::MAX - 1, 1 << 64]),
        1 => ((rng.next_u64() as u128) << 64) | rng.next_u64() as u128,
        2 => (0xffffu128 << 32) | rng.next_u32() as u128,
        _ => (0xffffu128 << 32) | (0x0a00_0000u128 + rng.below(6) as u128),
    }
}
fn gen_facet(rng: &mut Rng) -> Vec<String> {
    let depth = *rng.pick(&[0usize, 1, 1, 2, 2, 3, 5]);
    (0..depth)
        .map(|_| match rng.below(8) {
            0 => "caf\u{e9}".to_string(),
            1 => "a b".to_string(),
            _ => word(rng.usize_below(4)),
        })
        .collect()
}

fn gen_json_key(rng: &mut Rng) -> String {
    match rng.below(40) {
        0 => "".into(),
        1 => "\u{e9}t\u{e9}".into(),
        2 => "a\u{1}b".into(),
        3 => "nul\u{0}key".into(),
        4 => "x\\y".into(),
        5 => ".".into(),
        6 => "a..b".into(),
        _ => rng.pick(&["a", "b", "c", "a.b", "b.c.d", "k", "a.b", "c.a"]).to_string(),
    }
}

fn gen_json_leaf(rng: &mut Rng, tok: Tok, vocab: usize) -> J {
    match rng.below(12) {
        0 => J::Null,
        1 => J::U(gen_u64(rng)),
        2 => J::I(gen_i64(rng)),
        3 => J::F(gen_f64(rng)),
        4 => J::B(rng.bool()),
        5 => J::D(gen_date(rng)),
        6 => J::U(rng.below(4)),
        _ => J::Str(gen_text(rng, tok, vocab)),
    }
}

fn gen_json(rng: &mut Rng, tok: Tok, vocab: usize, depth: usize) -> J {
    let n = *rng.pick(&[0usize, 1, 1, 2, 3, 4]);
    let mut kv = vec![];
    for _ in 0..n {
        let k = gen_json_key(rng);
        let v = match rng.below(10) {
            0 | 1 if depth < 3 => gen_json(rng, tok, vocab, depth + 1),
            2 | 3 => {
                let m = rng.urange(0, 3);
                J::Arr(
                    (0..m)
                        .map(|_| {
                            if depth < 3 && rng.chance(1, 4) {
                                gen_json(rng, tok, vocab, depth + 1)
                            } else {
                                gen_json_leaf(rng, tok, vocab)
                            }
                        })
                        .collect(),
                )
            }
            _ => gen_json_leaf(rng, tok, vocab),
        };
        kv.push((k, v));
    }
    J::Obj(kv)
}

/// `l` distinct sorted doc ids out of 0..n, by one of several layouts
fn choose_docs(rng: &mut Rng, n: u32, l: u32) -> Vec<u32> {
    let l = l.min(n).max(1);
    match rng.below(4) {
        0 => (0..l).collect(),
        1 => (n - l..n).collect(),
        2 => {
            // evenly spaced with jitter-free stride
            let stride = (n / l).max(1);
            let v: Vec<u32> = (0..l).map(|i| i * stride).filter(|&d| d < n).collect();
            if v.len() as u32 == l {
                v
            } else {
                (0..l).collect()
            }
        }
        _ => {
            // random subset (selection sampling)
            let mut out = Vec::with_capacity(l as usize);
            let mut need = l as u64;
            for d in 0..n {
                let left = (n - d) as u64;
                if rng.below(left) < need {
                    out.push(d);
                    need -= 1;
                    if need == 0 {
                        break;
                    }
                }
            }
            out
        }
    }
}

// ------------------------------------------------------------------------------------------
// plans

/// every field type, small segments, multi-valued, extreme values
fn plan_small(rng: &mut Rng) -> PlanResult {
    let n = if rng.bool() {
        *rng.pick(&[1u32, 2, 3, 5, 17, 64, 127, 128, 129, 200, 300])
    } else {
        rng.range(1, 400) as u32
    };
    let mut protos = vec![];
    for _ in 0..rng.urange(1, 3) {
        protos.push(Proto::text(rtok(rng), ropt(rng), rng.bool()));
    }
    for kind in [Kind::U64, Kind::I64, Kind::F64, Kind::Bool, Kind::Date, Kind::Bytes, Kind::Ip, Kind::Facet] {
        if rng.chance(3, 5) {
            protos.push(Proto::simple(kind, rng.bool()));
        }
    }
    for _ in 0..rng.urange(0, 2) {
        protos.push(Proto::json(rtok(rng), ropt(rng), rng.bool()));
    }
    rng.shuffle(&mut protos);
    let vocab = *rng.pick(&[2usize, 5, 20, 100, 3000]);
    let presence: Vec<u64> = protos.iter().map(|_| *rng.pick(&[1u64, 2, 4, 4])).collect();
    let mut b = SegBuilder::create(protos, budget(rng))?;
    for _ in 0..n {
        for fi in 0..b.specs.len() {
            if !rng.chance(presence[fi], 4) {
                continue;
            }
            let nvals = *rng.pick(&[1usize, 1, 1, 1, 1, 2, 2, 3, 0]);
            let p = b.specs[fi].proto.clone();
            for _ in 0..nvals {
                match p.kind {
                    Kind::Text => {
                        if rng.chance(1, 8) {
                            let t = gen_pretok(rng, vocab);
                            b.pretok(fi, &t);
                        } else {
                            let t = gen_text(rng, p.tok, vocab);
                            b.text(fi, &t);
                        }
                    }
                    Kind::U64 => b.u64(fi, gen_u64(rng)),
                    Kind::I64 => b.i64(fi, gen_i64(rng)),
                    Kind::F64 => b.f64(fi, gen_f64(rng)),
                    Kind::Bool => b.bool(fi, rng.bool()),
                    Kind::Date => b.date(fi, gen_date(rng)),
                    Kind::Bytes => b.bytes(fi, &gen_bytes(rng)),
                    Kind::Ip => b.ip(fi, gen_ip(rng)),
                    Kind::Facet => b.facet(fi, &gen_facet(rng)),
                    Kind::Json => {
                        let j = gen_json(rng, p.tok, vocab, 0);
                        b.json(fi, &j);
                    }
                }
            }
        }
        b.finish_doc()?;
    }
    Ok((b.finish()?, vec![]))
}

/// planted terms whose document frequency sits exactly on the 128-block boundaries
fn plan_boundary(rng: &mut Rng) -> PlanResult {
    let mut n = *rng.pick(&[
        128u32, 129, 130, 255, 256, 257, 258, 384, 385, 512, 640, 1000, 1024, 1025, 2048, 2049, 3000,
    ]);
    if rng.chance(1, 3) {
        n += rng.below(60) as u32;
    }
    let tok_a = *rng.pick(&[Tok::Default, Tok::White]);
    let protos = vec![
        Proto::text(tok_a, ropt(rng), rng.bool()),
        Proto::text(Tok::White, ropt(rng), rng.bool()),
        Proto::simple(Kind::U64, rng.bool()),
        Proto::json(*rng.pick(&[Tok::Default, Tok::White]), ropt(rng), rng.bool()),
    ];
    let mut b = SegBuilder::create(protos, budget(rng))?;
    // planted ids: (field, id) -> doc list
    let mut targets: Vec<u32> = vec![1, 2, 127, 128, 129, 255, 256, 257, 383, 384, 385, n, n - 1, n / 2];
    let mut k = 128;
    while k <= n {
        targets.push(k);
        if k + 1 <= n {
            targets.push(k + 1);
        }
        targets.push(k - 1);
        k += 128;
    }
    targets.retain(|&t| t >= 1 && t <= n);
    // per field: list of (docs, repeat-class)
    let mut member: Vec<Vec<Vec<(u16, u32)>>> = vec![vec![vec![]; n as usize]; 4];
    let mut nplanted = [0usize; 4];
    for f in 0..4 {
        let m = rng.urange(3, 8);
        nplanted[f] = m;
        for j in 0..m {
            let l = *rng.pick(&targets);
            let heavy = rng.chance(1, 12);
            // term-frequency bit widths inside full blocks
            let tf_bits = if rng.chance(1, 3) { rng.below(if l <= 300 { 12 } else { 7 }) } else { 0 };
            for d in choose_docs(rng, n, l) {
                let tf = if f == 2 {
                    1
                } else if heavy && rng.chance(1, 6) {
                    *rng.pick(&[127u32, 128, 129, 130])
                } else if tf_bits > 0 && rng.chance(1, 3) {
                    1 + rng.below(1u64 << tf_bits) as u32
                } else {
                    *rng.pick(&[1u32, 1, 1, 1, 2, 3])
                };
                member[f][d as usize].push((j as u16, tf));
            }
        }
    }
    let filler = 30usize;
    for d in 0..n as usize {
        for f in [0usize, 1] {
            let tok = b.specs[f].proto.tok;
            let mut words: Vec<String> = vec![];
            for &(j, tf) in &member[f][d] {
                for _ in 0..tf {
                    words.push(format!("p{}", word(j as usize)));
                }
            }
            for _ in 0..rng.below(4) {
                words.push(gen_word(rng, tok, filler));
            }
            rng.shuffle(&mut words);
            if words.is_empty() && rng.bool() {
                continue;
            }
            if words.len() > 1 && rng.chance(1, 4) {
                let cut = rng.urange(1, words.len() - 1);
                b.text(f, &words[..cut].join(" "));
                b.text(f, &words[cut..].join(" "));
            } else {
                b.text(f, &words.join(" "));
            }
        }
        for &(j, _) in &member[2][d] {
            b.u64(2, 1000 + j as u64);
        }
        if rng.chance(1, 5) {
            b.u64(2, rng.below(5));
        }
        if !member[3][d].is_empty() || rng.chance(1, 3) {
            let tok = b.specs[3].proto.tok;
            let mut words: Vec<String> = vec![];
            let mut nums: Vec<J> = vec![];
            for &(j, tf) in &member[3][d] {
                if j % 2 == 0 {
                    for _ in 0..tf {
                        words.push(format!("p{}", word(j as usize)));
                    }
                } else {
                    // typed JSON terms with df >= 128 inside a field that records freqs
                    nums.push(match j % 6 {
                        1 => J::I(j as i64),
                        3 => J::B(true),
                        _ => J::F(j as f64 + 0.5),
                    });
                    if tf > 1 {
                        nums.push(J::I(j as i64));
                    }
                }
            }
            for _ in 0..rng.below(3) {
                words.push(gen_word(rng, tok, filler));
            }
            rng.shuffle(&mut words);
            let j = J::Obj(vec![
                ("t".into(), J::Str(words.join(" "))),
                ("n".into(), J::Arr(nums)),
            ]);
            b.json(3, &j);
        }
        b.finish_doc()?;
    }
    let mut planted: Planted = vec![];
    for f in [0usize, 1] {
        for j in 0..nplanted[f] {
            planted.push((f, format!("p{}", word(j)).into_bytes()));
        }
    }
    Ok((b.finish()?, planted))
}

/// large segments: posting lists of 20 000+, sparse lists whose doc-id gaps need 1..~20 bits
fn plan_big(rng: &mut Rng, thorough: bool) -> PlanResult {
    let n: u32 = match rng.below(if thorough { 24 } else { 20 }) {
        0..=3 => rng.range(140_000, 300_000) as u32,
        4 | 5 => rng.range(60_000, 140_000) as u32,
        6 | 7 => rng.range(530_000, 1_100_000) as u32,
        20 | 21 => rng.range(1_100_000, 2_200_000) as u32,
        22 => rng.range(2_200_000, 4_300_000) as u32,
        _ => rng.range(20_500, 60_000) as u32,
    };
    let tok = *rng.pick(&[Tok::Default, Tok::White]);
    let protos = vec![
        Proto::text(tok, ropt(rng), rng.bool()),
        Proto::simple(Kind::U64, rng.bool()),
        Proto::json(Tok::Default, ropt(rng), false),
    ];
    let mut b = SegBuilder::create(protos, 400 * MB)?;
    // events: (doc, term id, tf)
    let mut names: Vec<String> = vec![];
    let mut ev: Vec<(u32, u16, u8)> = vec![];
    // dense list of 20 000+
    let dense_len = (20_000 + rng.below(30_000) as u32).min(n);
    let dense_start = rng.below((n - dense_len) as u64 + 1) as u32;
    names.push("dense".into());
    for d in dense_start..dense_start + dense_len {
        ev.push((d, 0, if rng.chance(1, 50) { 2 } else { 1 }));
    }
    // gap terms
    let maxb = 31 - n.leading_zeros();
    for bw in 1..=maxb {
        let id = names.len() as u16;
        names.push(format!("g{bw:02}"));
        let mut cur = rng.below(64) as u32;
        let mut cnt = 0usize;
        let mut run = rng.urange(20, 110);
        while cur < n && cnt < 1500 {
            ev.push((cur, id, 1 + (rng.chance(1, 9) as u8)));
            cnt += 1;
            run -= 1;
            if run == 0 {
                run = rng.urange(20, 110);
                let g = (1u64 << (bw - 1)) + rng.below(1u64 << (bw - 1));
                cur = (cur as u64 + g + 1).min(u32::MAX as u64) as u32;
            } else {
                cur += 1 + (rng.below(8) == 0) as u32;
            }
        }
    }
    // random sparse terms
    for s in 0..rng.urange(5, 25) {
        let id = names.len() as u16;
        names.push(format!("s{}", word(s)));
        let df = *rng.pick(&[1u32, 2, 50, 127, 128, 129, 300, 1000]);
        for d in choose_docs(rng, n, df) {
            ev.push((d, id, 1));
        }
    }
    ev.sort_unstable();
    let u_window = rng.below(40_000) as u32;
    let u_mod = *rng.pick(&[2u64, 3, 1000]);
    let j_every = *rng.pick(&[0u32, 997, 5003]);
    let mut e = 0usize;
    let mut words: Vec<&str> = vec![];
    for d in 0..n {
        words.clear();
        while e < ev.len() && ev[e].0 == d {
            for _ in 0..ev[e].2 {
                words.push(names[ev[e].1 as usize].as_str());
            }
            e += 1;
        }
        if !words.is_empty() {
            b.text(0, &words.join(" "));
        }
        if d < u_window {
            b.u64(1, d as u64 % u_mod);
        }
        if j_every != 0 && d % j_every == 0 {
            b.json(
                2,
                &J::Obj(vec![
                    ("t".into(), J::Str("far apart".into())),
                    ("n".into(), J::I((d % 3) as i64)),
                ]),
            );
        }
        b.finish_doc()?;
    }
    let planted = names.iter().map(|nm| (0usize, nm.clone().into_bytes())).collect();
    Ok((b.finish()?, planted))
}

/// term frequencies and position counts crossing 128, multi-valued fields, wide position deltas
fn plan_heavy_tf(rng: &mut Rng) -> PlanResult {
    let n = rng.urange(1, 40);
    let tok = *rng.pick(&[Tok::Default, Tok::White]);
    let opt_a = if rng.chance(3, 4) { IndexRecordOption::WithFreqsAndPositions } else { ropt(rng) };
    let protos = vec![
        Proto::text(tok, opt_a, rng.bool()),
        Proto::text(Tok::White, IndexRecordOption::WithFreqsAndPositions, rng.bool()),
        Proto::json(tok, if rng.chance(3, 4) { IndexRecordOption::WithFreqsAndPositions } else { ropt(rng) }, rng.bool()),
    ];
    let mut b = SegBuilder::create(protos, budget(rng))?;
    let tfs = [126u32, 127, 128, 129, 130, 255, 256, 257, 300, 384, 1000, 3000];
    for _ in 0..n {
        // field 0: repeated word interleaved with others, split over several values
        if rng.chance(3, 4) {
            let tf = if rng.chance(2, 3) { *rng.pick(&tfs) } else { rng.range(1, 20) as u32 };
            let noise = *rng.pick(&[0u64, 1, 4]);
            let mut words: Vec<String> = vec![];
            for _ in 0..tf {
                words.push("rep".into());
                for _ in 0..rng.below(noise + 1) {
                    words.push(gen_word(rng, tok, 6));
                }
            }
            let parts = rng.urange(1, 4).min(words.len().max(1));
            let mut start = 0;
            for pi in 0..parts {
                let end = if pi + 1 == parts { words.len() } else { rng.urange(start, words.len()) };
                b.text(0, &words[start..end].join(" "));
                start = end;
            }
        }
        // field 1: pre-tokenized values with wide position gaps
        if rng.chance(1, 2) {
            let cnt = *rng.pick(&[1usize, 5, 127, 128, 129, 260]);
            let wide = rng.below(27) as u32 + 1;
            let mut pos = 0u32;
            let mut toks = vec![];
            for i in 0..cnt {
                toks.push((pos, 1u32, if rng.chance(3, 4) { "rep".to_string() } else { word(rng.usize_below(4)) }));
                let step = if rng.chance(1, 40) || i == 3 {
                    (1u32 << (wide - 1)) + rng.below(1u64 << (wide - 1)) as u32
                } else {
                    rng.below(3) as u32
                };
                // keep every position of the document far below 2^31
                if pos as u64 + step as u64 > (1u64 << 29) {
                    pos += 1;
                } else {
                    pos += step;
                }
            }
            b.pretok(1, &toks);
            if rng.chance(1, 3) {
                b.text(1, "rep tail rep");
            }
        }
        // field 2: json, same path reached several times (array, expand_dots aliases)
        if rng.chance(1, 2) {
            let tf = *rng.pick(&[1u32, 3, 127, 128, 129, 257]);
            let mk = |rng: &mut Rng, k: u32| -> String {
                (0..k)
                    .map(|_| if rng.chance(4, 5) { "rep".to_string() } else { gen_word(rng, tok, 5) })
                    .collect::<Vec<_>>()
                    .join(" ")
            };
            let a = mk(rng, tf);
            let nc = rng.below(4) as u32;
            let c = mk(rng, nc);
            let d = mk(rng, tf / 2);
            b.json(
                2,
                &J::Obj(vec![
                    ("a.b".into(), J::Arr(vec![J::Str(a), J::I(7), J::Str(c)])),
                    ("a".into(), J::Obj(vec![("b".into(), J::Str(d))])),
                ]),
            );
        }
        b.finish_doc()?;
    }
    let planted = vec![(0usize, b"rep".to_vec()), (1usize, b"rep".to_vec())];
    Ok((b.finish()?, planted))
}

const LONG_LENS: [usize; 23] = [
    0, 1, 2, 39, 40, 41, 255, 256, 257, 1000, 4095, 4096, 16_383, 16_384, 32_767, 32_768, 65_000, 65_525,
    65_526, 65_527, 65_530, 65_531, 70_000,
];

fn long_word(rng: &mut Rng, len: usize, fill: char) -> String {
    // long shared prefix, short distinguishing tail
    let tail = format!("{}", rng.below(4));
    if len <= tail.len() {
        return "ab"[..len].to_string();
    }
    let mut s: String = std::iter::repeat(fill).take(len - tail.len()).collect();
    s.push_str(&tail);
    s
}

/// terms of length 0..65 530 (and just beyond, which the indexer drops) with long shared prefixes
fn plan_long_terms(rng: &mut Rng) -> PlanResult {
    let n = rng.urange(1, 24);
    let protos = vec![
        Proto::text(Tok::Raw, ropt(rng), rng.bool()),
        Proto::text(Tok::White, ropt(rng), rng.bool()),
        Proto::simple(Kind::Bytes, rng.bool()),
        Proto::json(*rng.pick(&[Tok::Raw, Tok::White]), ropt(rng), rng.bool()),
    ];
    let mut b = SegBuilder::create(protos, budget(rng))?;
    let fill = *rng.pick(&['a', 'z', '\u{e9}']);
    let clen = fill.len_utf8();
    let gen = |rng: &mut Rng, max: usize| -> String {
        let mut len = *rng.pick(&LONG_LENS);
        if rng.chance(1, 6) {
            len = rng.urange(0, 66_000);
        }
        let len = len.min(max);
        // keep the byte length exact also for the 2-byte filler
        let units = len / clen;
        let mut w = long_word(rng, units, fill);
        while w.len() < len {
            w.push('q');
        }
        w
    };
    for _ in 0..n {
        if rng.chance(2, 3) {
            for _ in 0..rng.urange(1, 2) {
                let w = gen(rng, usize::MAX);
                b.text(0, &w);
            }
        }
        if rng.chance(2, 3) {
            let mut words = vec![];
            for _ in 0..rng.urange(1, 3) {
                if rng.chance(1, 2) {
                    words.push(gen(rng, usize::MAX));
                } else {
                    words.push(word(rng.usize_below(5)));
                }
            }
            let words: Vec<String> = words.into_iter().filter(|w| !w.is_empty()).collect();
            b.text(1, &words.join(" "));
        }
        if rng.chance(2, 3) {
            // bytes: the in-memory key is field id (4 bytes) + value and is limited to 65 535 bytes
            let w = gen(rng, 65_531);
            b.bytes(2, w.as_bytes());
        }
        if rng.chance(2, 3) {
            // json text tokens: those longer than JSON_MAX_TOKEN_LEN (65 526) are dropped; the
            // lengths between that limit and MAX_TOKEN_LEN belong to the `jsonlong` stream
            let mut w = gen(rng, usize::MAX);
            if w.len() > JSON_MAX_TOKEN_LEN && w.len() <= MAX_TOKEN_LEN {
                w = gen(rng, JSON_MAX_TOKEN_LEN);
            }
            let w2 = gen(rng, 300);
            let key = rng.pick(&["a", "a.b", "k"]).to_string();
            b.json(3, &J::Obj(vec![(key, J::Arr(vec![J::Str(w), J::Str(w2)]))]));
        }
        b.finish_doc()?;
    }
    Ok((b.finish()?, vec![]))
}

// ------------------------------------------------------------------------------------------
// case drivers

fn run_plan(case: u64, rng: &mut Rng, rep: &mut Report, plan: &str, thorough: bool) {
    let res = match plan {
        "small" => plan_small(rng),
        "boundary" => plan_boundary(rng),
        "big" => plan_big(rng, thorough),
        "heavy_tf" => plan_heavy_tf(rng),
        _ => plan_long_terms(rng),
    };
    let (built, planted) = match res {
        Ok(x) => x,
        Err(e) => {
            let what = e.split(':').next().unwrap_or("?").to_string();
            rep.violation(format!("api-error:{what}"), json!({"plan": plan, "err": e}));
            return;
        }
    };
    let effort = Effort { max_terms_full: 300, seeks_per_term: 12 };
    let Some(stats) = verify_segment(rep, rng, &built, plan, &planted, &effort) else { return };
    rep.evals(stats.fields);
    rep.count("segments", 1);
    rep.count(&format!("segments:{plan}"), 1);
    rep.count("docs_indexed", built.ndocs as u64);
    rep.observe("plan", plan);
    rep.observe("segment_docs_log2", format!("{:02}", 32 - built.ndocs.leading_zeros()));
    for (nt, shape) in &stats.shapes {
        if *nt {
            rep.nontrivial(shape.clone());
        }
    }
    if case < 6 {
        rep.sample(json!({
            "plan": plan, "docs": built.ndocs, "max_doc_freq": stats.max_df,
            "fields": built.specs.iter().zip(built.models.iter()).map(|(s, m)| json!({
                "field": s.proto.describe(), "terms": m.terms.len(), "total_tokens": m.total_tokens,
                "first_terms": m.terms.iter().take(3).map(|(k, t)| json!({"term": show(k), "df": t.docs.len(),
                    "first_docs": t.docs.iter().take(4).collect::<Vec<_>>(), "first_tfs": t.tfs.iter().take(4).collect::<Vec<_>>()})).collect::<Vec<_>>()
            })).collect::<Vec<_>>()
        }));
    }
}

fn main_case(thorough: bool) -> impl Fn(u64, &mut Rng, &mut Report) + Sync {
    move |case, rng, rep| {
        let plan = match case % 16 {
            0 => "big",
            1 | 9 => "heavy_tf",
            2 | 10 => "long_terms",
            3 | 4 | 5 | 11 => "boundary",
            _ => "small",
        };
        run_plan(case, rng, rep, plan, thorough);
    }
}

/// JSON text tokens around the key limit: field id + path id + type byte + token must fit the
/// 65 535-byte key of the in-memory term table, so tokens longer than JSON_MAX_TOKEN_LEN are
/// dropped (they used to be cut silently, which keeps its own signature here).
fn jsonlong_case(_case: u64, rng: &mut Rng, rep: &mut Report) {
    let tok = *rng.pick(&[Tok::Raw, Tok::White]);
    let (o, dots) = (ropt(rng), rng.bool());
    let protos = vec![Proto::json(tok, o, dots)];
    let mut b = match SegBuilder::create(protos, 15 * MB) {
        Ok(b) => b,
        Err(e) => {
            rep.violation("api-error:writer", json!(e));
            return;
        }
    };
    let n = rng.urange(1, 4);
    let mut lens = vec![];
    // keys the dictionary would hold if over-long tokens were cut at the key limit instead of
    // being dropped (the repaired defect): "a" \0 's' token[..JSON_MAX_TOKEN_LEN]
    let mut cut_extra: Vec<Vec<u8>> = vec![];
    for _ in 0..n {
        let len = *rng.pick(&[65_525usize, 65_526, 65_527, 65_528, 65_529, 65_530]);
        lens.push(len);
        let mut w = "m".repeat(len - 1);
        w.push(*rng.pick(&['0', '1']));
        if len > JSON_MAX_TOKEN_LEN {
            let mut k = b"a\0s".to_vec();
            k.extend_from_slice(&w.as_bytes()[..JSON_MAX_TOKEN_LEN]);
            cut_extra.push(k);
        }
        b.json(0, &J::Obj(vec![("a".into(), J::Str(w)), ("n".into(), J::I(1))]));
        if let Err(e) = b.finish_doc() {
            rep.violation("api-error:add_document", json!(e));
            return;
        }
    }
    let built = match b.finish() {
        Ok(x) => x,
        Err(e) => {
            rep.violation("api-error:commit", json!(e));
            return;
        }
    };
    rep.observe("plan", "jsonlong");
    for l in &lens {
        rep.observe("json_long_token_len", l.to_string());
    }
    // does the dictionary hold the model's keys, or also the over-long tokens cut at the key limit?
    let keys: Vec<Vec<u8>> = (|| {
        let reader = built.index.reader().ok()?;
        let searcher = reader.searcher();
        let seg = searcher.segment_readers().first()?;
        let inv = seg.inverted_index(built.specs[0].field).ok()?;
        let mut st = inv.terms().stream().ok()?;
        let mut keys = vec![];
        while let Some((k, _)) = st.next() {
            keys.push(k.to_vec());
        }
        Some(keys)
    })()
    .unwrap_or_default();
    let model_keys: Vec<&Vec<u8>> = built.models[0].terms.keys().collect();
    let same = keys.len() == model_keys.len() && keys.iter().zip(model_keys.iter()).all(|(a, b)| a == *b);
    if !same && !cut_extra.is_empty() {
        let mut cut: Vec<Vec<u8>> = model_keys.iter().map(|k| (*k).clone()).collect();
        cut.extend(cut_extra.iter().cloned());
        cut.sort();
        cut.dedup();
        if cut == keys {
            rep.eval();
            rep.nontrivial(format!("jsonlong:{}", lens.iter().max().unwrap()));
            rep.violation(
                "json:text-token-within-MAX_TOKEN_LEN-silently-truncated-at-arena-key-limit",
                json!({"token_lens": lens, "tokenizer": tok.name(), "longest_json_token_that_fits_the_key": JSON_MAX_TOKEN_LEN,
                       "dictionary_keys": keys.iter().map(|k| show(k)).collect::<Vec<_>>(),
                       "expected_keys": model_keys.iter().map(|k| show(k)).collect::<Vec<_>>()}),
            );
            return;
        }
    }
    let effort = Effort { max_terms_full: 50, seeks_per_term: 4 };
    if let Some(stats) = verify_segment(rep, rng, &built, "jsonlong", &[], &effort) {
        rep.evals(stats.fields);
        rep.count("segments", 1);
        rep.count("segments:jsonlong", 1);
        rep.nontrivial(format!("jsonlong:{}", lens.iter().max().unwrap()));
    }
}

fn main() {
    let ctx = Ctx::from_env("C07", "exploration");
    let thorough = !ctx.quick();
    let n_main = ctx.scale(240, 5600) as u64;
    let n_long = ctx.scale(8, 64) as u64;
    let mut rep = run_cases(&ctx, "main", n_main, main_case(thorough));
    rep.merge(run_cases(&ctx, "jsonlong", n_long, jsonlong_case));
    simple_finish(
        &ctx,
        rep,
        "case = one generated segment (plans: small all-types, df-boundary, big sparse, heavy tf/positions, long terms, json long tokens) written by the real IndexWriter and read back per field; an evaluation = one (segment, field) read-back: term dictionary (num_terms, stream order, keys vs public Term constructors, TermInfo), total_num_tokens, field norms, and for the selected terms doc_freq + postings under Basic/WithFreqs/WithFreqsAndPositions read by scan, by seek/advance programs, by the block cursor (scan, seek, rank, reset). Non-trivial = the field has a posting list of >= 128 documents or records positions. Distinct = field configuration x df class x tf class x log2(#terms) x log2(#docs).",
        ctx.scale(50, 800),
        &[
            "text is generated as words joined by single spaces; the default/raw/whitespace tokenizers are modelled by their documented rules (split, RemoveLongFilter(40), MAX_TOKEN_LEN; a JSON text token must also fit the 65535-byte in-memory key after field id + path id + type byte, i.e. <= 65526 bytes, else it is dropped)",
            "one indexing thread, NoMergePolicy and one commit give exactly one segment whose doc ids are the insertion order; cases where the memory budget cut the segment are skipped and counted",
            "term_freq is only compared when the requested option has frequencies; for terms recorded without frequencies (Basic fields, typed JSON values) the documented value 1 is expected",
            "positions() is not called on typed JSON terms of a field with positions (no positions exist; tantivy's merger avoids the call as well)",
            "doc-id gaps above ~21 bits cannot be produced through the public indexing path (they need > 2^21 documents in one segment)",
        ],
    );
}
