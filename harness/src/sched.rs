//! Forced schedules shared by several checks (C02, C04): a merge that ends AFTER the writer that
//! started it has been replaced and the successor has committed. Whatever the old generation
//! still does - the merge thread, or an `end_merge` task already accepted by the old segment
//! updater - must not change what is published: a fresh reader shows exactly the successor's
//! commit, also after one more commit.

use std::time::Duration;

use serde_json::{json, Value};

use crate::hist::*;
use crate::mondir::{MonCfg, MonDir, OpKind, OpPred};
use crate::report::is_known;
use crate::rng::Rng;

pub struct SchedOutcome {
    /// the schedule was actually forced (threads parked where intended)
    pub forced: bool,
    pub shape: String,
    pub problems: Vec<(String, Value)>,
    pub counters: Vec<String>,
}

/// `dropped` = the old writer is dropped while its merge thread is parked (the merge ends after
/// the successor's commit); otherwise the old writer is rolled back while its segment updater is
/// parked inside `end_merge` (the task was accepted before the kill).
pub fn stale_merge_schedule(rng: &mut Rng, dropped: bool) -> SchedOutcome {
    stale_merge_schedule_mode(rng, if dropped { 1 } else { 0 })
}

/// mode 0 = rolled back while the old updater is parked inside `end_merge` (before it saves),
/// mode 1 = writer dropped while the merge thread is parked,
/// mode 2 = rolled back while the old updater is parked INSIDE its `save_metas`, after it has
///          checked that it is alive (it resumes 300 ms later: either `rollback()` waited for
///          it, or it must not replace meta.json any more once its successor has committed).
pub fn stale_merge_schedule_mode(rng: &mut Rng, mode: u8) -> SchedOutcome {
    let dropped = mode == 1;
    let mut out = SchedOutcome {
        forced: false,
        shape: String::new(),
        problems: vec![],
        counters: vec![],
    };
    let cfg = ExecCfg { threads: 1, merge_policy: false, sort: None, budget_per_thread: 15_000_000 };
    let mon = MonDir::new(MonCfg { monitors: true, ..Default::default() });
    let mut ex = match Exec::create(Box::new(mon.clone()), cfg, Some(mon.clone())) {
        Ok(e) => e,
        Err(e) => {
            out.problems.push(("api-error:create".into(), json!(e)));
            return out;
        }
    };
    let mut g = HistGen::new();
    let nseg = rng.urange(2, 4);
    for _ in 0..nseg {
        for _ in 0..rng.urange(2, 8) {
            ex.step(&Op::Add(g.doc(rng, 2)));
        }
        ex.step(&Op::Commit);
    }
    let ids = ex.index.searchable_segment_ids().unwrap_or_default();
    if ids.len() < 2 {
        return out;
    }
    let gate1 = mon.add_gate(OpPred::kind(OpKind::OpenWrite).role("merge"), rng.below(4));
    let fut = ex.writer.as_mut().unwrap().merge(&ids);
    if !mon.wait_parked(gate1, Duration::from_secs(5)) {
        mon.release_all_gates();
        let _ = fut.wait();
        out.counters.push("stale_merge:merge_gate_not_reached".into());
        return out;
    }
    // deletes committed while the merge runs: end_merge has a .del file to write for the merged
    // segment, which is where the old updater is parked in the rolled-back variant
    let with_delete = mode == 0 || (mode == 1 && rng.bool());
    if with_delete {
        ex.step(&Op::DeleteTerm(Pred::Grp(0)));
        if rng.bool() {
            ex.step(&Op::DeleteTerm(Pred::Grp(1)));
        }
        ex.step(&Op::Add(g.doc(rng, 2)));
        ex.step(&Op::Commit);
    }
    let mut releaser = None;
    let (gate2, parked2) = if dropped {
        (gate1, true)
    } else if mode == 2 {
        // the first storage operation of save_metas after its is_alive check
        let gate2 = mon.add_gate(OpPred::kind(OpKind::SyncDir).role("updater"), 0);
        mon.release_gate(gate1);
        let parked = mon.wait_parked(gate2, Duration::from_secs(5));
        let mon2 = mon.clone();
        releaser = Some(std::thread::spawn(move || {
            std::thread::sleep(Duration::from_millis(300));
            mon2.release_gate(gate2);
        }));
        (gate2, parked)
    } else {
        let gate2 = mon.add_gate(OpPred::kind(OpKind::OpenWrite).role("updater").fkind("del"), 0);
        mon.release_gate(gate1);
        (gate2, mon.wait_parked(gate2, Duration::from_secs(5)))
    };
    out.counters.push(
        if dropped {
            "stale_merge:merge_thread_parked_across_writer_drop"
        } else if mode == 2 {
            if parked2 { "stale_merge:old_updater_parked_inside_save_metas" } else { "stale_merge:save_metas_gate_not_reached" }
        } else if parked2 {
            "stale_merge:old_updater_parked_in_end_merge"
        } else {
            "stale_merge:end_merge_wrote_no_del"
        }
        .into(),
    );
    // the writer is replaced and the replacement commits (a delete that hits, and adds)
    for _ in 0..rng.urange(0, 2) {
        ex.step(&Op::Add(g.doc(rng, 2)));
    }
    ex.step(&if dropped { Op::Reopen { wait_merges: false } } else { Op::Rollback });
    ex.step(&Op::DeleteTerm(Pred::Grp(rng.below(2))));
    for _ in 0..rng.urange(1, 3) {
        ex.step(&Op::Add(g.doc(rng, 2)));
    }
    ex.step(&Op::Commit);
    let mut errs = ex.check_committed(true);
    if let Some(r) = releaser.take() {
        let _ = r.join();
    }
    mon.release_gate(gate2);
    mon.release_all_gates();
    let outcome = match fut.wait() {
        Ok(_) => "ok",
        Err(_) => "err",
    };
    out.counters.push(format!("stale_merge:old_merge_returned_{outcome}"));
    if errs.is_empty() {
        errs = ex
            .check_committed(true)
            .into_iter()
            .map(|(s, d)| (format!("after-the-old-generation-finished:{s}"), d))
            .collect();
    }
    if errs.is_empty() {
        ex.step(&Op::Add(g.doc(rng, 2)));
        ex.step(&Op::Commit);
        errs = ex
            .check_committed(true)
            .into_iter()
            .map(|(s, d)| (format!("after-one-more-commit:{s}"), d))
            .collect();
    }
    for (sig, d) in ex.problems.drain(..) {
        if !is_known("C02", &sig) {
            errs.push((format!("live:{sig}"), d));
        }
    }
    for v in mon.take_violations() {
        errs.push((v.sig, v.detail));
    }
    out.forced = parked2;
    out.shape = format!(
        "{}:nseg={nseg}:{}:{outcome}",
        match mode {
            1 => "writer-dropped",
            2 => "rolled-back-inside-save_metas",
            _ => "rolled-back",
        },
        if with_delete { "delete-committed-during-merge" } else { "no-delete" }
    );
    out.problems = errs;
    out
}
