//! C07 — the inverted index records exactly the terms, documents, frequencies, positions.
//!
//! Every case builds one segment (Index::create_in_ram, one indexing thread, NoMergePolicy, one
//! commit) from generated documents, builds a naive model inverted index from the same generated
//! token lists / typed values (`c07_util::model`), and reads everything back through
//! `SegmentReader::inverted_index(field)` (`c07_util::verify`).
//!
//! Streams: `vint` (doc-id deltas, term frequencies, positions on the length boundaries of the
//! variable-length integer encoding, see `c07_util::vintedge`), `main` (plans small / boundary /
//! big / heavy_tf / long_terms), `jsonlong`,
//! `interleave` (documents whose values are not grouped by field), `collide` (distinct terms whose
//! in-memory keys have the same 32-bit hash in the indexing-time term table) and `arena` (the
//! term table alone, fed with such keys).
#[path = "c07_util/mod.rs"]
mod c07_util;

use c07_util::collide::{self, Alphabet, Template};
use c07_util::model::*;
use c07_util::verify::*;
use c07_util::vintedge;
use serde_json::json;
use tantivy::schema::IndexRecordOption;
use tvmon::report::*;
use tvmon::rng::Rng;

type Planted = Vec<(usize, Vec<u8>)>;
type PlanResult = Result<(Built, Planted), String>;

const MB: usize = 1 << 20;

// ------------------------------------------------------------------------------------------
// small generators

fn word(i: usize) -> String {
    let mut s = String::new();
    let mut x = i;
    loop {
        s.push((b'a' + (x % 26) as u8) as char);
        x /= 26;
        if x == 0 {
            break;
        }
    }
    s
}

/// skewed index in [0, v)
fn zipf(rng: &mut Rng, v: usize) -> usize {
    let x = (v as f64 + 1.0).powf(rng.f64()) as usize;
    x.saturating_sub(1).min(v - 1)
}

fn ropt(rng: &mut Rng) -> IndexRecordOption {
    *rng.pick(&[
        IndexRecordOption::Basic,
        IndexRecordOption::WithFreqs,
        IndexRecordOption::WithFreqsAndPositions,
        IndexRecordOption::WithFreqsAndPositions,
    ])
}

fn rtok(rng: &mut Rng) -> Tok {
    *rng.pick(&[Tok::Default, Tok::Default, Tok::White, Tok::Raw])
}

fn budget(rng: &mut Rng) -> usize {
    // the budget also decides the initial size of the term hash table
    *rng.pick(&[15 * MB, 16 * MB, 40 * MB, 120 * MB])
}

/// one word obeying the rules of tokenizer `tok` (never contains ASCII whitespace)
fn gen_word(rng: &mut Rng, tok: Tok, vocab: usize) -> String {
    let w = word(zipf(rng, vocab));
    match tok {
        Tok::Default => {
            if rng.chance(1, 25) {
                // around the RemoveLongFilter limit of the default analyzer
                let len = *rng.pick(&[38usize, 39, 40, 41, 60]);
                let mut s = "x".repeat(len - w.len().min(len));
                s.push_str(&w);
                s.truncate(len);
                s
            } else if rng.chance(1, 10) {
                format!("{w}{}", rng.below(10))
            } else {
                w
            }
        }
        Tok::White | Tok::Raw => match rng.below(8) {
            0 => format!("{w},"),
            1 => format!("{w}\u{e9}"),
            2 => format!("\u{df}-{w}!"),
            3 => format!("{w}.{w}"),
            _ => w,
        },
    }
}

fn gen_text(rng: &mut Rng, tok: Tok, vocab: usize) -> String {
    let n = match tok {
        Tok::Raw => *rng.pick(&[0usize, 1, 1, 1, 2, 3]),
        _ => *rng.pick(&[0usize, 1, 2, 3, 5, 8, 12]),
    };
    (0..n).map(|_| gen_word(rng, tok, vocab)).collect::<Vec<_>>().join(" ")
}

fn gen_pretok(rng: &mut Rng, vocab: usize) -> Vec<(u32, u32, String)> {
    let n = rng.urange(0, 6);
    let mut pos = rng.below(3) as u32;
    let mut out = vec![];
    for _ in 0..n {
        let plen = *rng.pick(&[1u32, 1, 1, 2, 3]);
        out.push((pos, plen, gen_word(rng, Tok::White, vocab)));
        pos += match rng.below(6) {
            0 => 0,
            1 => rng.below(40) as u32,
            2 => 1u32 << rng.below(16),
            _ => 1,
        };
    }
    out
}

fn gen_u64(rng: &mut Rng) -> u64 {
    match rng.below(8) {
        0 => *rng.pick(&[0u64, 1, u64::MAX, u64::MAX - 1, i64::MAX as u64, i64::MAX as u64 + 1, 255, 256, 1 << 32]),
        1 => rng.next_u64(),
        2 => 1u64 << rng.below(64),
        _ => rng.below(12),
    }
}
fn gen_i64(rng: &mut Rng) -> i64 {
    match rng.below(8) {
        0 => *rng.pick(&[i64::MIN, i64::MIN + 1, -1, 0, 1, i64::MAX, i64::MAX - 1]),
        1 => rng.next_u64() as i64,
        _ => rng.irange(-6, 6),
    }
}
fn gen_f64(rng: &mut Rng) -> f64 {
    match rng.below(8) {
        0 => *rng.pick(&[
            0.0f64,
            -0.0,
            f64::INFINITY,
            f64::NEG_INFINITY,
            f64::NAN,
            f64::MIN_POSITIVE,
            f64::MAX,
            f64::MIN,
            f64::EPSILON,
            9.223372036854775807e18,
            1.8446744073709552e19,
            1e19,
            -9.3e18,
        ]),
        1 => f64::from_bits(rng.next_u64()),
        2 => rng.irange(-5, 5) as f64,
        _ => rng.irange(-40, 40) as f64 / 8.0,
    }
}
fn gen_date(rng: &mut Rng) -> i64 {
    match rng.below(6) {
        0 => *rng.pick(&[
            0i64,
            1,
            -1,
            999_999_999,
            1_000_000_000,
            -999_999_999,
            -1_000_000_000,
            -1_000_000_001,
            i64::MAX,
            i64::MIN,
        ]),
        1 => rng.next_u64() as i64,
        _ => rng.irange(-5, 5) * 1_000_000_000 + rng.irange(0, 2) * 500_000_000,
    }
}
fn gen_bytes(rng: &mut Rng) -> Vec<u8> {
    match rng.below(6) {
        0 => vec![],
        1 => vec![*rng.pick(&[0u8, 1, 255])],
        2 => {
            let n = rng.urange(1, 24);
            rng.bytes(n)
        }
        _ => {
            let n = rng.urange(1, 6);
            (0..n).map(|_| *rng.pick(&[0u8, 1, b'a', 255])).collect()
        }
    }
}
fn gen_ip(rng: &mut Rng) -> u128 {
    match rng.below(6) {
        0 => *rng.pick(&[0u128, 1, u128::MAX, u128::MAX - 1, 1 << 64]),
        1 => ((rng.next_u64() as u128) << 64) | rng.next_u64() as u128,
        2 => (0xffffu128 << 32) | rng.next_u32() as u128,
        _ => (0xffffu128 << 32) | (0x0a00_0000u128 + rng.below(6) as u128),
    }
}
fn gen_facet(rng: &mut Rng) -> Vec<String> {
    let depth = *rng.pick(&[0usize, 1, 1, 2, 2, 3, 5]);
    (0..depth)
        .map(|_| match rng.below(8) {
            0 => "caf\u{e9}".to_string(),
            1 => "a b".to_string(),
            _ => word(rng.usize_below(4)),
        })
        .collect()
}

fn gen_json_key(rng: &mut Rng) -> String {
    match rng.below(40) {
        0 => "".into(),
        1 => "\u{e9}t\u{e9}".into(),
        2 => "a\u{1}b".into(),
        3 => "nul\u{0}key".into(),
        4 => "x\\y".into(),
        5 => ".".into(),
        6 => "a..b".into(),
        _ => rng.pick(&["a", "b", "c", "a.b", "b.c.d", "k", "a.b", "c.a"]).to_string(),
    }
}

fn gen_json_leaf(rng: &mut Rng, tok: Tok, vocab: usize) -> J {
    match rng.below(12) {
        0 => J::Null,
        1 => J::U(gen_u64(rng)),
        2 => J::I(gen_i64(rng)),
        3 => J::F(gen_f64(rng)),
        4 => J::B(rng.bool()),
        5 => J::D(gen_date(rng)),
        6 => J::U(rng.below(4)),
        _ => J::Str(gen_text(rng, tok, vocab)),
    }
}

fn gen_json(rng: &mut Rng, tok: Tok, vocab: usize, depth: usize) -> J {
    let n = *rng.pick(&[0usize, 1, 1, 2, 3, 4]);
    let mut kv = vec![];
    for _ in 0..n {
        let k = gen_json_key(rng);
        let v = match rng.below(10) {
            0 | 1 if depth < 3 => gen_json(rng, tok, vocab, depth + 1),
            2 | 3 => {
                let m = rng.urange(0, 3);
                J::Arr(
                    (0..m)
                        .map(|_| {
                            if depth < 3 && rng.chance(1, 4) {
                                gen_json(rng, tok, vocab, depth + 1)
                            } else {
                                gen_json_leaf(rng, tok, vocab)
                            }
                        })
                        .collect(),
                )
            }
            _ => gen_json_leaf(rng, tok, vocab),
        };
        kv.push((k, v));
    }
    J::Obj(kv)
}

/// `l` distinct sorted doc ids out of 0..n, by one of several layouts
fn choose_docs(rng: &mut Rng, n: u32, l: u32) -> Vec<u32> {
    let l = l.min(n).max(1);
    match rng.below(4) {
        0 => (0..l).collect(),
        1 => (n - l..n).collect(),
        2 => {
            // evenly spaced with jitter-free stride
            let stride = (n / l).max(1);
            let v: Vec<u32> = (0..l).map(|i| i * stride).filter(|&d| d < n).collect();
            if v.len() as u32 == l {
                v
            } else {
                (0..l).collect()
            }
        }
        _ => {
            // random subset (selection sampling)
            let mut out = Vec::with_capacity(l as usize);
            let mut need = l as u64;
            for d in 0..n {
                let left = (n - d) as u64;
                if rng.below(left) < need {
                    out.push(d);
                    need -= 1;
                    if need == 0 {
                        break;
                    }
                }
            }
            out
        }
    }
}

// ------------------------------------------------------------------------------------------
// plans

/// every field type, small segments, multi-valued, extreme values
fn plan_small(rng: &mut Rng) -> PlanResult {
    let n = if rng.bool() {
        *rng.pick(&[1u32, 2, 3, 5, 17, 64, 127, 128, 129, 200, 300])
    } else {
        rng.range(1, 400) as u32
    };
    let mut protos = vec![];
    for _ in 0..rng.urange(1, 3) {
        protos.push(Proto::text(rtok(rng), ropt(rng), rng.bool()));
    }
    for kind in [Kind::U64, Kind::I64, Kind::F64, Kind::Bool, Kind::Date, Kind::Bytes, Kind::Ip, Kind::Facet] {
        if rng.chance(3, 5) {
            protos.push(Proto::simple(kind, rng.bool()));
        }
    }
    for _ in 0..rng.urange(0, 2) {
        protos.push(Proto::json(rtok(rng), ropt(rng), rng.bool()));
    }
    rng.shuffle(&mut protos);
    let vocab = *rng.pick(&[2usize, 5, 20, 100, 3000]);
    let presence: Vec<u64> = protos.iter().map(|_| *rng.pick(&[1u64, 2, 4, 4])).collect();
    let mut b = SegBuilder::create(protos, budget(rng))?;
    for _ in 0..n {
        for fi in 0..b.specs.len() {
            if !rng.chance(presence[fi], 4) {
                continue;
            }
            let nvals = *rng.pick(&[1usize, 1, 1, 1, 1, 2, 2, 3, 0]);
            let p = b.specs[fi].proto.clone();
            for _ in 0..nvals {
                match p.kind {
                    Kind::Text => {
                        if rng.chance(1, 8) {
                            let t = gen_pretok(rng, vocab);
                            b.pretok(fi, &t);
                        } else {
                            let t = gen_text(rng, p.tok, vocab);
                            b.text(fi, &t);
                        }
                    }
                    Kind::U64 => b.u64(fi, gen_u64(rng)),
                    Kind::I64 => b.i64(fi, gen_i64(rng)),
                    Kind::F64 => b.f64(fi, gen_f64(rng)),
                    Kind::Bool => b.bool(fi, rng.bool()),
                    Kind::Date => b.date(fi, gen_date(rng)),
                    Kind::Bytes => b.bytes(fi, &gen_bytes(rng)),
                    Kind::Ip => b.ip(fi, gen_ip(rng)),
                    Kind::Facet => b.facet(fi, &gen_facet(rng)),
                    Kind::Json => {
                        let j = gen_json(rng, p.tok, vocab, 0);
                        b.json(fi, &j);
                    }
                }
            }
        }
        b.finish_doc()?;
    }
    Ok((b.finish()?, vec![]))
}

/// planted terms whose document frequency sits exactly on the 128-block boundaries
fn plan_boundary(rng: &mut Rng) -> PlanResult {
    let mut n = *rng.pick(&[
        128u32, 129, 130, 255, 256, 257, 258, 384, 385, 512, 640, 1000, 1024, 1025, 2048, 2049, 3000,
    ]);
    if rng.chance(1, 3) {
        n += rng.below(60) as u32;
    }
    let tok_a = *rng.pick(&[Tok::Default, Tok::White]);
    let protos = vec![
        Proto::text(tok_a, ropt(rng), rng.bool()),
        Proto::text(Tok::White, ropt(rng), rng.bool()),
        Proto::simple(Kind::U64, rng.bool()),
        Proto::json(*rng.pick(&[Tok::Default, Tok::White]), ropt(rng), rng.bool()),
    ];
    let mut b = SegBuilder::create(protos, budget(rng))?;
    // planted ids: (field, id) -> doc list
    let mut targets: Vec<u32> = vec![1, 2, 127, 128, 129, 255, 256, 257, 383, 384, 385, n, n - 1, n / 2];
    let mut k = 128;
    while k <= n {
        targets.push(k);
        if k + 1 <= n {
            targets.push(k + 1);
        }
        targets.push(k - 1);
        k += 128;
    }
    targets.retain(|&t| t >= 1 && t <= n);
    // per field: list of (docs, repeat-class)
    let mut member: Vec<Vec<Vec<(u16, u32)>>> = vec![vec![vec![]; n as usize]; 4];
    let mut nplanted = [0usize; 4];
    for f in 0..4 {
        let m = rng.urange(3, 8);
        nplanted[f] = m;
        for j in 0..m {
            let l = *rng.pick(&targets);
            let heavy = rng.chance(1, 12);
            // term-frequency bit widths inside full blocks
            let tf_bits = if rng.chance(1, 3) { rng.below(if l <= 300 { 12 } else { 7 }) } else { 0 };
            for d in choose_docs(rng, n, l) {
                let tf = if f == 2 {
                    1
                } else if heavy && rng.chance(1, 6) {
                    *rng.pick(&[127u32, 128, 129, 130])
                } else if tf_bits > 0 && rng.chance(1, 3) {
                    1 + rng.below(1u64 << tf_bits) as u32
                } else {
                    *rng.pick(&[1u32, 1, 1, 1, 2, 3])
                };
                member[f][d as usize].push((j as u16, tf));
            }
        }
    }
    let filler = 30usize;
    for d in 0..n as usize {
        for f in [0usize, 1] {
            let tok = b.specs[f].proto.tok;
            let mut words: Vec<String> = vec![];
            for &(j, tf) in &member[f][d] {
                for _ in 0..tf {
                    words.push(format!("p{}", word(j as usize)));
                }
            }
            for _ in 0..rng.below(4) {
                words.push(gen_word(rng, tok, filler));
            }
            rng.shuffle(&mut words);
            if words.is_empty() && rng.bool() {
                continue;
            }
            if words.len() > 1 && rng.chance(1, 4) {
                let cut = rng.urange(1, words.len() - 1);
                b.text(f, &words[..cut].join(" "));
                b.text(f, &words[cut..].join(" "));
            } else {
                b.text(f, &words.join(" "));
            }
        }
        for &(j, _) in &member[2][d] {
            b.u64(2, 1000 + j as u64);
        }
        if rng.chance(1, 5) {
            b.u64(2, rng.below(5));
        }
        if !member[3][d].is_empty() || rng.chance(1, 3) {
            let tok = b.specs[3].proto.tok;
            let mut words: Vec<String> = vec![];
            let mut nums: Vec<J> = vec![];
            for &(j, tf) in &member[3][d] {
                if j % 2 == 0 {
                    for _ in 0..tf {
                        words.push(format!("p{}", word(j as usize)));
                    }
                } else {
                    // typed JSON terms with df >= 128 inside a field that records freqs
                    nums.push(match j % 6 {
                        1 => J::I(j as i64),
                        3 => J::B(true),
                        _ => J::F(j as f64 + 0.5),
                    });
                    if tf > 1 {
                        nums.push(J::I(j as i64));
                    }
                }
            }
            for _ in 0..rng.below(3) {
                words.push(gen_word(rng, tok, filler));
            }
            rng.shuffle(&mut words);
            let j = J::Obj(vec![
                ("t".into(), J::Str(words.join(" "))),
                ("n".into(), J::Arr(nums)),
            ]);
            b.json(3, &j);
        }
        b.finish_doc()?;
    }
    let mut planted: Planted = vec![];
    for f in [0usize, 1] {
        for j in 0..nplanted[f] {
            planted.push((f, format!("p{}", word(j)).into_bytes()));
        }
    }
    Ok((b.finish()?, planted))
}

/// large segments: posting lists of 20 000+, sparse lists whose doc-id gaps need 1..~20 bits
fn plan_big(rng: &mut Rng, thorough: bool) -> PlanResult {
    let n: u32 = match rng.below(if thorough { 24 } else { 20 }) {
        0..=3 => rng.range(140_000, 300_000) as u32,
        4 | 5 => rng.range(60_000, 140_000) as u32,
        6 | 7 => rng.range(530_000, 1_100_000) as u32,
        20 | 21 => rng.range(1_100_000, 2_200_000) as u32,
        22 => rng.range(2_200_000, 4_300_000) as u32,
        _ => rng.range(20_500, 60_000) as u32,
    };
    let tok = *rng.pick(&[Tok::Default, Tok::White]);
    let protos = vec![
        Proto::text(tok, ropt(rng), rng.bool()),
        Proto::simple(Kind::U64, rng.bool()),
        Proto::json(Tok::Default, ropt(rng), false),
    ];
    let mut b = SegBuilder::create(protos, 400 * MB)?;
    // events: (doc, term id, tf)
    let mut names: Vec<String> = vec![];
    let mut ev: Vec<(u32, u16, u8)> = vec![];
    // dense list of 20 000+
    let dense_len = (20_000 + rng.below(30_000) as u32).min(n);
    let dense_start = rng.below((n - dense_len) as u64 + 1) as u32;
    names.push("dense".into());
    for d in dense_start..dense_start + dense_len {
        ev.push((d, 0, if rng.chance(1, 50) { 2 } else { 1 }));
    }
    // gap terms
    let maxb = 31 - n.leading_zeros();
    for bw in 1..=maxb {
        let id = names.len() as u16;
        names.push(format!("g{bw:02}"));
        let mut cur = rng.below(64) as u32;
        let mut cnt = 0usize;
        let mut run = rng.urange(20, 110);
        while cur < n && cnt < 1500 {
            ev.push((cur, id, 1 + (rng.chance(1, 9) as u8)));
            cnt += 1;
            run -= 1;
            if run == 0 {
                run = rng.urange(20, 110);
                let g = (1u64 << (bw - 1)) + rng.below(1u64 << (bw - 1));
                cur = (cur as u64 + g + 1).min(u32::MAX as u64) as u32;
            } else {
                cur += 1 + (rng.below(8) == 0) as u32;
            }
        }
    }
    // random sparse terms
    for s in 0..rng.urange(5, 25) {
        let id = names.len() as u16;
        names.push(format!("s{}", word(s)));
        let df = *rng.pick(&[1u32, 2, 50, 127, 128, 129, 300, 1000]);
        for d in choose_docs(rng, n, df) {
            ev.push((d, id, 1));
        }
    }
    ev.sort_unstable();
    let u_window = rng.below(40_000) as u32;
    let u_mod = *rng.pick(&[2u64, 3, 1000]);
    let j_every = *rng.pick(&[0u32, 997, 5003]);
    let mut e = 0usize;
    let mut words: Vec<&str> = vec![];
    for d in 0..n {
        words.clear();
        while e < ev.len() && ev[e].0 == d {
            for _ in 0..ev[e].2 {
                words.push(names[ev[e].1 as usize].as_str());
            }
            e += 1;
        }
        if !words.is_empty() {
            b.text(0, &words.join(" "));
        }
        if d < u_window {
            b.u64(1, d as u64 % u_mod);
        }
        if j_every != 0 && d % j_every == 0 {
            b.json(
                2,
                &J::Obj(vec![
                    ("t".into(), J::Str("far apart".into())),
                    ("n".into(), J::I((d % 3) as i64)),
                ]),
            );
        }
        b.finish_doc()?;
    }
    let planted = names.iter().map(|nm| (0usize, nm.clone().into_bytes())).collect();
    Ok((b.finish()?, planted))
}

/// term frequencies and position counts crossing 128, multi-valued fields, wide position deltas
fn plan_heavy_tf(rng: &mut Rng) -> PlanResult {
    let n = rng.urange(1, 40);
    let tok = *rng.pick(&[Tok::Default, Tok::White]);
    let opt_a = if rng.chance(3, 4) { IndexRecordOption::WithFreqsAndPositions } else { ropt(rng) };
    let protos = vec![
        Proto::text(tok, opt_a, rng.bool()),
        Proto::text(Tok::White, IndexRecordOption::WithFreqsAndPositions, rng.bool()),
        Proto::json(tok, if rng.chance(3, 4) { IndexRecordOption::WithFreqsAndPositions } else { ropt(rng) }, rng.bool()),
    ];
    let mut b = SegBuilder::create(protos, budget(rng))?;
    let tfs = [126u32, 127, 128, 129, 130, 255, 256, 257, 300, 384, 1000, 3000];
    for _ in 0..n {
        // field 0: repeated word interleaved with others, split over several values
        if rng.chance(3, 4) {
            let tf = if rng.chance(2, 3) { *rng.pick(&tfs) } else { rng.range(1, 20) as u32 };
            let noise = *rng.pick(&[0u64, 1, 4]);
            let mut words: Vec<String> = vec![];
            for _ in 0..tf {
                words.push("rep".into());
                for _ in 0..rng.below(noise + 1) {
                    words.push(gen_word(rng, tok, 6));
                }
            }
            let parts = rng.urange(1, 4).min(words.len().max(1));
            let mut start = 0;
            for pi in 0..parts {
                let end = if pi + 1 == parts { words.len() } else { rng.urange(start, words.len()) };
                b.text(0, &words[start..end].join(" "));
                start = end;
            }
        }
        // field 1: pre-tokenized values with wide position gaps
        if rng.chance(1, 2) {
            let cnt = *rng.pick(&[1usize, 5, 127, 128, 129, 260]);
            let wide = rng.below(27) as u32 + 1;
            let mut pos = 0u32;
            let mut toks = vec![];
            for i in 0..cnt {
                toks.push((pos, 1u32, if rng.chance(3, 4) { "rep".to_string() } else { word(rng.usize_below(4)) }));
                let step = if rng.chance(1, 40) || i == 3 {
                    (1u32 << (wide - 1)) + rng.below(1u64 << (wide - 1)) as u32
                } else {
                    rng.below(3) as u32
                };
                // keep every position of the document far below 2^31
                if pos as u64 + step as u64 > (1u64 << 29) {
                    pos += 1;
                } else {
                    pos += step;
                }
            }
            b.pretok(1, &toks);
            if rng.chance(1, 3) {
                b.text(1, "rep tail rep");
            }
        }
        // field 2: json, same path reached several times (array, expand_dots aliases)
        if rng.chance(1, 2) {
            let tf = *rng.pick(&[1u32, 3, 127, 128, 129, 257]);
            let mk = |rng: &mut Rng, k: u32| -> String {
                (0..k)
                    .map(|_| if rng.chance(4, 5) { "rep".to_string() } else { gen_word(rng, tok, 5) })
                    .collect::<Vec<_>>()
                    .join(" ")
            };
            let a = mk(rng, tf);
            let nc = rng.below(4) as u32;
            let c = mk(rng, nc);
            let d = mk(rng, tf / 2);
            b.json(
                2,
                &J::Obj(vec![
                    ("a.b".into(), J::Arr(vec![J::Str(a), J::I(7), J::Str(c)])),
                    ("a".into(), J::Obj(vec![("b".into(), J::Str(d))])),
                ]),
            );
        }
        b.finish_doc()?;
    }
    let planted = vec![(0usize, b"rep".to_vec()), (1usize, b"rep".to_vec())];
    Ok((b.finish()?, planted))
}

const LONG_LENS: [usize; 23] = [
    0, 1, 2, 39, 40, 41, 255, 256, 257, 1000, 4095, 4096, 16_383, 16_384, 32_767, 32_768, 65_000, 65_525,
    65_526, 65_527, 65_530, 65_531, 70_000,
];

fn long_word(rng: &mut Rng, len: usize, fill: char) -> String {
    // long shared prefix, short distinguishing tail
    let tail = format!("{}", rng.below(4));
    if len <= tail.len() {
        return "ab"[..len].to_string();
    }
    let mut s: String = std::iter::repeat(fill).take(len - tail.len()).collect();
    s.push_str(&tail);
    s
}

/// terms of length 0..65 530 (and just beyond, which the indexer drops) with long shared prefixes
fn plan_long_terms(rng: &mut Rng) -> PlanResult {
    let n = rng.urange(1, 24);
    let protos = vec![
        Proto::text(Tok::Raw, ropt(rng), rng.bool()),
        Proto::text(Tok::White, ropt(rng), rng.bool()),
        Proto::simple(Kind::Bytes, rng.bool()),
        Proto::json(*rng.pick(&[Tok::Raw, Tok::White]), ropt(rng), rng.bool()),
    ];
    let mut b = SegBuilder::create(protos, budget(rng))?;
    let fill = *rng.pick(&['a', 'z', '\u{e9}']);
    let clen = fill.len_utf8();
    let gen = |rng: &mut Rng, max: usize| -> String {
        let mut len = *rng.pick(&LONG_LENS);
        if rng.chance(1, 6) {
            len = rng.urange(0, 66_000);
        }
        let len = len.min(max);
        // keep the byte length exact also for the 2-byte filler
        let units = len / clen;
        let mut w = long_word(rng, units, fill);
        while w.len() < len {
            w.push('q');
        }
        w
    };
    for _ in 0..n {
        if rng.chance(2, 3) {
            for _ in 0..rng.urange(1, 2) {
                let w = gen(rng, usize::MAX);
                b.text(0, &w);
            }
        }
        if rng.chance(2, 3) {
            let mut words = vec![];
            for _ in 0..rng.urange(1, 3) {
                if rng.chance(1, 2) {
                    words.push(gen(rng, usize::MAX));
                } else {
                    words.push(word(rng.usize_below(5)));
                }
            }
            let words: Vec<String> = words.into_iter().filter(|w| !w.is_empty()).collect();
            b.text(1, &words.join(" "));
        }
        if rng.chance(2, 3) {
            // bytes: the in-memory key is field id (4 bytes) + value and is limited to 65 535 bytes
            let w = gen(rng, 65_531);
            b.bytes(2, w.as_bytes());
        }
        if rng.chance(2, 3) {
            // json text tokens: those longer than JSON_MAX_TOKEN_LEN (65 526) are dropped; the
            // lengths between that limit and MAX_TOKEN_LEN belong to the `jsonlong` stream
            let mut w = gen(rng, usize::MAX);
            if w.len() > JSON_MAX_TOKEN_LEN && w.len() <= MAX_TOKEN_LEN {
                w = gen(rng, JSON_MAX_TOKEN_LEN);
            }
            let w2 = gen(rng, 300);
            let key = rng.pick(&["a", "a.b", "k"]).to_string();
            b.json(3, &J::Obj(vec![(key, J::Arr(vec![J::Str(w), J::Str(w2)]))]));
        }
        b.finish_doc()?;
    }
    Ok((b.finish()?, vec![]))
}

// ------------------------------------------------------------------------------------------
// documents whose values are not grouped by field

/// number of values of one document: around the sizes at which sorting routines change strategy
/// (insertion sort / small sorts / partitioning / run detection) and well beyond
const VALUE_COUNTS: [usize; 26] = [
    2, 3, 8, 16, 19, 20, 21, 22, 24, 31, 32, 33, 34, 40, 48, 50, 63, 64, 65, 80, 100, 128, 129, 200, 300, 600,
];

/// the order in which the values of one document are added: a sequence of field indices
fn value_order(rng: &mut Rng, active: &[usize], total: usize) -> (Vec<usize>, &'static str) {
    let k = active.len();
    let mut sorted_active = active.to_vec();
    sorted_active.sort_unstable();
    // random split of `total` into one block per active field
    let blocks = |rng: &mut Rng| -> Vec<usize> {
        let mut cnt = vec![0usize; k];
        let w: Vec<u32> = (0..k).map(|_| *rng.pick(&[1u32, 1, 2, 5])).collect();
        for _ in 0..total {
            cnt[rng.weighted(&w)] += 1;
        }
        cnt
    };
    let ascending = |rng: &mut Rng| -> Vec<usize> {
        let cnt = blocks(rng);
        let mut o = vec![];
        for (i, &f) in sorted_active.iter().enumerate() {
            o.extend(std::iter::repeat(f).take(cnt[i]));
        }
        o
    };
    match rng.below(8) {
        0 | 1 => {
            let w: Vec<u32> = (0..k).map(|_| *rng.pick(&[1u32, 1, 2, 5])).collect();
            ((0..total).map(|_| active[rng.weighted(&w)]).collect(), "random")
        }
        2 => ((0..total).map(|i| active[i % k]).collect(), "round-robin"),
        3 => {
            let mut o = ascending(rng);
            o.reverse();
            (o, "descending-blocks")
        }
        4 => {
            // everything in schema order, then a few late values of earlier fields
            let mut o = ascending(rng);
            let late = rng.urange(1, 3).min(o.len());
            for _ in 0..late {
                let f = sorted_active[rng.usize_below(k.max(2) - 1)];
                o.push(f);
            }
            (o, "ascending-then-late-values")
        }
        5 => {
            let mut o = ascending(rng);
            for _ in 0..rng.urange(1, 4) {
                if o.len() >= 2 {
                    let (a, b) = (rng.usize_below(o.len()), rng.usize_below(o.len()));
                    o.swap(a, b);
                }
            }
            (o, "ascending-with-swaps")
        }
        6 => {
            // two fields alternating, then a run of the others
            let mut o: Vec<usize> = (0..total / 2).map(|i| active[i % 2]).collect();
            while o.len() < total {
                o.push(active[rng.usize_below(k)]);
            }
            (o, "alternating-then-random")
        }
        _ => (ascending(rng), "ascending"),
    }
}

fn add_one_value(rng: &mut Rng, b: &mut SegBuilder, fi: usize, vocab: usize) {
    let p = b.specs[fi].proto.clone();
    match p.kind {
        Kind::Text => {
            if rng.chance(1, 10) {
                let t = gen_pretok(rng, vocab);
                b.pretok(fi, &t);
            } else {
                let t = gen_text(rng, p.tok, vocab);
                b.text(fi, &t);
            }
        }
        Kind::U64 => b.u64(fi, gen_u64(rng)),
        Kind::I64 => b.i64(fi, gen_i64(rng)),
        Kind::F64 => b.f64(fi, gen_f64(rng)),
        Kind::Bool => b.bool(fi, rng.bool()),
        Kind::Date => b.date(fi, gen_date(rng)),
        Kind::Bytes => b.bytes(fi, &gen_bytes(rng)),
        Kind::Ip => b.ip(fi, gen_ip(rng)),
        Kind::Facet => b.facet(fi, &gen_facet(rng)),
        Kind::Json => {
            let j = gen_json(rng, p.tok, vocab, 2);
            b.json(fi, &j);
        }
    }
}

/// Documents whose values arrive in an order that is NOT grouped by field (the indexer regroups
/// them per field and has to keep the order of the values of each field, which decides the token
/// positions of multi-valued fields): interleaved multi-valued fields, fields in reverse schema
/// order, late values of an early field; 2 .. several hundred values per document.
fn plan_interleaved(rng: &mut Rng, rep: &mut Report) -> PlanResult {
    let nf = rng.urange(2, 6);
    let popt = |rng: &mut Rng| {
        if rng.chance(3, 4) {
            IndexRecordOption::WithFreqsAndPositions
        } else {
            ropt(rng)
        }
    };
    let mut protos = vec![];
    for _ in 0..nf {
        protos.push(match rng.below(10) {
            0..=4 => Proto::text(rtok(rng), popt(rng), rng.bool()),
            5 | 6 => Proto::json(*rng.pick(&[Tok::Default, Tok::White]), popt(rng), rng.bool()),
            7 => Proto::simple(Kind::U64, rng.bool()),
            8 => Proto::simple(Kind::Facet, false),
            _ => Proto::simple(Kind::Bytes, rng.bool()),
        });
    }
    let k = rng.usize_below(nf);
    protos[k] = Proto::text(
        *rng.pick(&[Tok::Default, Tok::White]),
        IndexRecordOption::WithFreqsAndPositions,
        rng.bool(),
    );
    let vocab = *rng.pick(&[3usize, 30, 30, 1000]);
    let mut b = SegBuilder::create(protos, budget(rng))?;
    let ndocs = rng.urange(1, 6);
    for _ in 0..ndocs {
        let total = if rng.chance(2, 3) { *rng.pick(&VALUE_COUNTS) } else { rng.urange(1, 400) };
        let mut active: Vec<usize> = (0..nf).collect();
        rng.shuffle(&mut active);
        active.truncate(rng.urange(2, nf));
        let (order, pattern) = value_order(rng, &active, total);
        let grouped = order.windows(2).all(|w| w[0] <= w[1]);
        let mut per_field = vec![0usize; nf];
        for &fi in &order {
            per_field[fi] += 1;
            add_one_value(rng, &mut b, fi, vocab);
        }
        b.finish_doc()?;
        rep.observe("doc_value_order", pattern);
        rep.observe(
            "doc_values_class",
            format!(
                "{}:{}",
                match order.len() {
                    0..=20 => "<=20",
                    21..=32 => "21..32",
                    33..=64 => "33..64",
                    65..=128 => "65..128",
                    _ => ">128",
                },
                if grouped { "grouped-by-field" } else { "not-grouped" }
            ),
        );
        if !grouped {
            rep.count("docs_with_values_not_grouped_by_field", 1);
            let multi = (0..nf)
                .filter(|&f| per_field[f] >= 2 && b.specs[f].proto.opt == IndexRecordOption::WithFreqsAndPositions)
                .count();
            rep.count("multi_valued_position_fields_in_ungrouped_docs", multi as u64);
        }
    }
    Ok((b.finish()?, vec![]))
}

// ------------------------------------------------------------------------------------------
// distinct terms with equal hash in the indexing-time term table

/// where the bytes in which two keys of equal length differ lie, relative to a comparison done in
/// 16-byte chunks plus one overlapping chunk at the end
fn diff_class(a: &[u8], b: &[u8]) -> String {
    let len = a.len();
    let d0 = (0..len).find(|&i| a[i] != b[i]).unwrap_or(0);
    let d1 = (0..len).rfind(|&i| a[i] != b[i]).unwrap_or(0);
    if len <= 16 {
        return format!("len{}:{}", if len < 8 { "<8" } else { "8..16" }, if d1 < len / 2 { "first-half" } else if d0 >= len / 2 { "second-half" } else { "both-halves" });
    }
    let (q, r) = (len / 16, len % 16);
    let place = if d0 >= 16 * q {
        "tail".to_string()
    } else if d1 < 16 * q && d0 / 16 == d1 / 16 {
        let c = d0 / 16;
        if c == q - 1 && r > 0 {
            if d1 < len - 16 {
                "last-full-chunk:before-the-end-chunk".into()
            } else if d0 >= len - 16 {
                "last-full-chunk:inside-the-end-chunk".into()
            } else {
                "last-full-chunk:both".into()
            }
        } else if c == 0 {
            "first-chunk".into()
        } else if c == q - 1 {
            "last-chunk".into()
        } else {
            "middle-chunk".into()
        }
    } else {
        "spanning-chunks".into()
    };
    format!("len>16,{}:{place}", if r == 0 { "k*16" } else { "k*16+r" })
}

struct CollideField {
    /// value bytes (text token / bytes value / 8 big-endian value bytes); for JSON the path index
    terms: Vec<(usize, Vec<u8>)>,
}

const JSON_PATHS: [&str; 2] = ["k", "m"];

/// Distinct terms of one field (sometimes of two fields) whose in-memory keys - field id, for JSON
/// also path id and type code, then the value bytes - have the same length and the same 32-bit
/// hash, and differ only in a chosen window. Random terms practically never collide, so this is
/// the only way the term table's key comparison ever sees two different keys.
fn plan_collide(rng: &mut Rng, rep: &mut Report) -> PlanResult {
    let nf = rng.urange(1, 3);
    let mut protos = vec![];
    let mut have_json = false;
    for _ in 0..nf {
        let p = match rng.below(11) {
            0..=4 => Proto::text(*rng.pick(&[Tok::White, Tok::White, Tok::Raw, Tok::Default]), ropt(rng), rng.bool()),
            5 | 6 => Proto::simple(Kind::Bytes, rng.bool()),
            7 => Proto::simple(Kind::U64, rng.bool()),
            8 => Proto::simple(Kind::I64, rng.bool()),
            _ if !have_json => {
                have_json = true;
                Proto::json(*rng.pick(&[Tok::White, Tok::White, Tok::Raw, Tok::Default]), ropt(rng), rng.bool())
            }
            _ => Proto::text(Tok::White, ropt(rng), rng.bool()),
        };
        protos.push(p);
    }
    let mut b = SegBuilder::create(protos, budget(rng))?;
    let npaths = rng.urange(1, 2);
    let mut cf: Vec<CollideField> = (0..nf).map(|_| CollideField { terms: vec![] }).collect();
    let mut planted: Planted = vec![];
    let mut npairs = 0u64;
    // text-like fields that may share one search (same alphabet, same key layout)
    let whites: Vec<usize> =
        (0..nf).filter(|&f| b.specs[f].proto.kind == Kind::Text && b.specs[f].proto.tok != Tok::Default).collect();
    for fi in 0..nf {
        let p = b.specs[fi].proto.clone();
        let fid = b.specs[fi].field.field_id().to_be_bytes().to_vec();
        let nsearch = rng.urange(1, 3);
        for _ in 0..nsearch {
            let path = rng.usize_below(npaths);
            let (mut heads, alphabet, min_len, max_len): (Vec<Vec<u8>>, Alphabet, usize, usize) = match p.kind {
                Kind::Text => (vec![fid.clone()], Alphabet::LowerAlnum, 4 + 4, if p.tok == Tok::Default { 4 + 39 } else { 5000 }),
                Kind::Bytes => (vec![fid.clone()], Alphabet::Bytes, 4 + 3, 5000),
                Kind::U64 | Kind::I64 => (vec![fid.clone()], Alphabet::Bytes, 12, 12),
                _ => {
                    // JSON text term: field id, path id (paths are numbered in the order in which
                    // the segment meets them: document 0 registers them), type code
                    let mut h = fid.clone();
                    h.extend_from_slice(&(path as u32).to_be_bytes());
                    h.push(b's');
                    (vec![h], Alphabet::LowerAlnum, 9 + 4, if p.tok == Tok::Default { 9 + 39 } else { 5000 })
                }
            };
            let cross = p.kind == Kind::Text && p.tok != Tok::Default && whites.len() >= 2 && rng.chance(1, 5);
            if cross {
                heads = whites.iter().map(|&f| b.specs[f].field.field_id().to_be_bytes().to_vec()).collect();
            }
            let vstart = heads[0].len();
            let len = collide::pick_key_len(rng, min_len, max_len);
            let min_w = if alphabet == Alphabet::Bytes { 3 } else { 4 };
            let mut pairs = vec![];
            let mut wclass = "";
            for _attempt in 0..6 {
                let Some(win) = collide::pick_window(rng, len, vstart, min_w) else { break };
                if !collide::can_collide(&win.holes, heads.len()) {
                    continue;
                }
                let mut key = vec![0u8; len];
                let fill = *rng.pick(b"abz09");
                for (i, x) in key.iter_mut().enumerate().skip(vstart) {
                    *x = match alphabet {
                        Alphabet::Bytes => rng.next_u64() as u8,
                        // random shared prefix / suffix, or long runs of one letter
                        Alphabet::LowerAlnum => {
                            if i % 2 == 0 || rng.bool() {
                                fill
                            } else {
                                b'a' + rng.below(26) as u8
                            }
                        }
                    };
                }
                let tpl = Template { heads: heads.clone(), key, holes: win.holes, alphabet };
                let want = rng.urange(1, 3);
                pairs = collide::find_pairs(rng, &tpl, want, 400_000);
                wclass = win.class;
                if !pairs.is_empty() {
                    break;
                }
                rep.count("collision_searches_without_result", 1);
            }
            for (ka, kb) in pairs {
                npairs += 1;
                rep.observe("collide_field", format!("{}:{}", p.kind.name(), if cross { "two-fields" } else { "one-field" }));
                rep.observe("collide_window", wclass);
                rep.observe("collide_diff_place", diff_class(&ka, &kb));
                rep.observe("collide_key_len_mod_16", format!("{:02}", ka.len() % 16));
                rep.nontrivial(format!("collide|{}|{}|{}", p.kind.name(), wclass, diff_class(&ka, &kb)));
                for k in [ka, kb] {
                    // which field does the key belong to (cross-field searches)
                    let f = if cross {
                        whites.iter().copied().find(|&f| b.specs[f].field.field_id().to_be_bytes() == k[..4]).unwrap_or(fi)
                    } else {
                        fi
                    };
                    let val = k[vstart..].to_vec();
                    let dict_key = if p.kind == Kind::Json {
                        let mut d = JSON_PATHS[path].as_bytes().to_vec();
                        d.extend_from_slice(b"\0s");
                        d.extend_from_slice(&val);
                        d
                    } else {
                        val.clone()
                    };
                    planted.push((f, dict_key));
                    cf[f].terms.push((path, val));
                }
            }
        }
    }
    rep.count("colliding_term_pairs_planted", npairs);
    let n = match rng.below(12) {
        0 => rng.urange(129, 300),
        1..=4 => rng.urange(1, 4),
        _ => rng.urange(2, 40),
    };
    let nfill = *rng.pick(&[1usize, 10, 300, 3000]);
    let as_str = |v: &[u8]| String::from_utf8_lossy(v).into_owned();
    for d in 0..n {
        for fi in 0..nf {
            let p = b.specs[fi].proto.clone();
            if p.kind == Kind::Json && d == 0 {
                // registers the paths in a known order
                let kv = (0..npaths).map(|i| (JSON_PATHS[i].to_string(), J::Str("seed".into()))).collect();
                b.json(fi, &J::Obj(kv));
            }
            if !rng.chance(4, 5) {
                continue;
            }
            let terms = &cf[fi].terms;
            let pick_term = |rng: &mut Rng, path: Option<usize>| -> Option<Vec<u8>> {
                if terms.is_empty() || !rng.chance(3, 5) {
                    return None;
                }
                let (pa, t) = rng.pick(terms);
                if path.is_some_and(|x| x != *pa) {
                    return None;
                }
                Some(t.clone())
            };
            let text_value = |rng: &mut Rng, path: Option<usize>| -> String {
                if p.tok == Tok::Raw {
                    return match pick_term(rng, path) {
                        Some(t) => as_str(&t),
                        None => gen_text(rng, Tok::Raw, nfill),
                    };
                }
                let ntok = *rng.pick(&[0usize, 1, 1, 2, 3, 6]);
                (0..ntok)
                    .map(|_| match pick_term(rng, path) {
                        Some(t) => as_str(&t),
                        None => gen_word(rng, p.tok, nfill),
                    })
                    .collect::<Vec<_>>()
                    .join(" ")
            };
            for _ in 0..*rng.pick(&[1usize, 1, 2, 3]) {
                match p.kind {
                    Kind::Text => {
                        let t = text_value(rng, None);
                        b.text(fi, &t);
                    }
                    Kind::Bytes => match pick_term(rng, None) {
                        Some(t) => b.bytes(fi, &t),
                        None => b.bytes(fi, &gen_bytes(rng)),
                    },
                    Kind::U64 | Kind::I64 => {
                        let u = match pick_term(rng, None) {
                            Some(t) => u64::from_be_bytes(t[..8].try_into().unwrap_or([0; 8])),
                            None => gen_u64(rng),
                        };
                        if p.kind == Kind::U64 {
                            b.u64(fi, u);
                        } else {
                            b.i64(fi, (u ^ (1u64 << 63)) as i64);
                        }
                    }
                    _ => {
                        let mut kv = vec![];
                        for (i, name) in JSON_PATHS.iter().enumerate().take(npaths) {
                            if rng.chance(2, 3) {
                                kv.push((name.to_string(), J::Str(text_value(rng, Some(i)))));
                            }
                        }
                        if rng.chance(1, 4) {
                            kv.push((JSON_PATHS[0].to_string(), J::I(rng.irange(0, 3))));
                        }
                        b.json(fi, &J::Obj(kv));
                    }
                }
            }
        }
        b.finish_doc()?;
    }
    Ok((b.finish()?, planted))
}

/// The term table of the indexer alone (`tantivy_stacker::ArenaHashMap`), fed with keys of equal
/// hash next to random ones, against a BTreeMap: every distinct key exactly once, with the value
/// of its own updates.
fn arena_case(_case: u64, rng: &mut Rng, rep: &mut Report) {
    use std::collections::BTreeMap;
    use tantivy_stacker::ArenaHashMap;
    let mut pool: Vec<Vec<u8>> = vec![];
    let mut siblings: Vec<Vec<u8>> = vec![];
    for _ in 0..rng.urange(1, 4) {
        let alphabet = if rng.bool() { Alphabet::Bytes } else { Alphabet::LowerAlnum };
        let min_w = if alphabet == Alphabet::Bytes { 3 } else { 4 };
        let len = collide::pick_key_len(rng, min_w + 2, 5000);
        let Some(win) = collide::pick_window(rng, len, 0, min_w) else { continue };
        if !collide::can_collide(&win.holes, 1) {
            continue;
        }
        let key: Vec<u8> = match alphabet {
            Alphabet::Bytes => rng.bytes(len),
            Alphabet::LowerAlnum => (0..len).map(|_| b'a' + rng.below(26) as u8).collect(),
        };
        let tpl = Template { heads: vec![], key, holes: win.holes, alphabet };
        let want = rng.urange(1, 3);
        for (a, bb) in collide::find_pairs(rng, &tpl, want, 400_000) {
            rep.observe("collide_diff_place", diff_class(&a, &bb));
            rep.observe("collide_window", win.class);
            rep.count("colliding_key_pairs_in_term_table", 1);
            rep.nontrivial(format!("arena|{}|{}", win.class, diff_class(&a, &bb)));
            // sometimes only one key of the pair is inserted: the other one must stay absent
            if rng.chance(1, 4) {
                siblings.push(bb);
            } else {
                pool.push(bb);
            }
            pool.push(a);
        }
    }
    for _ in 0..*rng.pick(&[0usize, 10, 500, 5000]) {
        let n = rng.urange(0, 40);
        pool.push(rng.bytes(n));
    }
    if pool.is_empty() {
        return;
    }
    let mut map = ArenaHashMap::with_capacity(*rng.pick(&[1usize, 4, 1024, 1 << 16]));
    let mut model: BTreeMap<Vec<u8>, u64> = BTreeMap::new();
    let nops = pool.len() * rng.urange(1, 3) + rng.urange(0, 20);
    rep.eval();
    for seq in 0..nops as u64 {
        let key = rng.pick(&pool).clone();
        let want_old = model.get(&key).copied();
        let mut got_old: Option<Option<u64>> = None;
        map.mutate_or_create(&key, |old: Option<u64>| {
            got_old = Some(old);
            match old {
                None => seq << 20,
                Some(v) => v + 1,
            }
        });
        if got_old != Some(want_old) {
            rep.violation(
                "term-table:mutate_or_create-passed-the-value-of-another-key",
                json!({"key": show(&key), "got_previous": format!("{got_old:?}"), "expected_previous": format!("{want_old:?}"), "distinct_keys_so_far": model.len()}),
            );
            return;
        }
        model.insert(key, match want_old {
            None => seq << 20,
            Some(v) => v + 1,
        });
    }
    if map.len() != model.len() {
        rep.violation("term-table:len", json!({"got": map.len(), "expected": model.len()}));
        return;
    }
    let mut got: Vec<(Vec<u8>, u64)> = map.iter().map(|(k, addr)| (k.to_vec(), map.read::<u64>(addr))).collect();
    got.sort();
    let want: Vec<(Vec<u8>, u64)> = model.iter().map(|(k, v)| (k.clone(), *v)).collect();
    if got != want {
        let at = got.iter().zip(want.iter()).position(|(a, b)| a != b).unwrap_or(got.len().min(want.len()));
        rep.violation(
            "term-table:iter",
            json!({"first_diff_at": at, "got": got.get(at).map(|(k, v)| (show(k), *v)), "expected": want.get(at).map(|(k, v)| (show(k), *v))}),
        );
        return;
    }
    for (k, v) in &model {
        if map.get::<u64>(k) != Some(*v) {
            rep.violation("term-table:get", json!({"key": show(k), "got": format!("{:?}", map.get::<u64>(k)), "expected": v}));
            return;
        }
    }
    for k in &siblings {
        if !model.contains_key(k) && map.get::<u64>(k).is_some() {
            rep.violation("term-table:get-finds-a-key-never-inserted", json!({"key": show(k)}));
            return;
        }
    }
    rep.count("term_table_keys_compared", model.len() as u64);
    rep.observe("plan", "arena");
}

// ------------------------------------------------------------------------------------------
// case drivers

fn run_plan(case: u64, rng: &mut Rng, rep: &mut Report, plan: &str, thorough: bool) {
    let res = match plan {
        "small" => plan_small(rng),
        "boundary" => plan_boundary(rng),
        "big" => plan_big(rng, thorough),
        "heavy_tf" => plan_heavy_tf(rng),
        "interleave" => plan_interleaved(rng, rep),
        "collide" => plan_collide(rng, rep),
        _ => plan_long_terms(rng),
    };
    verify_and_account(case, rng, rep, plan, res);
}

/// stream `vint`: values on the length boundaries of the variable-length integer encoding
fn vint_case(thorough: bool) -> impl Fn(u64, &mut Rng, &mut Report) + Sync {
    move |case, rng, rep| {
        let shape = vintedge::shape_of(case, thorough, rng);
        let res = vintedge::plan(shape, rng, rep, thorough);
        if let Some(built) = verify_and_account(case, rng, rep, shape.name(), res) {
            vintedge::observe_reach(rep, &built);
        }
    }
}

/// reads the segment back, compares it with the model and books the case; returns the segment
/// when it could be compared (exactly one segment)
fn verify_and_account(case: u64, rng: &mut Rng, rep: &mut Report, plan: &str, res: PlanResult) -> Option<Built> {
    let (built, planted) = match res {
        Ok(x) => x,
        Err(e) => {
            let what = e.split(':').next().unwrap_or("?").to_string();
            rep.violation(format!("api-error:{what}"), json!({"plan": plan, "err": e}));
            return None;
        }
    };
    let effort = Effort { max_terms_full: 300, seeks_per_term: 12 };
    let stats = verify_segment(rep, rng, &built, plan, &planted, &effort)?;
    rep.evals(stats.fields);
    rep.count("segments", 1);
    rep.count(&format!("segments:{plan}"), 1);
    rep.count("docs_indexed", built.ndocs as u64);
    rep.observe("plan", plan);
    rep.observe("segment_docs_log2", format!("{:02}", 32 - built.ndocs.leading_zeros()));
    for (nt, shape) in &stats.shapes {
        if *nt {
            rep.nontrivial(shape.clone());
        }
    }
    if case < 6 {
        rep.sample(json!({
            "plan": plan, "docs": built.ndocs, "max_doc_freq": stats.max_df,
            "fields": built.specs.iter().zip(built.models.iter()).map(|(s, m)| json!({
                "field": s.proto.describe(), "terms": m.terms.len(), "total_tokens": m.total_tokens,
                "first_terms": m.terms.iter().take(3).map(|(k, t)| json!({"term": show(k), "df": t.docs.len(),
                    "first_docs": t.docs.iter().take(4).collect::<Vec<_>>(), "first_tfs": t.tfs.iter().take(4).collect::<Vec<_>>()})).collect::<Vec<_>>()
            })).collect::<Vec<_>>()
        }));
    }
    Some(built)
}

fn main_case(thorough: bool) -> impl Fn(u64, &mut Rng, &mut Report) + Sync {
    move |case, rng, rep| {
        let plan = match case % 16 {
            0 => "big",
            1 | 9 => "heavy_tf",
            2 | 10 => "long_terms",
            3 | 4 | 5 | 11 => "boundary",
            _ => "small",
        };
        // every fifth case writes its segment through SingleSegmentIndexWriter
        let single = case % 5 == 4;
        set_single_segment_writer(single);
        rep.observe("writer_kind", if single { "SingleSegmentIndexWriter" } else { "IndexWriter" });
        run_plan(case, rng, rep, plan, thorough);
        set_single_segment_writer(false);
    }
}

/// JSON text tokens around the key limit: field id + path id + type byte + token must fit the
/// 65 535-byte key of the in-memory term table, so tokens longer than JSON_MAX_TOKEN_LEN are
/// dropped (they used to be cut silently, which keeps its own signature here).
fn jsonlong_case(_case: u64, rng: &mut Rng, rep: &mut Report) {
    let tok = *rng.pick(&[Tok::Raw, Tok::White]);
    let (o, dots) = (ropt(rng), rng.bool());
    let protos = vec![Proto::json(tok, o, dots)];
    let mut b = match SegBuilder::create(protos, 15 * MB) {
        Ok(b) => b,
        Err(e) => {
            rep.violation("api-error:writer", json!(e));
            return;
        }
    };
    let n = rng.urange(1, 4);
    let mut lens = vec![];
    // keys the dictionary would hold if over-long tokens were cut at the key limit instead of
    // being dropped (the repaired defect): "a" \0 's' token[..JSON_MAX_TOKEN_LEN]
    let mut cut_extra: Vec<Vec<u8>> = vec![];
    for _ in 0..n {
        let len = *rng.pick(&[65_525usize, 65_526, 65_527, 65_528, 65_529, 65_530]);
        lens.push(len);
        let mut w = "m".repeat(len - 1);
        w.push(*rng.pick(&['0', '1']));
        if len > JSON_MAX_TOKEN_LEN {
            let mut k = b"a\0s".to_vec();
            k.extend_from_slice(&w.as_bytes()[..JSON_MAX_TOKEN_LEN]);
            cut_extra.push(k);
        }
        b.json(0, &J::Obj(vec![("a".into(), J::Str(w)), ("n".into(), J::I(1))]));
        if let Err(e) = b.finish_doc() {
            rep.violation("api-error:add_document", json!(e));
            return;
        }
    }
    let built = match b.finish() {
        Ok(x) => x,
        Err(e) => {
            rep.violation("api-error:commit", json!(e));
            return;
        }
    };
    rep.observe("plan", "jsonlong");
    for l in &lens {
        rep.observe("json_long_token_len", l.to_string());
    }
    // does the dictionary hold the model's keys, or also the over-long tokens cut at the key limit?
    let keys: Vec<Vec<u8>> = (|| {
        let reader = built.index.reader().ok()?;
        let searcher = reader.searcher();
        let seg = searcher.segment_readers().first()?;
        let inv = seg.inverted_index(built.specs[0].field).ok()?;
        let mut st = inv.terms().stream().ok()?;
        let mut keys = vec![];
        while let Some((k, _)) = st.next() {
            keys.push(k.to_vec());
        }
        Some(keys)
    })()
    .unwrap_or_default();
    let model_keys: Vec<&Vec<u8>> = built.models[0].terms.keys().collect();
    let same = keys.len() == model_keys.len() && keys.iter().zip(model_keys.iter()).all(|(a, b)| a == *b);
    if !same && !cut_extra.is_empty() {
        let mut cut: Vec<Vec<u8>> = model_keys.iter().map(|k| (*k).clone()).collect();
        cut.extend(cut_extra.iter().cloned());
        cut.sort();
        cut.dedup();
        if cut == keys {
            rep.eval();
            rep.nontrivial(format!("jsonlong:{}", lens.iter().max().unwrap()));
            rep.violation(
                "json:text-token-within-MAX_TOKEN_LEN-silently-truncated-at-arena-key-limit",
                json!({"token_lens": lens, "tokenizer": tok.name(), "longest_json_token_that_fits_the_key": JSON_MAX_TOKEN_LEN,
                       "dictionary_keys": keys.iter().map(|k| show(k)).collect::<Vec<_>>(),
                       "expected_keys": model_keys.iter().map(|k| show(k)).collect::<Vec<_>>()}),
            );
            return;
        }
    }
    let effort = Effort { max_terms_full: 50, seeks_per_term: 4 };
    if let Some(stats) = verify_segment(rep, rng, &built, "jsonlong", &[], &effort) {
        rep.evals(stats.fields);
        rep.count("segments", 1);
        rep.count("segments:jsonlong", 1);
        rep.nontrivial(format!("jsonlong:{}", lens.iter().max().unwrap()));
    }
}

fn main() {
    let ctx = Ctx::from_env("C07", "exploration");
    let thorough = !ctx.quick();
    let n_main = ctx.scale(240, 5600) as u64;
    let n_long = ctx.scale(8, 64) as u64;
    if !collide::self_test() {
        harness_fatal("c07: the generator's murmurhash2 does not reproduce the reference vectors");
    }
    // first, so that its few heavy cases (2M-document segment, 2M-token documents) start at once
    let n_vint = ctx.scale(vintedge::CASES_FOR_FULL_GRID as usize, 1610) as u64;
    let mut rep = run_cases(&ctx, "vint", n_vint, vint_case(thorough));
    // reach is part of the verdict: a full-size run that did not put every boundary value it is
    // built for through the index is inconclusive (scaled-down sanitizer re-runs are exempt)
    if ctx.replay.is_none() && n_vint >= vintedge::CASES_FOR_FULL_GRID {
        let missing: Vec<String> = vintedge::required_reach()
            .into_iter()
            .filter(|(set, m)| !rep.sets.get(*set).is_some_and(|s| s.contains(m)))
            .map(|(set, m)| format!("{set}:{m}"))
            .collect();
        if !missing.is_empty() {
            rep.harness_error(format!(
                "stream vint did not reach {} of the boundary values it is built to reach: {}",
                missing.len(),
                missing.join(", ")
            ));
        }
    }
    rep.merge(run_cases(&ctx, "main", n_main, main_case(thorough)));
    rep.merge(run_cases(&ctx, "jsonlong", n_long, jsonlong_case));
    rep.merge(run_cases(&ctx, "interleave", ctx.scale(200, 3000) as u64, |case, rng, rep| {
        run_plan(case, rng, rep, "interleave", thorough)
    }));
    rep.merge(run_cases(&ctx, "collide", ctx.scale(200, 3000) as u64, |case, rng, rep| {
        run_plan(case, rng, rep, "collide", thorough)
    }));
    rep.merge(run_cases(&ctx, "arena", ctx.scale(100, 1500) as u64, arena_case));
    simple_finish(
        &ctx,
        rep,
        "case = one generated segment (plans: small all-types, df-boundary, big sparse, heavy tf/positions, long terms, json long tokens, vint = every value written as a variable-length integer on the way into the index - doc-id delta to the term's previous document / first doc id, term frequency, position + 1, position delta - placed at 2^k-1, 2^k, 2^k+1 for k = 7, 14, 21 (positions also 28): pre-tokenized values with explicit positions, multi-valued fields whose lengths and gaps add up, plain and JSON strings that long, documents of 2^21-1 / 2^21 / 2^21+1 equal tokens in fields with frequencies only and with positions, and segments of 2^21 + a few hundred mostly empty documents with terms of every record option that far apart; the sets vint_*_reached list the boundary values the model says were reached, a full-size run missing one it is built for is inconclusive; interleave = documents of 1..600 values added in an order not grouped by field, collide = distinct terms of equal length whose in-memory keys have the same 32-bit hash and differ only in a window placed relative to the 16-byte chunks of the key comparison) written by the real IndexWriter and read back per field; an evaluation = one (segment, field) read-back: term dictionary (num_terms, stream order, keys vs public Term constructors, TermInfo), total_num_tokens, field norms, and for the selected terms doc_freq + postings under Basic/WithFreqs/WithFreqsAndPositions read by scan, by seek/advance programs, by the block cursor (scan, seek, rank, reset). Non-trivial = the field has a posting list of >= 128 documents or records positions. Distinct = field configuration x df class x tf class x log2(#terms) x log2(#docs); for collide also field kind x window class x place of the differing bytes. Stream arena: the indexing-time term table alone (tantivy_stacker::ArenaHashMap) fed with such equal-hash keys, compared with a BTreeMap (previous value handed to the updater, len, iter, get).",
        ctx.scale(50, 800),
        &[
            "text is generated as words joined by single spaces; the default/raw/whitespace tokenizers are modelled by their documented rules (split, RemoveLongFilter(40), MAX_TOKEN_LEN; a JSON text token must also fit the 65535-byte in-memory key after field id + path id + type byte, i.e. <= 65526 bytes, else it is dropped)",
            "one indexing thread, NoMergePolicy and one commit give exactly one segment whose doc ids are the insertion order; cases where the memory budget cut the segment are skipped and counted",
            "term_freq is only compared when the requested option has frequencies; for terms recorded without frequencies (Basic fields, typed JSON values) the documented value 1 is expected",
            "positions() is not called on typed JSON terms of a field with positions (no positions exist; tantivy's merger avoids the call as well)",
            "vint: the next encoding-length boundary after 2^21 is 2^28; a doc-id delta or a term frequency of 2^28 needs a segment of 268M documents / a document of 268M tokens and is out of reach of both tiers (positions reach it through pre-tokenized values). Quick builds two segments of 2^21+600..900 documents, thorough also segments of up to 3*2^21 documents with random gaps above 2^21 (4-byte class)",
            "vint: which values pass through which encoder (doc delta, term frequency only in fields without positions and only once a later document of the term arrives, position + 1) was read from src/postings/recorder.rs; it only steers the input and the vint_*_reached bookkeeping, the oracle is the same model read-back as everywhere else",
            "collide/arena: the generator re-implements murmurhash2 (seed of the murmurhash32 crate, checked against its reference vectors at start) and assumes the in-memory key layout field id (4 bytes BE) ++ value bytes, for JSON text terms field id ++ path id (4 bytes BE, numbered in order of first appearance) ++ 's' ++ token; this only steers the input - were it wrong the planted terms would not collide and the stream would be an ordinary small-segment workload (the arena stream does not depend on the layout)",
            "interleave: TantivyDocument keeps values in the order in which they were added, and the values of one field are indexed in that order (position of a value = end of the previous value of the same field + 1)",
        ],
    );
}
